"""C03 - linked attributes are reachable exactly through links and carry composed values.

Shape: many short histories + executable reference model.  A history builds
2-5 real `Data` objects (different lengths, injective columns, some with 1-d
affine coordinates, some with a derived column, some 2-d), puts some of them in
a real `DataCollection` and applies 3-10 (quick) steps: add one-way / two-way /
identity / multi-input / multi-output / pixel-aligned links (one by one, as a
list, via set_links), remove links, add / remove components, remove / append
datasets, the same inside `delay_link_manager_update()` or
`hub.delay_callbacks()` blocks.  The harness mirrors every step on a tiny model
(set of live link triples (inputs, output, function), live attributes, member
datasets).  After every top-level step, at the quiescent point, every member
dataset is asked for every attribute ever created (`Data[cid]`), for a few
selections (`Data.get_mask(cid > c)`), for `externally_derivable_components`,
and the collection for `external_links` / `links`.  The oracle is an independent
fixpoint over the model's triples (depth(own)=0, depth(to)=1+max depth(from))
that enumerates the value arrays along *every* minimum-depth derivation; link
functions are path-distinguishing (`sum((i+1)*x_i)+k`, distinct k per link) so
that a non-shortest or wrong chain gives different numbers.
"""
import itertools

import numpy as np

from glue.core import Data, DataCollection
from glue.core.component_id import ComponentID
from glue.core.component_link import ComponentLink
from glue.core.coordinates import AffineCoordinates, IdentityCoordinates
from glue.core.exceptions import IncompatibleAttribute
from glue.core.link_helpers import LinkSame, LinkTwoWay, MultiLink, LinkAligned
from glue.core.subset import RangeSubsetState
from glue.core.hub import HubListener
from glue.core.message import Message, ExternallyDerivableComponentsChangedMessage

from vf.ctx import stable_hash

ID = "C03"
LEVEL = "exploration"
BUDGET_S = {"quick": 38.0, "thorough": 420.0}
RULE = ("cases are histories of 3-10 (quick) / 5-40 (thorough) steps over 2-5 datasets drawn from: add one-way link, "
        "one-way link with inverse, LinkSame, LinkTwoWay, multi-input link (inputs from one or two datasets), MultiLink "
        "with two outputs, LinkAligned, add_link(list), set_links, remove link(s), add component (fresh or adopting a "
        "pre-created floating ComponentID that is already a link target), remove component, remove dataset, append "
        "dataset (never a member before, or removed earlier; links may mention a dataset before it is appended), and "
        "blocks of 2-4 such steps inside delay_link_manager_update() or hub.delay_callbacks(). After every top-level step "
        "each (member dataset, attribute) pair is one evaluation: readable?/values vs the oracle. It is non-trivial when "
        "the attribute is foreign and reachable at depth >= 1, or unreachable now but reachable earlier in the history; "
        "distinct = distinct (history, step, dataset, attribute) fingerprints.")
ASSUMPTIONS = ["'currently registered links' = links added to the collection and not removed since (a link helper counts as "
               "one registered object and goes away as a whole when any of its parts mentions a removed component or a "
               "component of a removed dataset) plus the internal pixel<->world and derived-column links of the datasets "
               "that are members of the collection",
               "a dataset's own derived column may count as depth 0 (own attribute) or depth 1 (derived through its own "
               "link): candidates of both conventions are accepted",
               "where several minimum-depth derivations exist, the value of any of them is accepted",
               "only datasets that are currently members of the collection are observed; what a removed dataset still "
               "sees is not stated",
               "link functions are the harness's own affine maps; 1-d affine coordinates are world = a*pixel + b",
               "no reference to removed objects is checked on DataCollection.external_links / .links and on the datasets' "
               "externally_derivable_components, not at garbage-collector level",
               "adding the same link object twice, removing a link that is not registered and removing components of "
               "datasets outside the collection are outside the statement and not generated"]
ANCHORS = ["glue.core.link_manager:discover_links", "glue.core.link_manager:LinkManager.update_externally_derivable_components",
           "glue.core.link_manager:LinkManager._component_removed", "glue.core.link_manager:LinkManager._data_removed",
           "glue.core.link_manager:LinkManager.add_link", "glue.core.link_manager:LinkManager.remove_link",
           "glue.core.data_collection:DataCollection._sync_link_manager", "glue.core.data_collection:DataCollection.append",
           "glue.core.data_collection:DataCollection.remove", "glue.core.data_collection:DataCollection.set_links",
           "glue.core.data:Data._set_externally_derivable_components", "glue.core.component_link:ComponentLink.compute"]

RTOL = 1e-9
MAX_CANDS = 48
try:
    import dask.array  # noqa
    HAVE_DASK = True
except Exception:  # noqa
    HAVE_DASK = False


class BoundExceeded(BaseException):
    """discover_links iterated more often than any relaxation over the existing attributes can need"""


class _Mon:
    installed = False
    calls = 0
    limit = 0


def setup(ctx):
    import glue.core.link_manager as lm
    orig_acc = lm.accessible_links
    orig_disc = lm.discover_links

    def accessible_links(cids, links):
        _Mon.calls += 1
        if _Mon.limit and _Mon.calls > _Mon.limit:
            raise BoundExceeded()
        return orig_acc(cids, links)

    def discover_links(data, links):
        _Mon.calls = 0
        return orig_disc(data, links)
    lm.accessible_links = accessible_links
    lm.discover_links = discover_links
    _Mon.installed = True


# ---------------------------------------------------------------- functions
class LinkBoom(ValueError):
    """raised by deliberately faulty link functions"""


BOOM = "<link function raises>"


def make_fn(k, nin, scale=1.0, variant="plain"):
    """path-distinguishing link function sum((i+1)*x_i) + k*scale; variants: 'ravel' returns the result ravelled
    (glue documents that it restores the shape), 'const' returns a Python scalar (constant function), 'boom' raises."""
    c = k * scale

    def f(*args):
        if variant == "boom":
            raise LinkBoom("link function %d fails" % k)
        if variant == "const":
            return float(c)
        out = sum((i + 1) * np.asarray(x, dtype=float) for i, x in enumerate(args)) + c
        return np.ravel(out) if variant == "ravel" else out
    f.__name__ = "f%d_%d_%s" % (nin, k, variant)
    return f


def make_shift(k, scale=1.0):
    def g(x):
        return np.asarray(x, dtype=float) * 0.5 - k * scale
    g.__name__ = "g%d" % k
    return g


def ident(x):
    return x


def apply_fn(fn, combo, shape):
    """value of one derivation step in the oracle: BOOM if the function (or an input) fails, otherwise the result as a
    full-shape array (scalar results broadcast, ravelled results reshaped, strings kept as strings)"""
    if any(x is BOOM for x in combo):
        return BOOM
    try:
        r = np.asarray(fn(*combo))
    except LinkBoom:
        return BOOM
    if r.dtype.kind not in "US":
        r = r.astype(float)
    if r.shape != tuple(shape) and r.size == int(np.prod(shape)):
        r = r.reshape(shape)
    return np.broadcast_to(r, shape)


def same_cand(a, b):
    if a is BOOM or b is BOOM:
        return a is b
    return a.dtype.kind == b.dtype.kind and bool(np.array_equal(a, b))


# ---------------------------------------------------------------- model
class Attr:
    def __init__(self, cid, owner, kind, name, values=None):
        self.cid, self.owner, self.kind, self.name, self.values = cid, owner, kind, name, values
        self.alive = True
        self.invertible = False
        self.is_str = False


class DS:
    def __init__(self, idx, data, shape, coords):
        self.idx, self.data, self.shape, self.coords = idx, data, shape, coords
        self.member = False
        self.removed = False
        self.mains, self.pixels, self.worlds, self.derived = [], [], [], []   # Attr lists
        self.derived_triples = {}   # attr -> (inputs(list of Attr), fn)

    def own_attrs(self):
        return [a for a in self.mains + self.derived if a.alive] + self.pixels + self.worlds


class World:
    def __init__(self, ctx, rng, tier):
        self.ctx, self.rng, self.tier = ctx, rng, tier
        self.ds = []
        self.attrs = []          # every attribute ever created (Attr), including dead and floating
        self.by_cid = {}
        self.live = []           # (glue link object, kind, [(inputs(list of cid), output cid, fn)])
        self.kcount = itertools.count(1)
        self.log = []            # JSON-able history
        self.ever = set()        # (ds idx, attr name) ever reachable
        self.dc = None
        self.current_op = "init"
        self.current_block = None
        self.scale = rng.choice([1.0] * 7 + [1e-10, 1e12, 1e6])
        self.removed_links = []      # explicitly removed link objects (candidates for re-adding the same object)
        self.has_scalar_fn = False
        self.pending_handler_link = None
        self.reader = None
        self.nsteps = 0

    # ------------------------------------------------------------ construction
    def new_attr(self, cid, owner, kind, name, values=None):
        a = Attr(cid, owner, kind, name, values)
        self.attrs.append(a)
        self.by_cid[cid] = a
        return a

    def build(self):
        rng = self.rng
        n = rng.choice([2, 3, 3, 4, 4, 5])
        shapes = []
        for i in range(n):
            r = rng.random()
            if shapes and r < 0.25:
                shapes.append(rng.choice(shapes))          # same shape as an earlier one (LinkAligned possible)
            elif r < 0.31:
                shapes.append((1,))                         # single-element dataset
            elif r < 0.34:
                shapes.append((rng.randint(100, 180),))     # beyond small-array code paths
            elif r < 0.46:
                shapes.append((rng.randint(1, 3), rng.randint(2, 3)))
            else:
                shapes.append((rng.randint(2, 6),))
        for i, shape in enumerate(shapes):
            coords = None
            kw = {}
            if len(shape) == 1 and rng.random() < 0.35:
                if rng.random() < 0.3:
                    coords = ("identity", 1.0, 0.0)
                    kw["coords"] = IdentityCoordinates(n_dim=1)
                else:
                    a, b = rng.choice([0.5, 2.0, -2.0, 3.0]), rng.choice([0.0, 1.0, -2.5, 10.0])
                    coords = ("affine", a, b)
                    kw["coords"] = AffineCoordinates(np.array([[a, b], [0.0, 1.0]]))
            d = Data(label="D%d" % i, **kw)
            rec = DS(i, d, shape, coords)
            self.ds.append(rec)
            for j in range(rng.randint(1, 3)):
                self.add_main(rec, log=False)
            for ax, cid in enumerate(d.pixel_component_ids):
                vals = np.indices(shape)[ax].astype(float)
                rec.pixels.append(self.new_attr(cid, i, "pixel", "D%d.pix%d" % (i, ax), vals))
            if coords is not None:
                cid = d.world_component_ids[0]
                rec.worlds.append(self.new_attr(cid, i, "world", "D%d.world0" % i, coords[1] * rec.pixels[0].values + coords[2]))
            if rng.random() < 0.4:
                self.add_derived(rec, log=False)
        members = [r for r in self.ds if rng.random() < 0.75]
        if not members:
            members = [self.ds[0]]
        self.dc = DataCollection([r.data for r in members])
        for r in members:
            r.member = True
        self.install_listeners()
        self.log.append(["init", [{"label": "D%d" % r.idx, "shape": list(r.shape), "coords": r.coords,
                                   "mains": [a.name for a in r.mains],
                                   "derived": [[a.name, [x.name for x in r.derived_triples[a][0]],
                                                "with_inverse" if r.derived_triples[a][2] else "no_inverse"] for a in r.derived],
                                   "member": r.member} for r in self.ds]])

    def build_fixed(self):
        """three member datasets of lengths 2, 3, 4 with one main attribute each (for the enumerated link graphs)"""
        for i, n in enumerate([2, 3, 4]):
            d = Data(label="D%d" % i)
            rec = DS(i, d, (n,), None)
            self.ds.append(rec)
            self.add_main(rec, log=False)
            rec.pixels.append(self.new_attr(d.pixel_component_ids[0], i, "pixel", "D%d.pix0" % i, np.arange(n, dtype=float)))
            rec.member = True
        self.dc = DataCollection([r.data for r in self.ds])
        self.log.append(["init_fixed", [2, 3, 4]])

    def fresh_values(self, rec):
        """(array handed to glue, logical float values, class label): injective values times the history's scale, in a
        random storage dtype / memory layout; sometimes a constant stride-0 column or a dask-backed column"""
        rng = self.rng
        n = int(np.prod(rec.shape))
        base = 10.0 * next(self.kcount)
        perm = list(range(n))
        rng.shuffle(perm)
        dt = rng.choice(["float64"] * 6 + ["float32", "int64", "int16", ">f8", "uint8"]) if self.scale == 1.0 else "float64"
        if np.dtype(dt).kind in "iu":
            vals = (np.array(perm) + int(base) % 100).astype(dt)
        else:
            vals = ((base + np.array(perm, dtype=float) * 1.25 + rng.choice([0.0, 0.25, 0.5])) * self.scale).astype(dt)
        vals = vals.reshape(rec.shape)
        layout = rng.choice(["contiguous"] * 8 + ["strided", "reversed", "fortran", "readonly", "broadcast", "dask"])
        if layout == "strided":
            big = np.zeros(rec.shape[:-1] + (rec.shape[-1] * 2,), dtype=vals.dtype)
            big[..., ::2] = vals
            arr = big[..., ::2]
        elif layout == "reversed":
            arr = np.ascontiguousarray(vals[..., ::-1])[..., ::-1]
        elif layout == "fortran":
            arr = np.asfortranarray(vals)
        elif layout == "readonly":
            arr = vals
            arr.setflags(write=False)
        elif layout == "broadcast":
            arr = np.broadcast_to(vals.ravel()[0], rec.shape)
            vals = np.array(arr)
        elif layout == "dask" and HAVE_DASK and len(rec.shape) == 1 and vals.dtype.isnative:
            import dask.array as da
            arr = da.from_array(vals, chunks=max(1, n // 2))
        else:
            layout = "contiguous"
            arr = vals
        self.ctx.count("column_class:%s:%s" % (layout, dt))
        return arr, np.asarray(vals, dtype=float), layout

    def add_main(self, rec, log=True, adopt=None):
        if adopt is None and rec.mains and self.rng.random() < 0.08:
            return self.add_str_main(rec, log)
        arr, vals, _layout = self.fresh_values(rec)
        if adopt is not None:
            cid = rec.data.add_component(arr, adopt.cid)
            adopt.owner, adopt.kind, adopt.values = rec.idx, "main", vals
            rec.mains.append(adopt)
            a = adopt
        else:
            name = "m%d" % len([x for x in self.attrs if x.owner == rec.idx and x.kind == "main"])
            cid = rec.data.add_component(arr, name)
            a = self.new_attr(cid, rec.idx, "main", "D%d.%s" % (rec.idx, name), vals)
            rec.mains.append(a)
        if log:
            self.log.append(["addcomp", a.name, "adopted" if adopt is not None else "fresh"])
        return a

    def add_str_main(self, rec, log=True):
        """a categorical (string) column: can only be an endpoint of identity links with other string columns"""
        n = int(np.prod(rec.shape))
        k = next(self.kcount)
        vals = np.array(["s%d_%d" % (k, i % 3) for i in range(n)]).reshape(rec.shape)
        name = "m%d" % len([x for x in self.attrs if x.owner == rec.idx and x.kind == "main"])
        cid = rec.data.add_component(vals, name)
        a = self.new_attr(cid, rec.idx, "main", "D%d.%s" % (rec.idx, name), vals)
        a.is_str = True
        rec.mains.append(a)
        self.ctx.count("column_class:string")
        if log:
            self.log.append(["addcomp", a.name, "string"])
        return a

    def add_derived(self, rec, log=True):
        """dataset-internal link: a derived column, for one input with probability 0.6 created WITH an inverse
        (ComponentLink([x], t, using=f, inverse=g)); the collection must then also use g: t -> x"""
        alive = [a for a in rec.mains if a.alive and not a.is_str]
        if not alive:
            return None
        ins = self.rng.sample(alive, min(len(alive), self.rng.choice([1, 1, 2])))
        k = next(self.kcount)
        fn = make_fn(k, len(ins), self.scale)
        inv = make_shift(k, self.scale) if (len(ins) == 1 and self.rng.random() < 0.6) else None
        name = "der%d" % len(rec.derived)
        cid = ComponentID(name, parent=rec.data)
        if inv is not None:
            rec.data.add_component_link(ComponentLink([ins[0].cid], cid, using=fn, inverse=inv))
        else:
            rec.data.add_component_link(ComponentLink([a.cid for a in ins], cid, using=fn))
        a = self.new_attr(cid, rec.idx, "derived", "D%d.%s" % (rec.idx, name), fn(*[x.values for x in ins]))
        a.invertible = inv is not None
        rec.derived.append(a)
        rec.derived_triples[a] = (ins, fn, inv)
        if log:
            self.log.append(["addderived", a.name, [x.name for x in ins], k, "with_inverse" if inv else "no_inverse"])
        return a

    def fn(self, nin, plain=False):
        """(function, k, variant) - mostly plain; sometimes k = 0, ravelled output, scalar output, raising"""
        r = self.rng.random()
        k = next(self.kcount)
        variant = "plain"
        if not plain:
            if r < 0.05:
                k = 0
            elif r < 0.11:
                variant = "ravel"
            elif r < 0.125:
                variant = "const"
                self.has_scalar_fn = True
            elif r < 0.165:
                variant = "boom"
        return make_fn(k, nin, self.scale, variant), k, variant

    # ------------------------------------------------------------ oracle
    def triples_for(self, internal_inverses=True):
        out = []
        for (_obj, _kind, trs) in self.live:
            out.extend(trs)
        for r in self.ds:
            if not r.member:
                continue
            if r.coords is not None:
                _, a, b = r.coords
                out.append(([r.pixels[0].cid], r.worlds[0].cid, lambda p, a=a, b=b: a * p + b))
                out.append(([r.worlds[0].cid], r.pixels[0].cid, lambda w, a=a, b=b: (w - b) / a))
            for der, (ins, fn, inv) in r.derived_triples.items():
                if der.alive:
                    out.append(([x.cid for x in ins], der.cid, fn))
                    if inv is not None and internal_inverses:
                        out.append(([der.cid], ins[0].cid, inv))
        return out

    def depths_only(self, rec, triples):
        depth = {a.cid: 0 for a in rec.mains if a.alive}
        for a in rec.pixels + rec.worlds:
            depth[a.cid] = 0
        changed = True
        while changed:
            changed = False
            for frm, to, fn in triples:
                if to not in depth and all(f in depth for f in frm):
                    depth[to] = 1
                    changed = True
        return depth

    def closure(self, rec, triples, derived_as_base):
        base = {}
        for a in rec.mains:
            if a.alive:
                base[a.cid] = a.values
        for a in rec.pixels + rec.worlds:
            base[a.cid] = a.values
        if derived_as_base:
            for a in rec.derived:
                if a.alive:
                    base[a.cid] = a.values
        depth = {c: 0 for c in base}
        changed = True
        while changed:
            changed = False
            for frm, to, fn in triples:
                if all(f in depth for f in frm):
                    c = 1 + max(depth[f] for f in frm)
                    if to not in depth or c < depth[to]:
                        depth[to] = c
                        changed = True
        cands = {c: [v] for c, v in base.items()}
        exploded = set()
        for cid in sorted((c for c in depth if depth[c] > 0), key=lambda c: depth[c]):
            out = []
            for frm, to, fn in triples:
                if to is cid and all(f in depth for f in frm) and 1 + max(depth[f] for f in frm) == depth[cid]:
                    if any(f in exploded for f in frm):
                        exploded.add(cid)
                        continue
                    for combo in itertools.product(*[cands[f] for f in frm]):
                        v = apply_fn(fn, combo, rec.shape)
                        if not any(same_cand(v, o) for o in out):
                            out.append(v)
                        if len(out) > MAX_CANDS:
                            exploded.add(cid)
                            break
            cands[cid] = out
        return depth, cands, exploded

    def expected(self, rec, triples):
        depth, cands, exploded = self.closure(rec, triples, False)
        if any(a.alive for a in rec.derived):
            d2, c2, e2 = self.closure(rec, triples, True)
            for c, lst in c2.items():
                for v in lst:
                    if not any(same_cand(v, o) for o in cands.get(c, [])):
                        cands.setdefault(c, []).append(v)
            exploded |= e2
        return depth, cands, exploded

    # ------------------------------------------------------------ operations on the real collection + model
    def linkable(self):
        """attributes that may be link endpoints: alive attributes of members and of never-appended datasets,
        floating ids"""
        out = []
        for a in self.attrs:
            if not a.alive:
                continue
            if a.owner is None:
                out.append(a)
            else:
                r = self.ds[a.owner]
                if r.member or not r.removed:
                    out.append(a)
        return out

    def pick(self, n, same_owner_bias=0.0, kinds=None, strings="no"):
        pool = self.linkable()
        rng = self.rng
        # prefer main attributes, sometimes coordinates / derived / floating
        weights = {"main": 6, "pixel": 2, "world": 2, "derived": 2, "floating": 2}
        pool = [a for a in pool if kinds is None or a.kind in kinds]
        if strings == "only":
            pool = [a for a in pool if a.is_str]
        elif strings == "no":
            pool = [a for a in pool if not a.is_str]
        if len(pool) < n:
            return None
        chosen = []
        for _ in range(n):
            cand = [a for a in pool if a not in chosen]
            if chosen and rng.random() < same_owner_bias:
                same = [a for a in cand if a.owner == chosen[0].owner and a.owner is not None]
                cand = same or cand
            w = [weights[a.kind] for a in cand]
            chosen.append(rng.choices(cand, weights=w)[0])
        return chosen

    def make_link(self, kind, given=None):
        """Returns (glue object, kind, triples, log entry) or None.  `given`: explicit endpoint attributes."""
        rng = self.rng
        if kind == "add1":
            p = given or self.pick(2)
            if not p:
                return None
            a, b = p
            if a.kind == "floating":
                return None
            f, k, variant = self.fn(1)
            return ComponentLink([a.cid], b.cid, using=f), kind, [([a.cid], b.cid, f)], ["add1", a.name, b.name, k, variant]
        if kind == "add1inv":
            p = given or self.pick(2)
            if not p:
                return None
            a, b = p
            k = next(self.kcount)
            f, g = make_fn(k, 1, self.scale), make_shift(k, self.scale)
            return (ComponentLink([a.cid], b.cid, using=f, inverse=g), kind,
                    [([a.cid], b.cid, f), ([b.cid], a.cid, g)], ["add1inv", a.name, b.name, k])
        if kind == "addsame":
            p = given or (self.pick(2, strings="only") if self.rng.random() < 0.25 else None) or self.pick(2)
            if not p:
                return None
            a, b = p
            return LinkSame(a.cid, b.cid), kind, [([a.cid], b.cid, ident), ([b.cid], a.cid, ident)], ["addsame", a.name, b.name]
        if kind == "add2way":
            p = given or self.pick(2)
            if not p or p[0].owner is None or p[1].owner is None:
                return None
            a, b = p
            k = next(self.kcount)
            f, g = make_fn(k, 1, self.scale), make_shift(k, self.scale)
            return (LinkTwoWay(a.cid, b.cid, f, g), kind, [([a.cid], b.cid, f), ([b.cid], a.cid, g)],
                    ["add2way", a.name, b.name, k])
        if kind == "addmulti":
            nin = rng.choice([2, 2, 3]) if given is None else len(given) - 1
            p = given or self.pick(nin + 1, same_owner_bias=0.7)
            if not p:
                return None
            ins, t = p[:nin], p[nin]
            f, k, variant = self.fn(nin)
            return (ComponentLink([a.cid for a in ins], t.cid, using=f), kind, [([a.cid for a in ins], t.cid, f)],
                    ["addmulti", [a.name for a in ins], t.name, k, variant])
        if kind == "addmultilink":
            p = self.pick(4, same_owner_bias=0.8)
            if not p or any(a.owner is None for a in p):
                return None
            a, b, c, d = p
            k1, k2, k3, k4 = (next(self.kcount) for _ in range(4))
            f1, f2, g1, g2 = (make_fn(kk, 2, self.scale) for kk in (k1, k2, k3, k4))

            def fw(x, y):
                return f1(x, y), f2(x, y)

            def bw(x, y):
                return g1(x, y), g2(x, y)
            both = rng.random() < 0.5
            trs = [([a.cid, b.cid], c.cid, f1), ([a.cid, b.cid], d.cid, f2)]
            if both:
                trs += [([c.cid, d.cid], a.cid, g1), ([c.cid, d.cid], b.cid, g2)]
            obj = MultiLink([a.cid, b.cid], [c.cid, d.cid], forwards=fw, backwards=bw if both else None,
                            labels2=["p", "q"], data1=self.ds[a.owner].data, data2=self.ds[c.owner].data)
            return obj, kind, trs, ["addmultilink", [a.name, b.name], [c.name, d.name], [k1, k2, k3, k4], both]
        if kind == "addtoderived":
            ders = [a for a in self.linkable() if a.kind == "derived" and a.invertible]
            if not ders:
                return None
            t = rng.choice(ders)
            others = [a for a in self.linkable() if a.owner is not None and a.owner != t.owner and a.kind in ("main", "pixel", "world") and not a.is_str]
            if not others:
                return None
            y = rng.choice(others)
            sub = rng.choice(["add1", "add1", "addsame", "add2way", "add1inv"])
            made = self.make_link(sub, given=[y, t])
            if made is None:
                return None
            return made[0], made[1], made[2], ["addtoderived"] + made[3]
        if kind == "addaligned":
            pairs = [(r, s) for r in self.ds for s in self.ds if r.idx < s.idx and r.shape == s.shape and
                     (r.member or not r.removed) and (s.member or not s.removed)]
            if not pairs:
                return None
            r, s = rng.choice(pairs)
            trs = []
            for pa, pb in zip(r.pixels, s.pixels):
                trs += [([pa.cid], pb.cid, ident), ([pb.cid], pa.cid, ident)]
            return LinkAligned(r.data, s.data), kind, trs, ["addaligned", "D%d" % r.idx, "D%d" % s.idx]
        raise ValueError(kind)

    LINK_KINDS = ["add1", "add1", "add1", "add1inv", "addsame", "addsame", "add2way", "addmulti", "addmulti",
                  "addmultilink", "addaligned", "addtoderived", "addtoderived"]

    def entry_linkable(self, e):
        for frm, to, _fn in e[2]:
            for c in list(frm) + [to]:
                a = self.by_cid.get(c)
                if a is None or not a.alive:
                    return False
                if a.owner is not None:
                    r = self.ds[a.owner]
                    if not (r.member or not r.removed):
                        return False
        return True

    def install_listeners(self):
        """re-entrancy: (i) in a third of the histories a listener that READS tables and values from inside every message
        delivery (results ignored - intermediate states are not specified, but reading must not disturb anything);
        (ii) a listener that registers a pending link from inside ExternallyDerivableComponentsChangedMessage"""
        w = self

        class Reader(HubListener):
            def on_any(self, msg):
                w.ctx.count("reentrant_reads_during_broadcast")
                for r in w.ds:
                    if r.member:
                        try:
                            _ = r.data.externally_derivable_components
                            for a in w.attrs[:5]:
                                try:
                                    _ = r.data[a.cid]
                                except Exception:  # noqa
                                    pass
                        except Exception:  # noqa
                            pass

            def on_tables_changed(self, msg):
                if w.pending_handler_link is not None:
                    e = w.pending_handler_link
                    w.pending_handler_link = None
                    w.dc.add_link(e[0])
                    w.live.append(e)
                    w.ctx.count("links_added_from_inside_a_handler")
        self.reader = Reader()
        self.dc.hub.subscribe(self.reader, ExternallyDerivableComponentsChangedMessage, handler=self.reader.on_tables_changed)
        if self.rng.random() < 0.35:
            self.dc.hub.subscribe(self.reader, Message, handler=self.reader.on_any)
            self.ctx.count("histories_with_reentrant_reader")

    def drop_links_mentioning(self, dead_cids):
        dead = set(dead_cids)
        keep = []
        for entry in self.live:
            if any((to in dead) or any(f in dead for f in frm) for frm, to, _ in entry[2]):
                continue
            keep.append(entry)
        self.live = keep

    def op(self, kind, in_block):
        """Performs one primitive operation on the real objects and the model.  Returns False if not applicable."""
        rng, dc = self.rng, self.dc
        self.current_op = kind
        if kind in self.LINK_KINDS:
            made = self.make_link(kind)
            if made is None:
                return False
            obj, k, trs, logent = made
            dc.add_link(obj)
            self.live.append((obj, k, trs))
            self.log.append(logent)
            return True
        if kind == "addlist":
            made = [self.make_link(rng.choice(["add1", "addsame", "add1inv", "addmulti"])) for _ in range(2)]
            made = [m for m in made if m is not None]
            if not made:
                return False
            dc.add_link([m[0] for m in made])
            for obj, k, trs, logent in made:
                self.live.append((obj, k, trs))
            self.log.append(["addlist", [m[3] for m in made]])
            return True
        if kind == "readdlink":
            # do - remove - re-add: the SAME link object is registered again after it had been removed
            okl = [e for e in self.removed_links if self.entry_linkable(e) and not any(e[0] is x[0] for x in self.live)]
            if not okl:
                return False
            e = rng.choice(okl)
            dc.add_link(e[0])
            self.live.append(e)
            self.removed_links = [x for x in self.removed_links if x is not e]
            self.log.append(["readdlink", e[1]])
            return True
        if kind == "duplink":
            # equal but distinct: a second ComponentLink object with the same endpoints and the same function object
            cands = [e for e in self.live if e[1] in ("add1", "addmulti") and len(e[2]) == 1]
            if not cands:
                return False
            frm, to, fn = rng.choice(cands)[2][0]
            obj = ComponentLink(list(frm), to, using=fn)
            dc.add_link(obj)
            self.live.append((obj, "duplink", [(list(frm), to, fn)]))
            self.log.append(["duplink", [self.by_cid[c].name for c in frm], self.by_cid[to].name])
            return True
        if kind == "replacelink":
            # atomic replacement (set_links) of one link by another with the SAME endpoints but another function
            idx = [i for i, e in enumerate(self.live) if e[1] in ("add1", "duplink") and len(e[2][0][0]) == 1]
            if not idx:
                return False
            i = rng.choice(idx)
            frm, to, _old = self.live[i][2][0]
            f, k, variant = self.fn(1, plain=True)
            obj = ComponentLink(list(frm), to, using=f)
            entries = list(self.live)
            self.removed_links.append(entries[i])
            entries[i] = (obj, "add1", [(list(frm), to, f)])
            dc.set_links([e[0] for e in entries])
            self.live = entries
            self.log.append(["replacelink", i, k])
            return True
        if kind == "emptylists":
            dc.add_link([])
            dc.remove_link([])
            self.log.append(["emptylists"])
            return True
        if kind == "setlinks_empty":
            if not self.live:
                return False
            dc.set_links([])
            self.removed_links.extend(self.live)
            self.live = []
            self.log.append(["setlinks_empty"])
            return True
        if kind == "noop_twice":
            # the same operation a second time / on something that is not there: must change nothing
            members = [r for r in self.ds if r.member]
            what = rng.choice(["append_member_again", "remove_non_member", "remove_dead_component_again"])
            if what == "append_member_again" and members:
                dc.append(rng.choice(members).data)
            elif what == "remove_non_member":
                dc.remove(Data(label="stranger", q=[1.0, 2.0]))
            else:
                dead = [(r, a) for r in members for a in r.mains + r.derived if not a.alive]
                if not dead:
                    return False
                r, a = rng.choice(dead)
                r.data.remove_component(a.cid)
            self.log.append(["noop_twice", what])
            return True
        if kind == "reorder":
            members = [r for r in self.ds if r.member]
            if not members:
                return False
            r = rng.choice(members)
            comps = list(r.data.components)
            rng.shuffle(comps)
            r.data.reorder_components(comps)
            self.log.append(["reorder", "D%d" % r.idx])
            return True
        if kind in ("fault_remove_unregistered", "fault_add_none"):
            # a call that raises; whatever it leaves behind must not matter for what follows
            try:
                if kind == "fault_add_none":
                    dc.add_link(None)
                else:
                    made = self.make_link("add1")
                    if made is None:
                        return False
                    dc.remove_link(made[0])
                self.ctx.count("fault_call_did_not_raise:" + kind)
            except BoundExceeded:
                raise
            except Exception as exc:  # noqa
                self.ctx.count("fault_call_raised:%s:%s" % (kind, type(exc).__name__))
            self.log.append([kind])
            return True
        if kind == "addlink_from_handler":
            # re-entrancy: while the collection tells its listeners that a dataset's derivable attributes changed (i.e. in
            # the middle of LinkManager.update_externally_derivable_components), a handler registers another link
            a_, b_ = self.make_link("add1"), self.make_link(rng.choice(["add1", "addsame", "add1inv"]))
            if a_ is None or b_ is None:
                return False
            self.pending_handler_link = (b_[0], b_[1], b_[2])
            dc.add_link(a_[0])
            self.live.append((a_[0], a_[1], a_[2]))
            if self.pending_handler_link is not None:        # no table changed (or messages are delayed): add it normally
                e = self.pending_handler_link
                self.pending_handler_link = None
                dc.add_link(e[0])
                self.live.append(e)
                self.ctx.count("handler_link_added_outside_handler")
            self.log.append(["addlink_from_handler", a_[3], b_[3]])
            return True
        if kind == "setlinks":
            keep = [e for e in self.live if rng.random() < 0.6]
            new = self.make_link(rng.choice(["add1", "addsame", "add2way"])) if rng.random() < 0.6 else None
            entries = list(keep)
            logent = ["setlinks", [self.live.index(e) for e in keep]]
            if new is not None:
                entries.append((new[0], new[1], new[2]))
                logent.append(new[3])
            rng.shuffle(entries)
            dc.set_links([e[0] for e in entries])
            self.removed_links.extend(e for e in self.live if not any(e is k_ for k_ in keep))
            self.live = entries
            self.log.append(logent)
            return True
        if kind == "rmlink":
            if not self.live:
                return False
            if len(self.live) >= 2 and rng.random() < 0.25:
                es = rng.sample(self.live, 2)
                dc.remove_link([e[0] for e in es])
            else:
                es = [rng.choice(self.live)]
                dc.remove_link(es[0][0])
            self.log.append(["rmlink", [self.live.index(e) for e in es]])
            self.live = [e for e in self.live if not any(e is x for x in es)]
            self.removed_links.extend(es)
            return True
        if kind == "rmcomp":
            cands = [(r, a) for r in self.ds if r.member for a in r.mains if a.alive and
                     sum(1 for x in r.mains if x.alive) >= 2]
            cands += [(r, a) for r in self.ds if r.member for a in r.derived if a.alive]
            if not cands:
                return False
            r, a = rng.choice(cands)
            dead = [a]
            grow = True
            while grow:
                grow = False
                for der, (ins, fn, _inv) in r.derived_triples.items():
                    if der.alive and der not in dead and any(x in dead for x in ins):
                        dead.append(der)
                        grow = True
            r.data.remove_component(a.cid)
            for x in dead:
                x.alive = False
            self.drop_links_mentioning([x.cid for x in dead])
            self.log.append(["rmcomp", a.name])
            return True
        if kind == "addcomp":
            recs = [r for r in self.ds if r.member or not r.removed]
            r = rng.choice(recs)
            floating = [a for a in self.attrs if a.kind == "floating" and a.alive]
            adopt = rng.choice(floating) if floating and rng.random() < 0.6 else None
            self.add_main(r, adopt=adopt)
            return True
        if kind == "addderived":
            recs = [r for r in self.ds if r.member and any(a.alive and not a.is_str for a in r.mains) and len(r.derived) < 2]
            if not recs:
                return False
            self.add_derived(rng.choice(recs))
            return True
        if kind == "newfloat":
            if sum(1 for a in self.attrs if a.kind == "floating") >= 2:
                return False
            name = "float%d" % next(self.kcount)
            self.new_attr(ComponentID(name), None, "floating", name)
            self.log.append(["newfloat", name])
            return True
        if kind == "rmdata":
            ms = [r for r in self.ds if r.member]
            if len(ms) < 2:
                return False
            r = rng.choice(ms)
            dc.remove(r.data)
            r.member, r.removed = False, True
            self.drop_links_mentioning([a.cid for a in r.own_attrs()])
            self.log.append(["rmdata", "D%d" % r.idx])
            return True
        if kind == "append":
            out = [r for r in self.ds if not r.member]
            if not out or in_block == "hub":
                return False
            if len(out) >= 2 and rng.random() < 0.3:
                rs = rng.sample(out, 2)
                if rng.random() < 0.5:
                    dc.extend([r.data for r in rs])
                else:
                    dc.append([r.data for r in rs])
            else:
                rs = [rng.choice(out)]
                dc.append(rs[0].data)
            for r in rs:
                r.member = True
                self.log.append(["append", "D%d" % r.idx, "re-append" if r.removed else "first"])
                r.removed = False
            return True
        raise ValueError(kind)

    PRIMS = (LINK_KINDS + LINK_KINDS + ["addlist", "setlinks", "rmlink", "rmlink", "rmlink", "rmcomp", "rmcomp", "addcomp",
                                       "addderived", "newfloat", "rmdata", "rmdata", "append", "append", "append",
                                       "readdlink", "readdlink", "duplink", "replacelink", "replacelink", "emptylists",
                                       "setlinks_empty", "noop_twice", "reorder", "fault_remove_unregistered", "fault_add_none",
                                       "addlink_from_handler", "addlink_from_handler"])

    def step(self):
        """One top-level step (a primitive, or a block of primitives).  Returns the step's op label or None."""
        rng = self.rng
        r = rng.random()
        if r < 0.12:
            block = "linkdelay"
        elif r < 0.2:
            block = "hub"
        else:
            block = None
        if block is None:
            for _ in range(8):
                kind = rng.choice(self.PRIMS)
                if self.op(kind, None):
                    return kind
            return None
        done = []
        self.current_block = block
        self.log.append(["enter", block])
        cm = self.dc.delay_link_manager_update() if block == "linkdelay" else self.dc.hub.delay_callbacks()
        with cm:
            for _ in range(rng.randint(2, 4)):
                for _ in range(6):
                    kind = rng.choice(self.PRIMS)
                    if self.op(kind, block):
                        done.append(kind)
                        break
        self.log.append(["exit", block])
        self.current_block = None
        if not done:
            return None
        return "%s[%s]" % (block, "remove" if any(k.startswith("rm") for k in done) else
                           ("append" if "append" in done else "add"))


# ---------------------------------------------------------------- observation
def rand_view(rng, shape):
    """a view from the supported domain (DESIGN C04: non-negative integers, positive steps), including out-of-order and
    duplicate index arrays; negative indices / backward slices are outside that domain (pixel attributes are computed from
    the index values themselves, so a -1 would read as pixel -1) and are not generated"""
    kind = rng.choice(["slice", "int", "index_arrays", "bool"])
    if kind == "slice":
        return tuple(slice(rng.randrange(0, n), None, rng.choice([None, 2])) for n in shape)
    if kind == "int":
        v = [rng.randrange(n) for n in shape]
        if len(shape) > 1:
            v[rng.randrange(len(shape))] = slice(None)
        return tuple(v)
    if kind == "index_arrays":
        k = rng.randint(1, 5)
        return tuple(np.array([rng.randrange(n) for _ in range(k)]) for n in shape)
    return np.array([rng.random() < 0.5 for _ in range(int(np.prod(shape)))]).reshape(shape)


def attr_has_cycle(triples):
    """(has 2-cycle or longer, has cycle longer than 2) on the attribute graph input -> output."""
    adj = {}
    for frm, to, _ in triples:
        for f in frm:
            adj.setdefault(f, set()).add(to)
    two = any(a in adj.get(b, ()) for a in adj for b in adj[a])
    # longer cycle: a path a -> b -> ... -> a of length >= 3
    longer = False
    for start in adj:
        stack = [(start, 0, {start})]
        while stack and not longer:
            node, dist, seen = stack.pop()
            for nxt in adj.get(node, ()):
                if nxt is start and dist + 1 >= 3:
                    longer = True
                    break
                if nxt not in seen and dist < 5:
                    stack.append((nxt, dist + 1, seen | {nxt}))
        if longer:
            break
    return two, longer


def depth_bucket(d):
    return None if d is None else (d if d < 3 else "3+")


def observe(w, op_label, hist_hash):
    """Quiescent-point check.  Returns False when the history must be abandoned."""
    ctx = w.ctx
    triples = w.triples_for()
    triples_no_internal_inverse = None
    if any(r.member and any(d.alive and d.invertible for d in r.derived) for r in w.ds):
        triples_no_internal_inverse = w.triples_for(internal_inverses=False)
    ext_triples = [t for e in w.live for t in e[2]]
    dead_cids = {a.cid: a for a in w.attrs if not a.alive}
    gone_ds_cids = {}
    for r in w.ds:
        if r.removed and not r.member:
            for a in r.own_attrs():
                gone_ds_cids[a.cid] = a
    op_class = op_label.split("[")[0] if op_label else "none"
    scale_class = "unit" if w.scale == 1.0 else ("tiny" if w.scale < 1 else "large")
    base_sig = {"last_op": op_label, "scale": scale_class, "history_has_scalar_returning_link": w.has_scalar_fn}
    # absolute floor 1e-12: chains mix O(1) pixel / world values with scale-sized ones, so results of size ~scale carry the
    # rounding error of O(1) intermediates (coordinate inversion differs from the oracle's (w-b)/a in the last bit)
    atol = max(1e-9 * w.scale, 1e-12)
    hist = lambda **kw: dict({"history": w.log}, **kw)
    ok = True

    # (6) the registered link objects
    try:
        ext = list(w.dc.external_links)
    except Exception as exc:  # noqa
        ctx.violation(dict(base_sig, kind="exception_reading_external_links", exception=type(exc).__name__), hist())
        return False
    model_ids = sorted(id(e[0]) for e in w.live)
    real_ids = sorted(id(x) for x in ext)
    ctx.count("external_links_comparisons")
    if model_ids != real_ids:
        extra = [x for x in ext if id(x) not in set(model_ids)]
        missing = [e for e in w.live if id(e[0]) not in set(real_ids)]
        sub = "duplicate_or_count"
        if extra:
            sub = "unexpected_link_still_registered"
            for x in extra:
                if any(c in x for c in dead_cids):
                    sub = "registered_link_mentions_removed_component"
                elif any(c in x for c in gone_ds_cids):
                    sub = "registered_link_mentions_removed_dataset"
        elif missing:
            sub = "registered_link_missing"
        ctx.violation(dict(base_sig, kind="external_links_mismatch", sub=sub),
                      hist(real=[str(x) for x in ext], model=[e[1] for e in w.live]))
        ok = False
    # (5) no reference to removed objects in the collection's link list
    try:
        for l in w.dc.links:
            bad = [a.name for c, a in list(dead_cids.items()) + list(gone_ds_cids.items()) if c in l]
            if bad:
                ctx.violation(dict(base_sig, kind="stale_reference", where="DataCollection.links",
                                   what="removed_component" if any(c in l for c in dead_cids) else "removed_dataset"),
                              hist(link=str(l), mentions=bad))
                ok = False
                break
        ctx.count("stale_reference_scans")
    except Exception as exc:  # noqa
        ctx.violation(dict(base_sig, kind="exception_reading_links", exception=type(exc).__name__), hist())
        return False

    two, longer = attr_has_cycle(ext_triples)
    if two:
        ctx.count("checks_with_link_cycle")
    if longer:
        ctx.count("checks_with_link_cycle_longer_than_2")

    for rec in w.ds:
        if not rec.member:
            ctx.count("non_member_dataset_not_observed")
            continue
        d = rec.data
        depth, cands, exploded = w.expected(rec, triples)
        no_inv = w.depths_only(rec, triples_no_internal_inverse) if triples_no_internal_inverse is not None else None
        ctx.count("quiescent_dataset_checks")
        # (4) the derivable-attribute table
        try:
            table = list(d.externally_derivable_components)
        except Exception as exc:  # noqa
            ctx.violation(dict(base_sig, kind="exception_reading_derivable_table", exception=type(exc).__name__), hist())
            return False
        own = {a.cid for a in rec.mains + rec.derived + rec.pixels + rec.worlds}
        t_foreign = {c for c in table if c not in own}
        e_foreign = {c for c in depth if depth[c] > 0 and c not in own}
        stale = [c for c in table if c in dead_cids or c in gone_ds_cids]
        if stale:
            ctx.violation(dict(base_sig, kind="stale_reference", where="externally_derivable_components",
                               what="removed_component" if any(c in dead_cids for c in stale) else "removed_dataset"),
                          hist(dataset=d.label, stale=[(dead_cids.get(c) or gone_ds_cids.get(c)).name for c in stale]))
            ok = False
        elif t_foreign != e_foreign:
            ctx.violation(dict(base_sig, kind="derivable_table_mismatch",
                               sub="missing" if e_foreign - t_foreign else "extra"),
                          hist(dataset=d.label, missing=[w.by_cid[c].name for c in e_foreign - t_foreign],
                               extra=[w.by_cid[c].name if c in w.by_cid else str(c) for c in t_foreign - e_foreign]))
            ok = False
        ctx.count("derivable_table_comparisons")

        probes_reach, probes_unreach = [], []
        for a in w.attrs:
            cid = a.cid
            exp_reach = cid in depth
            dep = depth.get(cid)
            foreign = a.owner != rec.idx
            key = (rec.idx, a.name)
            was = key in w.ever
            if exp_reach and foreign:
                w.ever.add(key)
            nontrivial = (foreign and exp_reach and dep >= 1) or (foreign and not exp_reach and was)
            ctx.evaluation([hist_hash, w.nsteps, rec.idx, a.name], nontrivial)
            try:
                got = np.asarray(d[cid])
                if got.dtype.kind not in "US":
                    got = got.astype(float)
                can = True
            except IncompatibleAttribute:
                can = False
            except LinkBoom:
                got = BOOM
                can = True
            except BoundExceeded:
                raise
            except Exception as exc:  # noqa
                ctx.violation(dict(base_sig, kind="exception_on_read", exception=type(exc).__name__, attr_kind=a.kind,
                                   expected_reachable=exp_reach), hist(dataset=d.label, attr=a.name, error=repr(exc)[:300]))
                ok = False
                continue
            cls = "own" if not foreign else ("reachable_depth_%s" % depth_bucket(dep) if exp_reach else
                                             ("unreachable_was_reachable" if was else "unreachable"))
            if not a.alive:
                cls = "removed_component"
            elif a.owner is not None and foreign and w.ds[a.owner].removed and not w.ds[a.owner].member:
                cls = "attr_of_removed_dataset"
            ctx.count("read:" + cls)
            via_internal_inverse = bool(foreign and exp_reach and no_inv is not None and cid not in no_inv)
            if via_internal_inverse:
                ctx.count("read:reachable_only_through_inverted_internal_link")
            if foreign and exp_reach:
                ctx.count("read_foreign_reachable_after:" + op_class)
            if can != exp_reach:
                ctx.violation(dict(base_sig, kind="reachability",
                                   observed="readable_but_no_chain" if can else "unreadable_but_chain_exists",
                                   attr_kind=a.kind, attr_class=cls, expected_depth=depth_bucket(dep),
                                   only_through_inverted_internal_link=via_internal_inverse),
                              hist(dataset=d.label, attr=a.name, live_links=[e[1] for e in w.live]))
                ok = False
                continue
            if not can:
                if foreign and len(probes_unreach) < 1 and w.rng.random() < 0.3:
                    probes_unreach.append(a)
                continue
            if cid in exploded:
                ctx.count("value_not_compared_candidate_explosion")
                continue
            cl = cands[cid]

            def matches(c):
                if got is BOOM or c is BOOM:
                    return got is c
                if got.shape != rec.shape:
                    return False
                if got.dtype.kind in "US" or c.dtype.kind in "US":
                    return got.dtype.kind in "US" and c.dtype.kind in "US" and bool(np.array_equal(got.astype(str), c.astype(str)))
                return bool(np.allclose(got, c, rtol=RTOL, atol=atol, equal_nan=True))
            if not any(matches(c) for c in cl):
                ctx.violation(dict(base_sig, kind="value", attr_kind=a.kind, attr_class=cls, expected_depth=depth_bucket(dep),
                                   candidates="one" if len(cl) == 1 else "several",
                                   observed="link_function_error" if got is BOOM else "values",
                                   expected_link_function_error=any(c is BOOM for c in cl),
                                   shape_ok=got is BOOM or got.shape == rec.shape),
                              hist(dataset=d.label, attr=a.name, observed=got, candidates=[c for c in cl[:6]]))
                ok = False
                continue
            ctx.count("value_comparisons")
            if got is BOOM:
                ctx.count("read_failing_link_function_surfaced")
                continue
            if got.dtype.kind in "US":
                ctx.count("value_comparisons_string_through_identity_link")
                continue
            if len(cl) > 1:
                ctx.count("value_comparisons_with_several_min_depth_derivations")
            numeric = [c for c in cl if c is not BOOM]
            if len(numeric) == len(cl) and foreign and w.rng.random() < 0.15:
                # the same attribute read through a view (also backward / negative / duplicate indices)
                view = rand_view(w.rng, rec.shape)
                try:
                    gv = np.asarray(d[cid, view], dtype=float)
                    okv = any(gv.shape == np.shape(c[view]) and np.allclose(gv, c[view], rtol=RTOL, atol=atol) for c in numeric)
                    res = "values"
                except Exception as exc:  # noqa
                    okv, res = False, "exception:" + type(exc).__name__
                ctx.count("view_reads_of_linked_attribute")
                if not okv:
                    ctx.violation(dict(base_sig, kind="value_through_view", sub=res, attr_kind=a.kind,
                                       expected_depth=depth_bucket(dep)),
                                  hist(dataset=d.label, attr=a.name, view=repr(view), observed=gv if res == "values" else res,
                                       full=got, expected=[np.asarray(c[view]) for c in numeric[:4]]))
                    ok = False
            if len(numeric) == len(cl) and foreign and len(probes_reach) < 2 and w.rng.random() < 0.4:
                probes_reach.append((a, cl))
        # (3) selection probes
        for a, cl in probes_reach:
            allv = np.unique(np.concatenate([np.asarray(c, dtype=float).ravel() for c in cl]))
            thr = None
            if len(allv) >= 2:
                gaps = np.diff(allv)
                idx = [i for i in range(len(gaps)) if gaps[i] > 1e-6 * max(abs(allv[i]), abs(allv[i + 1]), 1e-300)]
                if idx:
                    i = w.rng.choice(idx)
                    thr = float((allv[i] + allv[i + 1]) / 2)
            if thr is None:
                thr = float(allv[0]) - 1.0
            route = w.rng.choice(["get_mask", "get_mask", "range_state", "subset_group"])
            hi = float(allv[-1]) + abs(float(allv[-1])) * 0.5 + 1.0
            grp = None
            try:
                if route == "get_mask":
                    m = np.asarray(d.get_mask(a.cid > thr))
                elif route == "range_state":
                    m = np.asarray(d.get_mask(RangeSubsetState(thr, hi, att=a.cid)))
                else:
                    grp = w.dc.new_subset_group(label="probe", subset_state=a.cid > thr)
                    sub = [x for x in grp.subsets if x.data is d][0]
                    m = np.asarray(sub.to_mask())
                res = "mask"
            except IncompatibleAttribute:
                res = "incompatible"
            except Exception as exc:  # noqa
                res = "exception:" + type(exc).__name__
            finally:
                if grp is not None:
                    w.dc.remove_subset_group(grp)
            ctx.count("selection_probes_reachable")
            ctx.count("selection_probe_route:" + route)
            if res != "mask" or m.dtype != bool or m.shape != rec.shape or not any(np.array_equal(m, c > thr) for c in cl):
                ctx.violation(dict(base_sig, kind="selection", sub="mask_mismatch" if res == "mask" else res, route=route,
                                   attr_kind=a.kind), hist(dataset=d.label, attr=a.name, threshold=thr,
                                                           observed=m if res == "mask" else res))
                ok = False
        for a in probes_unreach:
            try:
                m = d.get_mask(a.cid > 0.0)
                res = "mask"
            except IncompatibleAttribute:
                res = "incompatible"
            except Exception as exc:  # noqa
                res = "exception:" + type(exc).__name__
            ctx.count("selection_probes_unreachable")
            if res != "incompatible":
                ctx.violation(dict(base_sig, kind="selection", sub="not_reported_incompatible:" + res, attr_kind=a.kind),
                              hist(dataset=d.label, attr=a.name))
                ok = False
    return ok


# ---------------------------------------------------------------- driver interface
N_BLOCKS = {"quick": 256, "thorough": 6000}
PER_BLOCK = 4


# enumerated link graphs on three datasets x one attribute: every ordered sequence of <= L links out of 15 choices
ENUM_CHOICES = ([("add1", (i, j)) for i in range(3) for j in range(3) if i != j] +
                [("addsame", (i, j)) for i in range(3) for j in range(i + 1, 3)] +
                [("add1inv", (i, j)) for i in range(3) for j in range(i + 1, 3)] +
                [("addmulti", (i, j, k)) for (i, j, k) in [(0, 1, 2), (1, 2, 0), (2, 0, 1)]])
ENUM_LEN = {"quick": 2, "thorough": 3}
EXHAUSTIVE = {"quick": False, "thorough": False}


def cases(tier, seed):
    for c in range(len(ENUM_CHOICES)):
        yield ["enum", c]
    for i in range(N_BLOCKS[tier]):
        yield ["hist", i]


def run_enum_history(ctx, seq, removal):
    """add the links of `seq` one by one, then remove them (removal: 'fifo' | 'lifo'), observing after every step"""
    w = World(ctx, ctx.rng, ctx.tier)
    _Mon.limit = 2000
    try:
        w.build_fixed()
        hist_hash = stable_hash(["enum", seq, removal], 12)
        ctx.count("enumerated_histories")
        steps = [("add", c) for c in seq] + [("rm", None)] * len(seq)
        for n, (what, c) in enumerate(steps):
            w.nsteps = n + 1
            try:
                if what == "add":
                    kind, ends = ENUM_CHOICES[c]
                    made = w.make_link(kind, given=[w.ds[e].mains[0] for e in ends])
                    w.dc.add_link(made[0])
                    w.live.append(made[:3])
                    w.log.append(made[3])
                    label = kind
                else:
                    e = w.live[0] if removal == "fifo" else w.live[-1]
                    w.dc.remove_link(e[0])
                    w.live = [x for x in w.live if x is not e]
                    w.log.append(["rmlink", removal])
                    label = "rmlink"
                good = observe(w, label, hist_hash)
            except BoundExceeded:
                ctx.violation({"kind": "discover_links_no_fixpoint", "where": "enumerated"}, {"history": w.log})
                good = False
            except Exception as exc:  # noqa
                ctx.violation({"kind": "exception_in_operation", "op": what, "in_block": None,
                               "exception": type(exc).__name__}, {"history": w.log, "error": repr(exc)[:400]})
                good = False
            if not good:
                ctx.count("histories_abandoned_after_violation")
                return
    finally:
        _Mon.limit = 0


def run_history(ctx):
    rng = ctx.rng
    w = World(ctx, rng, ctx.tier)
    _Mon.limit = 2000
    try:
        w.build()
    except BoundExceeded:
        ctx.violation({"kind": "discover_links_no_fixpoint", "where": "building_collection"}, {"history": w.log})
        ctx.count("histories_abandoned_after_violation")
        _Mon.limit = 0
        return
    nsteps = rng.randint(3, 10) if ctx.tier == "quick" else rng.randint(5, 40 if rng.random() < 0.2 else 14)
    ctx.count("histories")
    ctx.count("history_scale:" + ("unit" if w.scale == 1.0 else ("tiny" if w.scale < 1 else "large")))
    hist_seed = rng.random()
    hist_hash = stable_hash([ctx.case, hist_seed], 12)
    nattr = lambda: len(w.attrs) + 2
    _Mon.limit = nattr() ** 2 + 10
    try:
        if not observe(w, "init", hist_hash):
            ctx.count("histories_abandoned_after_violation")
            return
        for s in range(nsteps):
            _Mon.limit = (nattr() + 4) ** 2 + 10
            w.nsteps = s + 1
            try:
                label = w.step()
            except BoundExceeded:
                ctx.violation({"kind": "discover_links_no_fixpoint", "where": "operation"}, {"history": w.log})
                ctx.count("histories_abandoned_after_violation")
                return
            except Exception as exc:  # noqa
                ctx.violation({"kind": "exception_in_operation", "op": w.current_op, "in_block": w.current_block,
                               "exception": type(exc).__name__}, {"history": w.log, "error": repr(exc)[:400]})
                ctx.count("histories_abandoned_after_violation")
                return
            if label is None:
                ctx.count("steps_not_applicable")
                continue
            ctx.count("steps")
            ctx.count("step:" + label)
            try:
                good = observe(w, label, hist_hash)
            except BoundExceeded:
                ctx.violation({"kind": "discover_links_no_fixpoint", "where": "read"}, {"history": w.log})
                good = False
            if not good:
                ctx.count("histories_abandoned_after_violation")
                return
        if ctx.rng.random() < 0.01:
            ctx.sample({"history": w.log, "live_links": [e[1] for e in w.live]})
    finally:
        _Mon.limit = 0


def run_case(ctx, case):
    if not _Mon.installed:
        setup(ctx)
    if case[0] == "enum":
        L = ENUM_LEN[ctx.tier]
        for length in range(1, L + 1):
            for tail in itertools.product(range(len(ENUM_CHOICES)), repeat=length - 1):
                seq = [case[1]] + list(tail)
                run_enum_history(ctx, seq, "fifo" if (sum(seq) + length) % 2 else "lifo")
        ctx.count("enumerated_blocks")
        return
    for _ in range(PER_BLOCK):
        run_history(ctx)


def floors(counters, tier):
    out = []
    need = [("read:reachable_depth_2", 1200), ("read:reachable_depth_3+", 400), ("read:reachable_depth_1", 3000),
            ("read:unreachable_was_reachable", 800), ("read:removed_component", 1200), ("read:attr_of_removed_dataset", 2000),
            ("checks_with_link_cycle", 1000), ("checks_with_link_cycle_longer_than_2", 200),
            ("step:rmlink", 70), ("step:rmcomp", 50), ("step:rmdata", 50), ("step:append", 50), ("step:setlinks", 30),
            ("step:addsame", 120), ("step:add1inv", 60), ("step:add2way", 60), ("step:addmulti", 120),
            ("step:addmultilink", 60), ("step:addaligned", 35), ("step:addcomp", 30), ("step:addlist", 30),
            ("value_comparisons", 25000), ("selection_probes_reachable", 2000), ("selection_probes_unreachable", 4000),
            ("value_comparisons_with_several_min_depth_derivations", 500),
            ("external_links_comparisons", 1500), ("derivable_table_comparisons", 4000)]
    # adversarial widening round
    need += [("step:readdlink", 15), ("step:duplink", 15), ("step:replacelink", 25), ("step:emptylists", 25),
             ("step:setlinks_empty", 20), ("step:noop_twice", 20), ("step:reorder", 30), ("step:fault_add_none", 30),
             ("step:fault_remove_unregistered", 30), ("step:addlink_from_handler", 50),
             ("links_added_from_inside_a_handler", 30), ("histories_with_reentrant_reader", 100),
             ("reentrant_reads_during_broadcast", 1200), ("read_failing_link_function_surfaced", 50),
             ("value_comparisons_string_through_identity_link", 400), ("view_reads_of_linked_attribute", 800),
             ("selection_probe_route:range_state", 500), ("selection_probe_route:subset_group", 500),
             ("column_class:string", 80), ("history_scale:tiny", 25), ("history_scale:large", 50)]
    for lay in ("strided", "reversed", "fortran", "readonly", "broadcast", "dask"):
        if sum(v for k, v in counters.items() if k.startswith("column_class:%s:" % lay)) < 120:
            out.append("fewer than 120 columns with memory layout / container %s" % lay)
    for dt in ("float32", "int64", "int16", ">f8", "uint8"):
        if sum(v for k, v in counters.items() if k.startswith("column_class:") and k.endswith(":" + dt)) < 100:
            out.append("fewer than 100 columns stored as %s" % dt)
    for k, n in need:
        if counters.get(k, 0) < n:
            out.append("fewer than %d %s" % (n, k))
    blocks = sum(v for k, v in counters.items() if k.startswith("step:linkdelay["))
    hub = sum(v for k, v in counters.items() if k.startswith("step:hub["))
    if counters.get("enumerated_histories", 0) < (60 if tier == "quick" else 900):
        out.append("too few enumerated link graphs on three datasets")
    if blocks < 150:
        out.append("fewer than 150 delay_link_manager_update blocks")
    if hub < 100:
        out.append("fewer than 100 hub.delay_callbacks blocks")
    return out
