"""C19 - exported data files load back to the same table or image.

Shape: round trip through the file system.  A generated table (1-d) or image
(2-3-d) - or a subset of it with a harness-chosen mask - is written with a
registered exporter (`glue.config.data_exporter`), read back with
`load_data(path)` (factory found by glue itself) and compared, component by
component, with the raw numpy columns the harness built the dataset from
(masked by the harness's own mask).  A third workload saves a collection of
loaded files *by reference* (`GlueSerializer(include_data=False)`), restores it
and compares values and a subset mask.

All files live in a per-case temporary directory under $VERIF_WORK that is
removed when the case ends.
"""
import os
import shutil
import tempfile

import numpy as np

from glue.config import data_exporter
from glue.core import Data, DataCollection
from glue.core.data_exporters import astropy_table as _e1, gridded_fits as _e2, hdf5 as _e3  # noqa: F401 (registration)
from glue.core.component import CategoricalComponent
from glue.core.data_factories import load_data
from glue.core.subset import ElementSubsetState, MaskSubsetState

from vf.common import exc_name

ID = "C19"
LEVEL = "exploration"
BUDGET_S = {"quick": 20.0, "thorough": 140.0}
RULE = ("a table case = one generated 1-d dataset (1-8 rows, 1-5 columns drawn from float64 with NaN/inf/extreme "
        "magnitudes, float32, int64/32/16, uint8, non-numeric strings of several classes (plain, inner space, comma, "
        "quote, NA-like words, empty entries, edge spaces, non-ASCII), a derived column; names from a format-neutral "
        "pool in non-alphabetical order) x {dataset, full, proper, single-row, empty subset} x {CSV, FITS table, VO "
        "table, HDF5}, optionally a components= selection; an image case = 2-3-d dataset (float64/32, int64/32/16, "
        "uint8) x subset kinds x {gridded FITS, HDF5}; a session case = files loaded, saved by reference, restored. "
        "A trip is non-trivial when at least one value is exported; distinct = distinct (content, format, subset) "
        "fingerprints.")
ASSUMPTIONS = ["the raw numpy columns and the boolean mask held by the harness are the exported content "
               "(subset.to_mask() is checked against the harness mask first; disagreement is tallied, not judged here)",
               "names are compared exactly, except gridded FITS where the HDU name is upper-cased by the format",
               "float64 exact (NaN == NaN), float32 after casting the loaded values to float32, integers by value "
               "(a change of integer width / to float with equal values is tallied only), strings after decoding bytes "
               "as ASCII; FITS pads strings so trailing blanks are not significant there; non-ASCII text is only "
               "required to survive where the format's encoding can hold it (otherwise tallied)",
               "how a format represents masked-out image pixels is the exporter's convention (NaN; FITS BLANK -> NaN; HDF5 "
               "integers 0): selected pixels are compared by value, unselected ones must show one of these conventions "
               "(which one is tallied)",
               "a write refused loudly because the text is not representable in the format's encoding (non-ASCII in FITS) is "
               "outside the statement and tallied; any other failing write is a violation"]
ANCHORS = ["glue.core.data_exporters.astropy_table:data_to_astropy_table", "glue.core.data_exporters.hdf5:hdf5_writer",
           "glue.core.data_exporters.gridded_fits:fits_writer", "glue.core.data_factories.helpers:load_data",
           "glue.core.data_factories.helpers:find_factory", "glue.core.data_factories.astropy_table:astropy_tabular_data",
           "glue.core.data_factories.hdf5:hdf5_reader", "glue.core.data_factories.fits:fits_reader",
           "glue.core.data_factories.tables:tabular_data", "glue.core.data_factories.pandas:panda_process"]

N_TABLE = {"quick": 820, "thorough": 12000}
N_IMAGE = {"quick": 560, "thorough": 8000}
N_SESSION = {"quick": 144, "thorough": 900}
N_CHAIN = {"quick": 128, "thorough": 1600}
N_BIG = {"quick": 8, "thorough": 32}

TABLE_FORMATS = {"csv": ("Comma-separated table", ["csv"]), "fits_table": ("FITS Table", ["fits", "fit"]),
                 "votable": ("VO Table", ["xml", "vot"]), "hdf5": ("HDF5", ["hdf5"])}
IMAGE_FORMATS = {"gridded_fits": ("FITS (1 component/HDU)", ["fits", "fit"]), "hdf5": ("HDF5", ["hdf5"])}
NAMES = ["zeta", "Amp", "name_1", "b2", "flux", "K", "idx", "mag", "q7", "x", "Dist", "y_err"]
SUBSET_KINDS = ["data", "full", "proper", "single", "empty", "first", "last"]
# names at the edge of what every format accepts (one class per table at most; tallied as name_class_*)
EDGE_NAMES = {"digit_first": ["2mass", "3C"], "underscore_first": ["_x", "__id"], "long_60": ["L" + "o" * 58 + "g"],
              "single_char": ["a", "Z"], "all_upper": ["FLUX", "RA"], "numeric_looking": ["123", "1e5", "nan"],
              "reserved_looking": ["mask", "data", "name", "unit", "END", "NAXIS", "index", "None", "class"],
              "shared_prefix": ["flux", "flux_err", "flux_err2", "fl"]}

_EXPORTERS = {}


def exporter(label):
    if not _EXPORTERS:
        for e in data_exporter.members:
            _EXPORTERS[e.label] = e.function
    return _EXPORTERS[label]


# ---------------------------------------------------------------- content generators
F64_POOL = [1.5, -2.25, 0.0, -0.0, 2.0, -7.0, 1e-300, 1e300, 0.1 + 0.2, 1.0 / 3.0, 123456789.12345679, 5e-324,
            1.000000001, 1.0, 1e12 + 0.5, 1e-10, -1e12, 2.0 ** 53,
            float("nan"), float("nan"), float("inf"), float("-inf")]
STR_CLASSES = {
    "plain": ["ab", "xyz", "q", "Hello", "north", "B"],
    "inner_space": ["c d", "ab", "two words here", "x y"],
    "comma": ["a,b", "ab", "x,", ",lead", "p,q,r"],
    "quote": ['say "hi"', "it's", "ab", '"', "a'b\"c"],
    "na_like": ["NA", "nan", "null", "None", "ab", "N/A", "xyz"],
    "has_empty": ["", "ab", "xyz", ""],
    "edge_space": [" lead", "trail ", "ab", " both "],
    "non_ascii": ["café", "ab", "über", "xyz"],
    "shared_prefix": ["a", "ab", "abc", "abcdefghijklmnopqrstuvwxyz", "ab "[:2]],     # labels sharing prefixes, very different widths
    "all_same": ["north"],
    "object": ["ab", "xyz", "Hello", "q"],                                       # stored as an object array
}
# "has_empty" ('' is indistinguishable from a missing entry in CSV and comes back as 'nan') and "edge_space"
# (leading / trailing blanks are stripped by the ascii formats) are at the edge of "clearly non-numeric text ...
# preserved up to the format's encoding": they are kept out of the generated domain rather than judged.
# object-dtype text and dask-backed columns are at the edge of "float, integer and clearly non-numeric string columns"
# (the exporters refuse them loudly); they are kept out of the generated domain rather than judged.
STR_WEIGHTS = ["shared_prefix"] * 2 + ["all_same"] + ["plain"] * 6 + ["inner_space"] * 3 + ["comma"] * 2 + ["quote"] * 2 + ["na_like"] * 2 + ["non_ascii"]


BE_KINDS = {"f64be": ("f64", ">f8"), "f32be": ("f32", ">f4"), "i32be": ("i32", ">i4"), "i16be": ("i16", ">i2")}


def gen_column(rng, kind, shape, image=False):
    if kind in BE_KINDS:
        # non-native byte order, as carried by anything loaded from a FITS file
        base, dt = BE_KINDS[kind]
        return gen_column(rng, base, shape, image).astype(dt)
    n = int(np.prod(shape))
    if kind == "f64":
        vals = [rng.choice(F64_POOL) if rng.random() < 0.5 else round(rng.uniform(-100, 100), rng.choice([0, 2, 6]))
                for _ in range(n)]
        return np.array(vals, dtype=np.float64).reshape(shape)
    if kind == "f32":
        vals = [rng.choice([0.1, 1.0 / 3.0, 2.5, -1e-20, 3e38, float("nan")]) if rng.random() < 0.5
                else rng.uniform(-10, 10) for _ in range(n)]
        return np.array(vals, dtype=np.float32).reshape(shape)
    if kind == "i64":
        # (2**53 + 1 only in tables: a masked gridded-FITS integer image is read back through float64 by astropy's
        # BLANK handling, which cannot hold it; magnitudes like that do not occur in images)
        big = [2 ** 40 + 3, -2 ** 33, 0] + ([] if image else [2 ** 53 + 1])
        vals = [rng.choice(big) if rng.random() < 0.15 else rng.randint(-9, 9) for _ in range(n)]
        return np.array(vals, dtype=np.int64).reshape(shape)
    if kind == "i32":
        vals = [rng.choice([2 ** 31 - 1, -2 ** 31 + 1]) if rng.random() < 0.1 else rng.randint(-500, 500) for _ in range(n)]
        return np.array(vals, dtype=np.int32).reshape(shape)
    if kind == "i16":
        return np.array([rng.randint(-300, 300) for _ in range(n)], dtype=np.int16).reshape(shape)
    if kind == "i8":
        return np.array([rng.choice([-128, 127, 0, 5]) for _ in range(n)], dtype=np.int8).reshape(shape)
    if kind == "u16":
        return np.array([rng.choice([0, 65535, 300, 7]) for _ in range(n)], dtype=np.uint16).reshape(shape)
    if kind == "u32":
        return np.array([rng.choice([0, 2 ** 32 - 1, 2 ** 31, 7]) for _ in range(n)], dtype=np.uint32).reshape(shape)
    if kind == "f64:allnan":
        return np.full(shape, np.nan)
    if kind == "i64:zeros":
        return np.zeros(shape, dtype=np.int64)
    if kind == "f64:integral":
        return np.array([float(rng.randint(-5, 5)) for _ in range(n)]).reshape(shape)
    if kind == "u8":
        return np.array([rng.randint(0, 255) for _ in range(n)], dtype=np.uint8).reshape(shape)
    if kind.startswith("str:"):
        pool = STR_CLASSES[kind[4:]]
        vals = [rng.choice(pool) for _ in range(n)]
        special = [p_ for p_ in pool if p_ not in STR_CLASSES["plain"]]
        if special and not any(v in special for v in vals):
            vals[rng.randrange(n)] = rng.choice(special)      # the class is actually present in the column
        return np.array(vals, dtype=object if kind == "str:object" else str).reshape(shape)
    raise ValueError(kind)


def kind_family(kind):
    if kind.startswith("str:"):
        return "str"
    if kind in ("f64:allnan", "f64:integral", "dask"):
        return "float"
    if kind in ("i8", "i64:zeros"):
        return "int"
    if kind in ("u16", "u32"):
        return "uint"
    return {"f64": "float", "f32": "float", "i64": "int", "i32": "int", "i16": "int", "u8": "uint", "derived": "float",
            "f64be": "float", "f32be": "float", "i32be": "int", "i16be": "int"}[kind]


def relayout(rng, arr, image=False):
    """The same values in another memory layout (what a sliced / transposed / Fortran-read array looks like)."""
    kinds = ["c", "c", "strided", "reversed"] + (["fortran", "transposed_copy"] if image else [])
    kind = rng.choice(kinds)
    if arr.dtype.kind == "O":
        return arr, "c"
    if kind == "fortran":
        return np.asfortranarray(arr), kind
    if kind == "strided":
        big = np.zeros((arr.shape[0] * 2,) + arr.shape[1:], dtype=arr.dtype)
        big[::2] = arr
        return big[::2], kind
    if kind == "reversed":
        return arr[::-1].copy()[::-1], kind
    if kind == "transposed_copy":
        return arr.T.copy().T, kind
    return arr, "c"


def pick_kind(rng, used_str, table=True):
    r = rng.random()
    if r < 0.07:
        return rng.choice(sorted(BE_KINDS))
    if r < 0.25:
        return "f64"
    if r < 0.31:
        return rng.choice(["f64:allnan", "f64:integral"])
    if r < 0.38:
        return "f32"
    if r < 0.50:
        return "i64"
    if r < 0.53:
        return "i64:zeros"
    if r < 0.62:
        return rng.choice(["i32", "i16", "i8"])
    if r < 0.68:
        return rng.choice(["u8", "u8", "u16", "u32"]) if table else "u8"
    if not table:
        return "f64"
    if not used_str:
        return "str:" + rng.choice(STR_WEIGHTS)
    return "str:plain"


def gen_table(rng, ctx=None, index=None):
    """`index` (the case number) fixes the rare essential classes so that any prefix of the case list covers them."""
    n = rng.choice([1, 2, 3, 3, 4, 5, 6, 8, 8, 120, 300])
    ncol = rng.randint(1, 5)
    many = rng.random() < 0.04 if index is None else index % 25 == 7
    if index is not None and index % 10 == 3:
        n = rng.choice([120, 300])
    if many:
        ncol, n = rng.choice([40, 120, 250]), rng.choice([1, 3])
        names = ["c%03d_%s" % (k, rng.choice(["x", "Y", "z2"])) for k in range(ncol + 1)]
        rng.shuffle(names)
    else:
        names = rng.sample(NAMES, ncol + 1)
        if (rng.random() < 0.25) if index is None else (index % 2 == 0):
            cls = rng.choice(sorted(EDGE_NAMES)) if index is None else sorted(EDGE_NAMES)[(index // 2) % len(EDGE_NAMES)]
            edge = list(EDGE_NAMES[cls])
            rng.shuffle(edge)
            for k, nm in enumerate(edge[:rng.randint(1, min(len(edge), ncol))]):
                names[k] = nm
            spare = [x for x in NAMES if x.lower() not in [y.lower() for y in names]]
            for k in range(len(names)):          # names stay distinct (also ignoring case: FITS)
                if names[k].lower() in [y.lower() for y in names[:k]]:
                    names[k] = spare.pop()
            rng.shuffle(names)
            if ctx is not None:
                ctx.count("name_class_%s" % cls)
    if ctx is not None:
        if many:
            ctx.count("tables_with_40_or_more_columns")
        if n >= 100:
            ctx.count("tables_with_100_or_more_rows")
    cols = []
    used_str = False
    for j in range(ncol):
        kind = pick_kind(rng, used_str) if not many else rng.choice(["f64", "i64", "str:plain", "f32"])
        used_str = used_str or kind.startswith("str:")
        cols.append([names[j], kind, gen_column(rng, kind, (n,))])
    if n >= 100:
        # enough rows to leave small-array code paths, with duplicates
        for c in cols:
            if c[1] in ("f64", "i64") and rng.random() < 0.5:
                c[2][n // 2:] = c[2][: n - n // 2]
    if ncol >= 2 and rng.random() < 0.1 and cols[0][1] == "f64":
        cols[1][1], cols[1][2] = cols[0][1], cols[0][2]       # the same array object stored under two names
        if ctx is not None:
            ctx.count("tables_with_one_array_under_two_names")
    d = Data(label="tab")
    for name, kind, vals in cols:
        arr, lay = relayout(rng, vals)
        if ctx is not None:
            ctx.count("column_layout_%s" % lay)
        d.add_component(arr, name)
    floats = [c for c in cols if c[1] == "f64"]
    if floats and rng.random() < 0.3:
        src = floats[0]
        d.add_component_link(d.id[src[0]] * 2 + 1, names[ncol])
        cols.append([names[ncol], "derived", src[2] * 2 + 1])
    if False and not many and rng.random() < 0.06:   # dask-backed columns: out of the stated domain, see STR_WEIGHTS note
        import dask.array as da
        from glue.core.component import DaskComponent
        vals = np.array([round(rng.uniform(-5, 5), 3) for _ in range(n)])
        d.add_component(DaskComponent(da.from_array(vals, chunks=2)), "dk_col")
        cols.insert(len([c for c in cols if c[1] != "derived"]), ["dk_col", "dask", vals])
    if len(cols) >= 3 and (rng.random() < 0.15 if index is None else index % 6 == 1):
        # components reordered after creation: the exported order is the dataset's current order
        main = [c for c in cols if c[1] != "derived"]
        rng.shuffle(main)
        try:
            want = [d.id[c[0]] for c in main] + [d.id[c[0]] for c in cols if c[1] == "derived"]
            coord = [c for c in d.components if not any(c is w_ for w_ in want)]
            d.reorder_components(coord + want)
            cols = main + [c for c in cols if c[1] == "derived"]
            if ctx is not None:
                ctx.count("tables_with_reordered_components")
        except Exception as e:
            if ctx is not None:
                ctx.count("harness_reorder_components_failed_%s" % exc_name(e))
    return d, cols, (n,)


def gen_image(rng, ctx=None):
    nd = rng.choice([2, 2, 3])
    shape = tuple(rng.randint(1, 4) for _ in range(nd))
    if rng.random() < 0.05:
        shape = (rng.randint(60, 150), rng.randint(60, 150))
    ncol = rng.randint(1, 3)
    names = rng.sample(NAMES, ncol)
    cols = []
    for j in range(ncol):
        kind = pick_kind(rng, True, table=False)
        cols.append([names[j], kind, gen_column(rng, kind, shape, image=True)])
    kw = {}
    ckind = rng.choice(["none", "none", "identity", "affine", "wcs"])
    if ckind == "identity":
        from glue.core.coordinates import IdentityCoordinates
        kw["coords"] = IdentityCoordinates(n_dim=nd)
    elif ckind == "affine":
        from glue.core.coordinates import AffineCoordinates
        m = np.eye(nd + 1)
        m[0, 0], m[0, nd] = 2.0, 1.0
        kw["coords"] = AffineCoordinates(m)
    elif ckind == "wcs":
        from astropy.wcs import WCS
        wcs = WCS(naxis=nd)
        wcs.wcs.ctype = ["X%d" % k for k in range(nd)]
        wcs.wcs.cdelt = [0.5 + k for k in range(nd)]
        wcs.wcs.crval = [10.0] * nd
        wcs.wcs.crpix = [1.0] * nd
        kw["coords"] = wcs
    if ctx is not None:
        ctx.count("images_with_coords_%s" % ckind)
    d = Data(label="img", **kw)
    for name, kind, vals in cols:
        if kind == "f64" and rng.random() < 0.1:
            row = gen_column(rng, "f64", shape[-1:], image=True)
            vals = np.broadcast_to(row, shape)                      # stride-0, read-only
            cols[[c[0] for c in cols].index(name)][2] = vals
            arr, lay = vals, "broadcast"
        else:
            arr, lay = relayout(rng, vals, image=True)
        if ctx is not None:
            ctx.count("image_layout_%s" % lay)
        d.add_component(arr, name)
    return d, cols, shape


def gen_mask(rng, shape, kind):
    n = int(np.prod(shape))
    m = np.zeros(n, dtype=bool)
    if kind in ("data", "full"):
        m[:] = True
    elif kind == "single":
        m[rng.randrange(n)] = True
    elif kind == "proper":
        if n < 2:
            return None
        k = rng.randint(1, n - 1)
        m[rng.sample(range(n), k)] = True
    elif kind == "empty":
        pass
    elif kind == "first":
        m[0] = True
    elif kind == "last":
        m[-1] = True
    return m.reshape(shape)


def make_subset(dc, d, mask, table, rng=None, ctx=None):
    how = "plain"
    if table:
        idx = np.nonzero(mask)[0]
        if rng is not None and len(idx) and rng.random() < 0.3:
            # the same selection written with out-of-order and duplicate indices
            idx = list(idx) + [int(rng.choice(list(idx))) for _ in range(rng.randint(1, 3))]
            rng.shuffle(idx)
            idx = np.array(idx)
            how = "unordered_duplicate_indices"
        elif rng is not None and len(idx) and rng.random() < 0.2 and np.array_equal(idx, np.arange(idx[0], idx[-1] + 1)):
            from glue.core.subset import SliceSubsetState
            lo, hi = int(idx[0]), int(idx[-1])
            state = SliceSubsetState(d, [slice(hi, lo - 1 if lo > 0 else None, -1)])      # a backward slice, same rows
            how = "backward_slice"
        if how != "backward_slice":
            state = ElementSubsetState(indices=idx, data=d)
    else:
        state = MaskSubsetState(mask, d.pixel_component_ids)
    if ctx is not None:
        ctx.count("subset_defined_by_%s" % how)
    dc.new_subset_group(subset_state=state, label="sel")
    return d.subsets[-1]


# ---------------------------------------------------------------- comparisons
def text(v):
    if isinstance(v, bytes):
        return v.decode("ascii", errors="replace")
    return str(v)


def comp_values(data, cid):
    comp = data.get_component(cid)
    if isinstance(comp, CategoricalComponent):
        return "str", np.asarray(comp.labels)
    arr = np.asarray(comp.data)
    if arr.dtype.kind in "SUO":
        return "str", arr
    return "num", arr


NA_WORDS = ("", "na", "nan", "null", "none", "n/a")


def clearly_text(values):
    """At least one exported entry is an ordinary word (the statement speaks of clearly non-numeric text columns)."""
    for v in values:
        t = text(v).strip()
        if t.lower() not in NA_WORDS and any(ch.isalpha() for ch in t):
            return True
    return False


def compare_column(kind, orig, got_kind, got, fmt):
    """Returns (ok, note): dtype-appropriate equality of one exported column."""
    fam = kind_family(kind)
    if orig.shape != got.shape:
        return False, "shape"
    if orig.size == 0:
        return True, "zero_rows"
    if fam == "str":
        if not clearly_text(orig.ravel()):
            return True, "exported_text_not_clearly_non_numeric_skipped"
        if got_kind != "str":
            return False, "text_became_numeric"
        a = [text(v) for v in orig.ravel()]
        b = [text(v) for v in got.ravel()]
        if a == b:
            return True, None
        if fmt in ("fits_table",) and [s.rstrip(" ") for s in a] == [s.rstrip(" ") for s in b]:
            return True, "fits_trailing_blanks"
        if fmt == "votable" and [s.strip(" ") for s in a] == [s.strip(" ") for s in b]:
            return True, "votable_edge_blanks"     # blanks at the ends of a TABLEDATA cell are not significant
        if fmt == "hdf5" and kind == "str:non_ascii" and [s.encode("ascii", "replace").decode() for s in a] == b:
            return True, "hdf5_ascii_replacement"
        return False, "text"
    if got_kind != "num":
        return False, "numeric_became_text"
    try:
        g = got.astype(float) if got.dtype.kind not in "iu" else got
    except Exception:
        return False, "not_numeric"
    if fam == "float":
        o = orig
        if orig.dtype.kind == "f" and orig.dtype.itemsize == 4:
            with np.errstate(all="ignore"):
                g = np.asarray(got).astype(np.float32)
        if orig.dtype.kind == "f" and orig.dtype.itemsize == 4:
            with np.errstate(all="ignore"):
                o = np.asarray(orig).astype(np.float32)
        ok = bool(np.array_equal(np.asarray(o, dtype=float), np.asarray(g, dtype=float), equal_nan=True))
        return ok, None if ok else "float_value"
    # integers: by exact value
    if got.dtype.kind in "iu":
        ok = bool(np.array_equal(orig.astype(object), got.astype(object)))
        return ok, (None if got.dtype == orig.dtype else "integer_width_changed") if ok else "int_value"
    if got.dtype.kind == "f":
        if np.all(np.isfinite(got)) and bool(np.array_equal(orig.astype(object), np.array([int(v) for v in got.ravel()],
                                                                                  dtype=object).reshape(got.shape))):
            return True, "integer_loaded_as_float"
        return False, "int_value"
    return False, "int_dtype"


def name_class_of(names):
    """Which class of edge names (if any) a table's exported columns carry - a structural key for signatures."""
    if len(names) > 30:
        return "many_columns"
    for cls in sorted(EDGE_NAMES):
        if cls != "shared_prefix" and any(n in EDGE_NAMES[cls] for n in names):
            return cls
    return None


def as_list(back):
    if back is None:
        return []
    return list(back) if isinstance(back, (list, tuple)) else [back]


class Scratch(object):
    def __init__(self):
        root = os.environ.get("VERIF_WORK") or os.path.join(os.path.dirname(os.path.dirname(os.path.dirname(
            os.path.abspath(__file__)))), ".work")
        os.makedirs(root, exist_ok=True)
        self.dir = tempfile.mkdtemp(prefix="c19-%d-" % os.getpid(), dir=root)

    def path(self, stem, ext):
        return os.path.join(self.dir, "%s.%s" % (stem, ext))

    def close(self):
        shutil.rmtree(self.dir, ignore_errors=True)


def describe_cols(cols):
    out = []
    for name, kind, vals in cols:
        v = vals.ravel().tolist()
        out.append([name, kind, str(vals.dtype), v if len(v) <= 16 else v[:16]])
    return out


# ---------------------------------------------------------------- one trip
def trip(ctx, scratch, fmt, spec, table, d, dc, cols, shape, skind, stem, chained=False, plain=False):
    """Export with one format, load back, compare.  Everything glue does is inside try blocks and classified."""
    rng = ctx.rng
    label, exts = spec
    mask = gen_mask(rng, shape, skind)
    if mask is None:
        ctx.count("skipped_no_proper_subset_of_one_element")
        return
    cell = "%s%s_%s_%s" % ("chained_" if chained else "", "table" if table else "image", fmt, skind)
    obj = d
    if skind != "data":
        try:
            obj = make_subset(dc, d, mask, table, rng, ctx)
            real_mask = np.asarray(obj.to_mask())
        except Exception as e:
            ctx.count("harness_subset_construction_failed_%s" % exc_name(e))
            return
        if real_mask.shape != mask.shape or not np.array_equal(real_mask, mask):
            ctx.count("subset_mask_differs_from_harness_mask_skipped")
            return
    selected = [c for c in cols]
    kw = {}
    if len(cols) > 1 and not plain and rng.random() < 0.2:
        keep = sorted(rng.sample(range(len(cols)), rng.randint(1, len(cols) - 1)))
        selected = [cols[i] for i in keep]
        kw["components"] = [d.id[c[0]] for c in selected]
        rng.shuffle(kw["components"])       # the order of the selection is not the exported order (the dataset's is)
        ctx.count("trips_with_components_selection")
    path = scratch.path(stem, rng.choice(exts))
    nrows = int(mask.sum())
    rows = "zero" if nrows == 0 else ("one" if nrows == 1 else "many")
    kinds = sorted(set(c[1] for c in selected))
    sig0 = {"format": fmt, "content": "table" if table else "image", "subset": skind, "rows": rows if table else None,
            "names": name_class_of([c[0] for c in selected])}
    if chained:
        sig0["source"] = "loaded_from_fits"
    detail = lambda **k: dict(columns=describe_cols(selected), shape=list(shape), mask=mask, format=fmt, subset=skind,
                              file=os.path.basename(path), components_selected="components" in kw, **k)
    # ---- histories around the write: the path already holds another export / a failed export; a failed load precedes
    r = 1.0 if plain else rng.random()
    if r < 0.12:
        decoy = Data(label="decoy")
        decoy.add_component(np.arange(int(np.prod(shape)) + 3, dtype=float).reshape((-1,) if table else (int(np.prod(shape)) + 3, 1)), "zz_decoy")
        try:
            exporter(label)(path, decoy)
            ctx.count("writes_over_an_existing_export")
        except Exception as e:
            ctx.count("decoy_write_failed_%s_%s" % (fmt, exc_name(e)))
    elif r < 0.20:
        bad = Data(label="bad")
        bad.add_component(np.arange(3.0), "ok_first")
        if fmt == "fits_table":
            bad.add_component(np.array(["é", "ü", "x"]), "text")
        else:
            bad.add_component(np.array(["2001-01-01", "2001-01-02", "2001-01-03"], dtype="datetime64[ns]"), "when")
        try:
            exporter(label)(path, bad)
            ctx.count("fault_write_unexpectedly_succeeded_%s" % fmt)
        except Exception as e:
            ctx.count("fault_failed_write_before_valid_write_%s" % fmt)
    elif r < 0.26:
        for bogus in (path + ".missing." + path.rsplit(".", 1)[1], None):
            try:
                if bogus is None:
                    bogus = scratch.path(stem + "_garbage", path.rsplit(".", 1)[1])
                    with open(bogus, "wb") as fh:
                        fh.write(b"\x00\x01 not a data file \xff" * 3)
                load_data(bogus)
                ctx.count("fault_load_of_bad_file_returned")
            except Exception as e:
                ctx.count("fault_failed_load_before_valid_load")
    # ---- write
    try:
        exporter(label)(path, obj, **kw)
    except Exception as e:
        non_ascii = "str:non_ascii" in kinds
        if non_ascii and isinstance(e, UnicodeError):
            # text the format's encoding cannot hold, refused loudly: outside the statement, tallied
            ctx.count("write_refused_non_ascii_%s_%s" % (fmt, exc_name(e)))
            return
        if fmt == "votable" and isinstance(e, TypeError) and "can not be represented in VOTable" in str(e):
            # VOTable has no int8 / uint16 / uint32 type and says so: the format cannot represent the column
            ctx.count("write_refused_dtype_not_in_votable")
            return
        ctx.evaluation([describe_cols(selected), fmt, skind, list(shape)], nrows > 0)
        ctx.count("trips_%s" % cell)
        ctx.violation(dict(sig0, kind="write_exception", exc=exc_name(e), has_uint="u8" in kinds, has_non_ascii=non_ascii,
                           has_dask="dask" in kinds, has_object_text="str:object" in kinds,
                           first_component_uint=selected[0][1] == "u8"), detail(error=repr(e)[:300]))
        return
    if not os.path.exists(path):
        ctx.violation(dict(sig0, kind="no_file_written"), detail())
        return
    # ---- what the format can carry
    expect = list(selected)
    if fmt == "gridded_fits":
        expect = [c for c in expect if kind_family(c[1]) != "str"]
    # ---- read
    try:
        back = as_list(load_data(path))
    except Exception as e:
        ctx.evaluation([describe_cols(selected), fmt, skind, list(shape)], nrows > 0)
        ctx.count("trips_%s" % cell)
        ctx.violation(dict(sig0, kind="read_exception", exc=exc_name(e), has_uint="u8" in kinds, only_uint=kinds == ["u8"], has_int8="i8" in kinds,
                           has_dask="dask" in kinds, has_object_text="str:object" in kinds,
                           has_text=any(k.startswith("str:") for k in kinds), single_column=len(selected) == 1),
                      detail(error=repr(e)[:300]))
        return
    ctx.evaluation([describe_cols(selected), fmt, skind, list(shape)], nrows > 0)
    ctx.count("trips_%s" % cell)
    ctx.count("trips_total")
    if not back and expect:
        ctx.violation(dict(sig0, kind="nothing_loaded"), detail())
        return
    # loaded components in loaded order
    loaded = []
    for b in back:
        for cid in b.main_components:
            loaded.append((cid.label, b, cid))
    lnames = [l[0] for l in loaded]
    enames = [c[0].upper() if fmt == "gridded_fits" else c[0] for c in expect]
    if fmt == "votable":
        # a VOTable field is addressed by an XML ID, which cannot start with a digit: astropy prefixes "_"
        fixed = ["_" + n if (n[:1].isdigit() and "_" + n in lnames and n not in lnames) else n for n in enames]
        if fixed != enames:
            ctx.count("accepted_votable_id_prefix_for_digit_first_name")
            enames = fixed
    ok_all = True
    missing = [n for n in enames if n not in lnames]
    extra = [n for n in lnames if n not in enames]
    byname = {}
    for l in loaded:
        byname.setdefault(l[0], l)
    for name, (cname, kind, vals) in zip(enames, expect):
        ctx.count("columns_compared_%s" % kind_family(kind))
        if name not in byname:
            ok_all = False
            ctx.violation(dict(sig0, kind="component_missing", col_kind=kind,
                               renamed=len(missing) == len(extra) and len(missing) > 0),
                          detail(expected_names=enames, loaded_names=lnames))
            continue
        _, b, cid = byname[name]
        try:
            gk, got = comp_values(b, cid)
        except Exception as e:
            ok_all = False
            ctx.violation(dict(sig0, kind="loaded_component_unreadable", col_kind=kind, exc=exc_name(e)), detail(error=repr(e)[:300]))
            continue
        if table:
            orig = vals[mask]
            ok, note = compare_column(kind, orig, gk, got, fmt)
            where = None
        else:
            # images: selected pixels must carry the values; the representation of the others is the format's convention
            if got.shape != vals.shape:
                ok, note, where = False, "shape", None
            else:
                ok, note = compare_column(kind, vals[mask], gk, got[mask], fmt)
                where = None
                if ok and (~mask).any() and gk == "num":
                    rest = got[~mask]
                    fam = kind_family(kind)
                    if rest.dtype.kind == "f" and np.all(np.isnan(rest)):
                        ctx.count("masked_pixels_as_nan_%s_%s" % (fmt, fam))
                    elif fmt == "hdf5" and fam in ("int", "uint") and np.all(rest == 0):
                        ctx.count("masked_pixels_as_zero_%s_%s" % (fmt, fam))      # the HDF5 exporter's integer convention
                    elif np.array_equal(rest.astype(float), vals[~mask].astype(float), equal_nan=True):
                        # the mask was not applied at all: the file shows unselected pixels as if selected
                        ok, note = False, "mask_not_applied"
                    else:
                        # neither of the conventions (NaN; BLANK -> NaN; HDF5 integer 0): unselected pixels carry values
                        ok, note = False, "masked_pixels_not_blank"
        if note and ok:
            ctx.count("accepted_%s_%s" % (note, fmt))
        if not ok:
            ok_all = False
            ctx.violation(dict(sig0, kind="value_mismatch", col_kind=kind, what=note),
                          detail(column=cname, expected=(vals[mask] if mask.shape == vals.shape else vals), loaded=got,
                                 loaded_dtype=str(got.dtype)))
    if extra and not missing:
        ok_all = False
        ctx.violation(dict(sig0, kind="unexpected_component"), detail(expected_names=enames, loaded_names=lnames))
    if not missing and not extra and lnames != enames:
        ok_all = False
        ctx.count("order_compared_differs")
        ctx.violation(dict(sig0, kind="component_order", loaded_sorted_by_name=lnames == sorted(lnames),
                           loaded_sorted_casefold=lnames == sorted(lnames, key=str.lower)),
                      detail(expected_names=enames, loaded_names=lnames))
    elif not missing and not extra:
        ctx.count("order_compared_same")
    if ok_all and rng.random() < 0.002:
        ctx.sample({"format": fmt, "subset": skind, "columns": describe_cols(selected), "loaded_names": lnames})


# ---------------------------------------------------------------- cases
def run_table(ctx, i):
    rng = ctx.rng
    scratch = Scratch()
    try:
        d, cols, shape = gen_table(rng, ctx, i)
        dc = DataCollection([d])
        for c in cols:
            ctx.count("generated_column_%s" % c[1])
        skinds = [SUBSET_KINDS[i % len(SUBSET_KINDS)], rng.choice(SUBSET_KINDS)]
        k = 0
        for skind in skinds:
            for fmt in sorted(TABLE_FORMATS):
                trip(ctx, scratch, fmt, TABLE_FORMATS[fmt], True, d, dc, cols, shape, skind, "t%d_%d" % (i, k))
                k += 1
    finally:
        scratch.close()


def run_image(ctx, i):
    rng = ctx.rng
    scratch = Scratch()
    try:
        d, cols, shape = gen_image(rng, ctx)
        dc = DataCollection([d])
        for c in cols:
            ctx.count("generated_image_component_%s" % c[1])
        skinds = [SUBSET_KINDS[i % len(SUBSET_KINDS)], rng.choice(SUBSET_KINDS)]
        k = 0
        for skind in skinds:
            for fmt in sorted(IMAGE_FORMATS):
                trip(ctx, scratch, fmt, IMAGE_FORMATS[fmt], False, d, dc, cols, shape, skind, "g%d_%d" % (i, k))
                k += 1
    finally:
        scratch.close()


SESSION_FORMATS = [("hdf5", False), ("csv", True), ("gridded_fits", False), ("fits_table", True), ("votable", True),
                   ("hdf5", True)]
SESSION_MODS = ["none", "none", "identity_coords", "affine_coords", "derived", "derived_and_coords"]


def snapshot(d):
    """What a dataset shows: main components, derived components, world values, coords class."""
    main = [(c.label,) + comp_values(d, c) for c in d.main_components]
    derived = [(c.label, np.asarray(d[c], dtype=float)) for c in d.derived_components]
    world = [np.asarray(d[c], dtype=float) for c in d.world_component_ids]
    return {"main": main, "derived": derived, "world": world, "coords": type(d.coords).__name__, "shape": tuple(d.shape)}


def same_values(gk, vals, gk2, vals2):
    if gk != gk2 or vals.shape != vals2.shape:
        return False
    if gk == "str":
        return [text(v) for v in vals.ravel()] == [text(v) for v in vals2.ravel()]
    return bool(np.array_equal(vals.astype(float), vals2.astype(float), equal_nan=True))


def run_session(ctx, i):
    """Files loaded with load_data (factories that leave coords=None and factories that set coords), optionally
    touched afterwards (coords assigned, derived component added), collection saved by reference, restored: same
    components, values, derived values, world values and subset mask.  Failing loudly at save time is allowed."""
    from glue.core.coordinates import AffineCoordinates, IdentityCoordinates
    from glue.core.state import GlueSerializer, GlueUnSerializer
    rng = ctx.rng
    scratch = Scratch()
    try:
        dc = DataCollection()
        origin = []       # (format, modification, dataset)
        nfiles = rng.randint(1, 3)
        for k in range(nfiles):
            fmt, table = SESSION_FORMATS[(i + k) % len(SESSION_FORMATS)] if k == 0 else rng.choice(SESSION_FORMATS)
            d, cols, shape = gen_table(rng) if table else gen_image(rng)
            # keep to content every format reads back (the other trips judge the rest)
            cols = [c for c in cols if c[1] in ("f64", "i64", "f64be", "i32be", "str:plain", "str:inner_space", "derived")]
            if fmt == "gridded_fits":
                cols = [c for c in cols if kind_family(c[1]) != "str"]
            if not cols:
                cols = [["flux", "f64", gen_column(rng, "f64", shape)]]
            src = Data(label="src%d" % k)
            for name, kind, vals in cols:
                src.add_component(vals, name)
            label, exts = (TABLE_FORMATS if table else IMAGE_FORMATS)[fmt]
            path = scratch.path("s%d_%d" % (i, k), exts[0])
            try:
                exporter(label)(path, src)
                back = as_list(load_data(path))
            except Exception as e:
                ctx.count("session_setup_failed_%s_%s" % (fmt, exc_name(e)))
                continue
            mod = SESSION_MODS[(i // len(SESSION_FORMATS) + i + k) % len(SESSION_MODS)] if k == 0 else rng.choice(SESSION_MODS)
            for b in back:
                dc.append(b)
                origin.append((fmt, mod, b))
        if len(dc) == 0:
            ctx.count("session_cases_without_files")
            return
        shape_hist = ["plain", "same_file_twice", "plain", "remove_readd", "remove_first_keep_rest"][(i // 3) % 5]
        try:
            if shape_hist == "same_file_twice":
                fmt0, mod0, d0 = origin[0]
                again = as_list(load_data(d0._load_log.path))
                for b in again:
                    dc.append(b)
                    origin.append((fmt0, "none", b))
            elif shape_hist == "remove_readd":
                fmt0, mod0, d0 = origin[0]
                dc.remove(d0)
                dc.append(d0)
                origin.append(origin.pop(0))
            elif shape_hist == "remove_first_keep_rest" and len(origin) > 1:
                dc.remove(origin[0][2])
                origin.pop(0)
            ctx.count("session_history_%s" % shape_hist)
        except Exception as e:
            ctx.count("session_history_failed_%s_%s" % (shape_hist, exc_name(e)))
            return
        # ---- touch the loaded datasets the way a user would before saving
        for fmt, mod, d in origin:
            had = d.coords is not None
            try:
                if mod in ("identity_coords",):
                    d.coords = IdentityCoordinates(n_dim=d.ndim)
                if mod in ("affine_coords", "derived_and_coords"):
                    m = np.eye(d.ndim + 1)
                    for a_ in range(d.ndim):
                        m[a_, a_] = rng.choice([2.0, 0.5, -1.5])
                        m[a_, d.ndim] = rng.choice([0.0, 1.0, -2.5])
                    d.coords = AffineCoordinates(m)
                if mod in ("derived", "derived_and_coords"):
                    num = [c for c in d.main_components if d.get_kind(c) == "numerical"]
                    if num:
                        d.add_component_link(num[0] * 2 + 1, "derived_after_load")
            except Exception as e:
                ctx.count("session_modification_failed_%s_%s" % (mod, exc_name(e)))
                return
            ctx.count("session_datasets_%s_%s_%s" % (fmt, "factory_coords" if had else "factory_no_coords", mod))
        first = dc[0]
        num = [c for c in first.main_components if first.get_kind(c) == "numerical"]
        thr = None
        if num:
            vals = np.asarray(first[num[0]], dtype=float)
            fin = vals[np.isfinite(vals)]
            thr = float(np.median(fin)) if fin.size else 0.0
            dc.new_subset_group(subset_state=num[0] >= thr, label="ref")
        before = [snapshot(d) for d in dc]
        mask_before = np.asarray(first.subsets[0].to_mask()) if num else None
        fmts = sorted(set(o[0] for o in origin))
        mods = sorted(set(o[1] for o in origin))
        sig0 = {"content": "session_by_reference", "formats": fmts[0] if len(fmts) == 1 else "mixed",
                "modified": mods[0] if len(mods) == 1 else "mixed"}
        hist = [[o[0], o[1]] for o in origin]
        try:
            text_ = GlueSerializer(dc, include_data=False).dumps()
        except Exception as e:
            ctx.count("session_save_failed_%s" % exc_name(e))   # failing loudly at save time: tallied
            return
        ctx.evaluation(["session", hist, [[m_[0] for m_ in x["main"]] for x in before]], True)
        ctx.count("session_trips")
        for f in fmts:
            ctx.count("session_files_%s" % f)
        try:
            dc2 = GlueUnSerializer.loads(text_).object("__main__")
        except Exception as e:
            ctx.violation(dict(sig0, kind="restore_exception", exc=exc_name(e)), {"error": repr(e)[:300], "history": hist})
            return
        if len(dc2) != len(dc):
            ctx.violation(dict(sig0, kind="dataset_count"), {"before": len(dc), "after": len(dc2), "history": hist})
            return
        for (fmt, mod, _), d2, snap in zip(origin, dc2, before):
            sig = {"content": "session_by_reference", "format": fmt, "modified": mod}
            try:
                after = snapshot(d2)
            except Exception as e:
                ctx.violation(dict(sig, kind="restored_dataset_unreadable", exc=exc_name(e)), {"error": repr(e)[:300], "history": hist})
                continue
            if [m_[0] for m_ in after["main"]] != [m_[0] for m_ in snap["main"]]:
                ctx.violation(dict(sig, kind="component_names"), {"before": [m_[0] for m_ in snap["main"]],
                                                                   "after": [m_[0] for m_ in after["main"]], "history": hist})
                continue
            for (name, gk, vals), (_, gk2, vals2) in zip(snap["main"], after["main"]):
                ctx.count("session_columns_compared")
                if not same_values(gk, vals, gk2, vals2):
                    ctx.violation(dict(sig, kind="value_mismatch", col=gk), {"name": name, "before": vals, "after": vals2, "history": hist})
            if [x[0] for x in after["derived"]] != [x[0] for x in snap["derived"]]:
                ctx.violation(dict(sig, kind="derived_components"), {"before": [x[0] for x in snap["derived"]],
                                                                      "after": [x[0] for x in after["derived"]], "history": hist})
            else:
                for (name, v1), (_, v2) in zip(snap["derived"], after["derived"]):
                    ctx.count("session_derived_compared")
                    if v1.shape != v2.shape or not np.array_equal(v1, v2, equal_nan=True):
                        ctx.violation(dict(sig, kind="derived_value_mismatch"), {"name": name, "before": v1, "after": v2, "history": hist})
            if after["coords"] != snap["coords"] or len(after["world"]) != len(snap["world"]):
                ctx.violation(dict(sig, kind="coords_changed", before=snap["coords"], after=after["coords"]), {"history": hist})
            else:
                for ax, (w1, w2) in enumerate(zip(snap["world"], after["world"])):
                    ctx.count("session_world_axes_compared")
                    if w1.shape != w2.shape or not np.allclose(w1, w2, rtol=1e-12, atol=1e-12, equal_nan=True):
                        ctx.violation(dict(sig, kind="world_value_mismatch", coords=snap["coords"]),
                                      {"axis": ax, "before": w1, "after": w2, "history": hist})
        if num:
            try:
                mask_after = np.asarray(dc2[0].subsets[0].to_mask())
                ctx.count("session_subset_masks_compared")
                if mask_after.shape != mask_before.shape or not np.array_equal(mask_after, mask_before):
                    ctx.violation(dict(sig0, kind="subset_mask_mismatch"), {"before": mask_before, "after": mask_after, "threshold": thr, "history": hist})
            except Exception as e:
                ctx.violation(dict(sig0, kind="subset_mask_exception", exc=exc_name(e)), {"error": repr(e)[:300], "history": hist})
    finally:
        scratch.close()


BIG_FORMATS = [("csv", 100000), ("fits_table", 100000), ("hdf5", 100000), ("votable", 20000)]
BIG_QUICK = {"csv": 30000, "votable": 10000}       # the text formats are slow: 10^5 rows only in the thorough tier


def run_big(ctx, i):
    """A table with 2x10^4 - 10^5 rows (duplicates, NaN, text) through one format: whole, first/last row, a proper subset."""
    rng = ctx.rng
    scratch = Scratch()
    try:
        fmt, n = BIG_FORMATS[i % len(BIG_FORMATS)]
        if ctx.tier == "quick":
            n = BIG_QUICK.get(fmt, n)
        nprng = ctx.nprng
        f = nprng.uniform(-1e6, 1e6, n).round(3)
        f[nprng.randint(0, n, n // 50)] = np.nan
        f[n // 2:] = f[: n - n // 2]                          # duplicates
        k = nprng.randint(-1000, 1000, n).astype(np.int64)
        k[0], k[-1] = 2 ** 40 + 3, -(2 ** 33)
        words = np.array(["ab", "xyz", "north", "Hello", "q"])
        t = words[nprng.randint(0, len(words), n)]
        cols = [["flux", "f64", f], ["idx", "i64", k], ["name_1", "str:plain", t]]
        d = Data(label="bigtab")
        for name, kind, vals in cols:
            d.add_component(vals, name)
        dc = DataCollection([d])
        ctx.count("big_tables_%s" % fmt)
        kinds = ["data", rng.choice(["first", "last"]), "proper"] if fmt != "votable" else ["data", rng.choice(["first", "last"])]
        for k_, skind in enumerate(kinds):
            trip(ctx, scratch, fmt, TABLE_FORMATS[fmt], True, d, dc, cols, (n,), skind, "b%d_%d" % (i, k_), plain=True)
            ctx.count("big_trips_%s" % fmt)
    finally:
        scratch.close()


CHAIN_KINDS = ["f64", "f64", "f32", "i64", "i32", "i16", "str:plain"]


def run_chain(ctx, i):
    """FITS file -> load with the factory (components now carry FITS's big-endian dtypes) -> export the *loaded*
    dataset, whole and as a subset, with another exporter -> load -> compare with the original harness columns."""
    rng = ctx.rng
    scratch = Scratch()
    try:
        table = i % 2 == 0
        if table:
            n = rng.choice([2, 3, 4, 6, 8])
            shape = (n,)
            kinds = [rng.choice(CHAIN_KINDS) for _ in range(rng.randint(1, 4))]
        else:
            shape = tuple(rng.randint(1, 4) for _ in range(rng.choice([2, 2, 3])))
            kinds = [rng.choice([k for k in CHAIN_KINDS if not k.startswith("str")]) for _ in range(rng.randint(1, 3))]
        names = rng.sample(NAMES, len(kinds))
        cols = [[nm, k, gen_column(rng, k, shape, image=not table)] for nm, k in zip(names, kinds)]
        src = Data(label="chain")
        for name, kind, vals in cols:
            src.add_component(vals, name)
        label, exts = TABLE_FORMATS["fits_table"] if table else IMAGE_FORMATS["gridded_fits"]
        path = scratch.path("c%d_src" % i, exts[0])
        try:
            exporter(label)(path, src)
            back = as_list(load_data(path))
        except Exception as e:
            ctx.count("chain_first_stage_failed_%s" % exc_name(e))
            return
        ctx.count("chain_cases_%s" % ("table" if table else "image"))
        k = 0
        for b in back:
            # the loaded components, paired with the harness columns by (upper-cased for gridded FITS) name
            lcols = []
            for cid in b.main_components:
                match = [c for c in cols if (c[0] if table else c[0].upper()) == cid.label]
                if not match:
                    continue
                lcols.append([cid.label, match[0][1], match[0][2]])
                gk, arr = comp_values(b, cid)
                if gk == "num" and not arr.dtype.isnative:
                    ctx.count("chain_components_with_non_native_byte_order")
            if len(lcols) != len(b.main_components) or not lcols:
                ctx.count("chain_first_stage_names_differ_skipped")   # judged by the plain trips
                continue
            dc = DataCollection([b])
            targets = ["hdf5", "csv", "votable"] if table else ["hdf5", "gridded_fits"]
            for skind in ["data", rng.choice(["proper", "full", "single"])]:
                for fmt in targets:
                    spec = (TABLE_FORMATS if table else IMAGE_FORMATS)[fmt]
                    trip(ctx, scratch, fmt, spec, table, b, dc, lcols, shape, skind, "c%d_%d" % (i, k), chained=True)
                    ctx.count("chain_trips_%s" % fmt)
                    k += 1
    finally:
        scratch.close()


def cases(tier, seed):
    """Heavy cases first, then a proportional interleave in index order: a run truncated by the time budget has executed
    a prefix of every workload, and the classes that are fixed by the case index are all covered early."""
    for i in range(N_BIG[tier]):
        yield ["big", i]
    kinds = [("table", N_TABLE[tier]), ("image", N_IMAGE[tier]), ("session", N_SESSION[tier]), ("chain", N_CHAIN[tier])]
    total = max(n for _, n in kinds)
    done = dict((k, 0) for k, _ in kinds)
    for step in range(1, total + 1):
        for k, n in kinds:
            while done[k] < n and done[k] * total < step * n:
                yield [k, done[k]]
                done[k] += 1


def run_case(ctx, case):
    if case[0] == "table":
        run_table(ctx, case[1])
    elif case[0] == "image":
        run_image(ctx, case[1])
    elif case[0] == "session":
        run_session(ctx, case[1])
    elif case[0] == "chain":
        run_chain(ctx, case[1])
    elif case[0] == "big":
        run_big(ctx, case[1])
    else:
        raise ValueError(case)


def finish(ctx):
    # nothing of ours may be left behind in the scratch area
    root = os.environ.get("VERIF_WORK")
    if root and os.path.isdir(root):
        for name in os.listdir(root):
            if name.startswith("c19-%d-" % os.getpid()):
                shutil.rmtree(os.path.join(root, name), ignore_errors=True)


def floors(counters, tier):
    out = []
    c = counters.get
    for fmt in TABLE_FORMATS:
        for sk in SUBSET_KINDS:
            if c("trips_table_%s_%s" % (fmt, sk), 0) < 8:
                out.append("fewer than 8 table trips for %s x %s" % (fmt, sk))
    for fmt in IMAGE_FORMATS:
        for sk in SUBSET_KINDS:
            if c("trips_image_%s_%s" % (fmt, sk), 0) < 8:
                out.append("fewer than 8 image trips for %s x %s" % (fmt, sk))
    for fam in ("float", "int", "str"):
        if c("columns_compared_%s" % fam, 0) < 100:
            out.append("fewer than 100 %s columns compared" % fam)
    if c("session_trips", 0) < 8:
        out.append("fewer than 8 by-reference session trips")
    for fmt in ("hdf5", "csv", "votable", "gridded_fits"):
        if c("chain_trips_%s" % fmt, 0) < 8:
            out.append("fewer than 8 chained trips (FITS -> load -> %s -> load)" % fmt)
    if c("chain_components_with_non_native_byte_order", 0) < 20:
        out.append("fewer than 20 chained components that carried a non-native byte order")
    mods = {}
    for k, v in counters.items():
        if k.startswith("session_datasets_"):
            key = ("factory_coords" if "_factory_coords_" in k else "factory_no_coords", k.split("coords_", 1)[1])
            mods[key] = mods.get(key, 0) + v
    for fc in ("factory_coords", "factory_no_coords"):
        touched = sum(mods.get((fc, m), 0) for m in ("identity_coords", "affine_coords", "derived_and_coords"))
        if touched < 1:
            out.append("no by-reference dataset with %s whose coords were assigned after loading" % fc)
        if mods.get((fc, "none"), 0) < 1:
            out.append("no untouched by-reference dataset with %s" % fc)
    if sum(mods.get((fc, "derived"), 0) + mods.get((fc, "derived_and_coords"), 0) for fc in ("factory_coords", "factory_no_coords")) < 2:
        out.append("fewer than 2 by-reference datasets with a derived component added after loading")
    if c("session_world_axes_compared", 0) < 10:
        out.append("fewer than 10 world axes compared after a by-reference restore")
    if c("session_derived_compared", 0) < 5:
        out.append("fewer than 5 derived components compared after a by-reference restore")
    need = {"tables_with_40_or_more_columns": 1, "tables_with_100_or_more_rows": 4, "tables_with_reordered_components": 3,
            "column_layout_strided": 20, "column_layout_reversed": 20, "image_layout_fortran": 5, "image_layout_broadcast": 3,
            "subset_defined_by_unordered_duplicate_indices": 10, "subset_defined_by_backward_slice": 3,
            "writes_over_an_existing_export": 15, "fault_failed_load_before_valid_load": 10, "images_with_coords_wcs": 5,
            "session_history_same_file_twice": 1, "session_history_remove_readd": 1}
    for k in EDGE_NAMES:
        need["name_class_%s" % k] = 1
    for k, n in sorted(need.items()):
        if c(k, 0) < n:
            out.append("fewer than %d %s" % (n, k))
    if sum(v for k, v in counters.items() if k.startswith("fault_failed_write_before_valid_write_")) < 5:
        out.append("fewer than 5 valid exports to a path where an export had just failed")
    if sum(v for k, v in counters.items() if k.startswith("big_trips_")) < 4:
        out.append("fewer than 4 trips of tables with 2x10^4 - 10^5 rows")
    if c("order_compared_same", 0) + c("order_compared_differs", 0) < 100:
        out.append("fewer than 100 component-order comparisons")
    return out
