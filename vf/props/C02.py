"""C02 - a saved session restores to an observationally equivalent session.

Shape: round trip + behavioural observation.  A *session recipe*
(`vf/lib_C02_sessions.py`) builds a `DataCollection` through the public API:
1-3 datasets (1-3-d; float/int/categorical/datetime columns, units, five
flavours of derived column, identity/affine/WCS coordinates, styles, metadata
of a dozen value types), one link object per linked pair of datasets (every
link helper found in glue.core / the plugins), key joins of the four arities,
and subset groups whose state trees draw on every `SubsetState` / `Roi` /
pre-transform class.  The real `GlueSerializer` writes it, the real
`GlueUnSerializer` reads it, the restored collection is written and read once
more, and `observe()` - labels, component order and kinds, values, units,
styles, plain metadata, which foreign attributes can be read and their values,
every subset's mask (or exception class) on every dataset, group bookkeeping -
must be equal for original, first and second generation.  An exception while
*saving the original* is an allowed outcome (tallied per class); an exception
while loading, or while saving a restored collection, is not.
"""
import os
import shutil

from vf import lib_C02_histories as H
from vf import lib_C02_sessions as L

ID = "C02"
LEVEL = "exploration"
BUDGET_S = {"quick": 32.0, "thorough": 150.0}
RULE = ("cases are blocks of seeded session recipes: 'gen' (random composition, data saved by value), 'files' (datasets "
        "read from generated CSV/FITS/HDF5 files, saved by reference = LoadLog path), 'leaf'/'link'/'join' (one named "
        "state/ROI/link/join class forced into an otherwise random session, so every class is exercised at least twice "
        "at top level and below a composite), 'probe' (ingredient patterns kept out of the random composition because "
        "they are known to break the whole restore). One evaluation = one session compared original vs restored vs "
        "restored-again; it is non-trivial when the session holds at least one subset group, link, join or derived "
        "column; distinct = distinct structural descriptors (shapes, coordinate kinds, column kinds, link classes, "
        "join arities, state-tree class signatures).")
ASSUMPTIONS = [
    "observe() reads only public API (Data[...], Subset.to_mask, style attributes, meta, DataCollection lists); two "
    "sessions are 'the same' when these readings are equal (NaN == NaN; stored columns bit-equal; recomputed world / "
    "derived / linked values to rtol 1e-9)",
    "metadata: only string keys with values the harness itself calls plain (str/number/bool/None/list/tuple/dict/"
    "ndarray, astropy unit, datetime64) are compared; tuple vs list is not distinguished; unserialisable values may "
    "be dropped",
    "at most one link object per pair of datasets and no cycle of linked datasets is generated, because with several "
    "routes the statement does not say which one a foreign attribute is computed through",
    "an exception raised while saving the ORIGINAL session is an allowed outcome whatever its class (the statement "
    "says 'fails loudly at save time'); it is tallied per failing class",
    "private state (uuids, _sg_count) is observed only through behaviour (masks of ElementSubsetState, label and colour "
    "of the next new subset group)",
]
ANCHORS = ["glue.core.state:GlueSerializer.id", "glue.core.state:GlueSerializer.do", "glue.core.state:GlueSerializer._dispatch",
           "glue.core.state:GlueUnSerializer.object", "glue.core.state:GlueUnSerializer._dispatch",
           "glue.core.state:GlueUnSerializer._try_callbacks",
           "glue.core.state:_save_data_5", "glue.core.state:_load_data_5", "glue.core.state:_load_data",
           "glue.core.state:_save_data_collection_4", "glue.core.state:_load_data_collection_4",
           "glue.core.state:_load_style", "glue.core.state:_save_component_link", "glue.core.state:_load_component_link",
           "glue.core.data_factories.helpers:LoadLog.__gluestate__", "glue.core.data_factories.helpers:LoadLog.__setgluestate__"]

BLOCK = 4
N_GEN = {"quick": 3200, "thorough": 40000}
N_FILES = {"quick": 640, "thorough": 6000}
N_PER_CLASS = {"quick": 2, "thorough": 12}       # blocks of BLOCK sessions per forced class
N_PROBE = {"quick": 2, "thorough": 8}

FORCED_LEAVES = sorted(set(L.LEAF_KINDS))
ROI_PRE = [(r, p) for r in L.ROI_KINDS for p in sorted(set(L.PRE_KINDS))]
FORCED_LINKS = sorted(set(L.LINK_KINDS))

# registered savers that a DataCollection built from the stated domain cannot reach (viewer/application state, region
# data, plain ungrouped Subsets, links only written by old protocol versions, colormaps): not demanded by floors()
UNREACHABLE_SAVERS = {"Session", "CallbackList", "RegionData", "ExtendedComponent", "Geometry", "Colormap", "Subset",
                      "CoordinateComponentLink", "Roi", "set"}


MODES = ["save_in_delay_block", "fault_then_save", "fault_then_load", "interleaved_sessions"]


def cases(tier, seed):
    yield ["registry"]
    forced = []
    for i in range(max(N_PROBE[tier], N_PER_CLASS[tier])):
        # one pass = every probe, every forced class, every history and every mode once; passes come one after the
        # other, so that a time-truncated run has seen each class at least once
        if i < N_PROBE[tier]:
            for name in L.PROBES:
                forced.append(["probe", name, i])
        if i < N_PER_CLASS[tier]:
            for kind in FORCED_LEAVES:
                forced.append(["leaf", kind, i])
            for kind in FORCED_LINKS:
                forced.append(["link", kind, i])
            for shape in L.JOIN_SHAPES:
                forced.append(["join", shape, i])
            for kind in ("cat_roi", "category", "cat_2d", "cat_multirange"):
                forced.append(["cats", kind, i])
            for name in ["remove_last"] + H.HISTORIES:
                forced.append(["history", name, i])
            for name in MODES:
                forced.append(["mode", name, i])
            forced.append(["big", i])
            forced.append(["zero", i])
            forced.append(["special", "parsed_same_label", i])
            forced.append(["special", "element_bound", i])
            forced.append(["special", "coords_reordered", i])
    for (r, p) in ROI_PRE:
        forced.append(["roi", r, p, 0])
    ng, nf = N_GEN[tier] // BLOCK, N_FILES[tier] // BLOCK
    rnd = []
    step = max(1, ng // max(nf, 1))
    for i in range(ng):
        rnd.append(["gen", i])
        if i % step == 0 and i // step < nf:
            rnd.append(["files", i // step])
    # three forced cases for every random one until the forced list is used up
    k = 0
    for c in rnd:
        yield c
        for _ in range(3):
            if k < len(forced):
                yield forced[k]
                k += 1
    for c in forced[k:]:
        yield c


# ---------------------------------------------------------------- signatures
def binary_derived_kinds(desc, i):
    return {n for n, k in desc["data"][i]["derived"].items() if L.DERIVED_FAMILY.get(k) == "arithmetic"}


def slice_later_datasets(desc):
    """dataset numbers k >= 1 that are the reference data of a top-level slice / pixel state (probe pattern)."""
    out = set()
    for g in desc["groups"]:
        sig = g["sig"]
        if sig.get("leaf_kind") in ("slice", "pixel") and g["on"] >= 1:
            out.add(g["on"])
    return out


def leaf_uses_arithmetic(sig):
    return "derived:arithmetic" in sig.get("att", "")


def signature_for(diff, gen, ses, before_dc, after_dc):
    """Structural signature of one difference (never values, labels, sizes)."""
    what, where, how, detail = diff
    desc = ses.desc
    sig = {"what": what, "how": how, "generation": gen}
    later = slice_later_datasets(desc)
    di = where[0] if isinstance(where, tuple) else where
    if what == "meta":
        h, _, vt = how.partition(":")
        sig["how"] = h
        sig["value_type"] = vt or None
    if what == "component_values":
        k, _, h = how.partition(":")
        sig["how"] = h
        sig["component_kind"] = k
    if what == "foreign_attribute":
        j, rest = detail["attribute"].split("/", 1)
        pos, label = rest.split(":", 1)
        j = int(j)
        kind = None
        if label in desc["data"][j]["derived"]:
            kind = "derived:" + L.DERIVED_FAMILY[desc["data"][j]["derived"][label]]
        else:
            for (lab, k) in L.observe_component_kinds(before_dc[j]):
                if lab == label:
                    kind = k
        sig["attribute_kind"] = kind
        kinds = sorted({l["link"] for l in desc["links"] if set(l["between"]) == {di, j}})
        sig["direct_link"] = "+".join(kinds) if kinds else "none"
    if what == "subset_mask":
        for side in ("before", "after"):
            o = detail[side]
            sig[side + "_outcome"] = "value" if o[0] == "value" else "raises:" + str(o[1])
        i, sj = where
        g = desc["groups"][sj] if sj < len(desc["groups"]) else None
        culprit = None
        if g is not None and gen == 1:
            try:
                so = before_dc[i].subsets[sj].subset_state
                sn = after_dc[i].subsets[sj].subset_state
                culprit = L.locate_state_difference(so, sn, g["sig"], before_dc[i], after_dc[i])
                if culprit is None and g["on"] != i:
                    culprit = L.locate_state_difference(so, sn, g["sig"], before_dc[g["on"]], after_dc[g["on"]])
            except Exception:
                culprit = None
        sig["evaluated_on"] = "own" if (g is not None and g["on"] == i) else "foreign"
        if g is not None and g["on"] != i:
            # does the observing dataset take part in a key join?  (masks fall back to - chains of - key joins when
            # the attribute cannot be reached through links, so any join of this dataset may have carried the mask)
            sig["via_join"] = any(i in jn["between"] for jn in desc["joins"]) or \
                any(l["link"] == "JoinLink" and i in l["between"] for l in desc["links"])
        if culprit is not None:
            c, chow = culprit
            sig["culprit"] = c.get("state")
            sig["culprit_how"] = chow
            sig["culprit_nested"] = bool(c.get("nested", False))
            for k in ("roi", "pretransform", "op", "form"):
                if k in c:
                    sig["culprit_" + k] = c[k]
            sig["uses_arithmetic_derived"] = leaf_uses_arithmetic(c)
        else:
            sig["culprit"] = "none"
            if g is not None:
                sig["uses_arithmetic_derived"] = any(leaf_uses_arithmetic(lf) for lf in L.sig_leaves(g["sig"]))
    if later:
        sig["slice_state_on_later_dataset"] = True
    if desc.get("removed") is not None:
        sig["dataset_removed_before_save"] = True
    if str(desc.get("history", "")).startswith("change_values"):
        sig["values_changed_before_save"] = True
    if what in ("component_units", "foreign_attribute", "subset_mask") and \
            any(d.get("file") in ("csv", "hdf5") and d["units"] for d in desc["data"]):
        sig["units_set_on_file_backed_column"] = True
        if any(l["link"] == "LinkSameWithUnits" for l in desc["links"]):
            sig["unit_link_in_session"] = True
    return sig


def exc_signature(stage, exc, gen, desc=None):
    sig = {"what": stage, "exc": type(exc).__name__, "generation": gen}
    if desc is not None:
        if any(lf.get("leaf_kind") == "floodfill" and g["on"] >= 1 for g in desc["groups"] for lf in L.sig_leaves(g["sig"])):
            sig["floodfill_on_later_dataset"] = True
        if slice_later_datasets(desc):
            sig["slice_state_on_later_dataset"] = True
        if any(d.get("order_mode") == "first_overall" for d in desc["data"]):
            sig["derived_component_first_overall"] = True
        if desc.get("removed") is not None:
            sig["dataset_removed_before_save"] = True
        if desc.get("floodfill_dataset_left_collection"):
            sig["floodfill_dataset_left_collection"] = True
        if any(d.get("file") in ("csv", "hdf5") and d["units"] for d in desc["data"]):
            sig["units_set_on_file_backed_column"] = True
    if hasattr(exc, "_vf_type"):
        sig["failing_type"] = exc._vf_type
    if hasattr(exc, "_vf_class"):
        sig["failing_class"] = exc._vf_class
    return sig


# ---------------------------------------------------------------- one session
def fingerprint(desc):
    def strip(sig):
        out = {k: v for k, v in sig.items() if k in ("state", "roi", "pretransform", "op", "form", "att")}
        if "children" in sig:
            out["children"] = [strip(c) for c in sig["children"]]
        return out
    return [[(d["shape"], d["coords"], sorted(d["derived"].values()), d["cat"], d["datetime"], sorted(d["units"]),
              sorted(k for k, _ in d["meta"]), d.get("file")) for d in desc["data"]],
            [(l["kind"], l["between"]) for l in desc["links"]], [(j["shape"], j["between"]) for j in desc["joins"]],
            [(g["on"], strip(g["sig"])) for g in desc["groups"]], desc["include_data"], desc.get("probe")]


def tally_ingredients(ctx, desc, prefix):
    seen = set()
    for d in desc["data"]:
        seen.add("coords:%s" % d["coords"])
        for k in d["derived"].values():
            seen.add("derived:" + k)
        if d["cat"]:
            seen.add("column:categorical")
        if d["datetime"]:
            seen.add("column:datetime")
        if d["units"]:
            seen.add("column:units")
        for k, plain in d["meta"]:
            seen.add("meta:" + k)
        seen.add("ndim:%d" % len(d["shape"]))
        if d["cat"]:
            seen.add("categorical_order:%s" % (d.get("custom_categories") or "default"))
        if d.get("order_mode"):
            seen.add("component_order:" + d["order_mode"])
        for v in d.get("variants", []):
            seen.add("variant:" + v)
        for t in d.get("style_extremes", []):
            seen.add("data_style:" + t)
        if d.get("file"):
            seen.add("file:" + d["file"])
    for l in desc["links"]:
        seen.add("link:" + l["kind"])
        seen.add("linkclass:" + l["link"])
    for j in desc["joins"]:
        seen.add("join:" + j["shape"])
    for g in desc["groups"]:
        for t in g.get("style_extremes", []):
            seen.add("group_style:" + t)
        for c in L.sig_classes(g["sig"]):
            seen.add("state:" + c)
        for lf in L.sig_leaves(g["sig"]):
            seen.add("leaf:%s:%s" % (lf.get("leaf_kind"), "nested" if lf.get("nested") else "top"))
            if "roi" in lf:
                seen.add("roi:" + lf["roi"])
                if "roi_kind" in lf:
                    seen.add("roi_kind:" + lf["roi_kind"])
            if lf.get("pretransform") not in (None, "none"):
                seen.add("pretransform:" + lf["pretransform"])
            if lf.get("params"):
                seen.add("leaf_params:%s:%s" % (lf.get("leaf_kind"), lf["params"]))
            if lf.get("bounds"):
                seen.add("leaf_bounds:" + lf["bounds"])
            if lf.get("leaf_kind", "").startswith("inequality") and "op" in lf:
                seen.add("inequality_op:" + lf["op"])
                seen.add("inequality_form:" + lf["form"])
    if desc.get("collide"):
        seen.add("label_collisions")
    if desc.get("history"):
        seen.add("history:" + desc["history"])
    if desc.get("mode"):
        seen.add("mode:" + desc["mode"])
    for d in desc["data"]:
        for k, plain in d["meta"]:
            if k.startswith("m_np_"):
                seen.add("meta_kind:numpy_scalar")
            if k in ("m_deep", "m_listofdict", "m_tuple_str", "m_arr_in_list", "m_nested", "m_mixed"):
                seen.add("meta_kind:nested_container")
            if k in ("m_zero", "m_fzero", "m_negzero", "m_false", "m_emptylist", "m_emptydict", "m_emptytuple", "m_none", "m_empty"):
                seen.add("meta_kind:falsy")
            if k in ("st__key", "__main__", "d0", "key with space", "", "7"):
                seen.add("meta_kind:awkward_key")
    for s in seen:
        ctx.count("%s:%s" % (prefix, s))
    return seen


def flag_floodfill_outsiders(ses):
    """trait: a flood-fill selection whose dataset is not a member of the collection (any more)."""
    from glue.core.subset import FloodFillSubsetState

    def walk(st):
        if isinstance(st, FloodFillSubsetState):
            yield st
        for c in (L.state_children(st) or []):
            for x in walk(c):
                yield x
    members = list(ses.dc)
    for g in ses.dc.subset_groups:
        for ff in walk(g.subset_state):
            if not any(ff.data is m for m in members):
                ses.desc["floodfill_dataset_left_collection"] = True


def provoke_faults(ctx, dc):
    """Calls that raise, on the very objects that are saved afterwards; what they leave behind must not matter."""
    from glue.core.state import GlueSerializer
    n = 0
    for attempt in ("save_unserialisable", "mask_bad_view", "bad_component", "bad_link"):
        try:
            if attempt == "save_unserialisable":
                GlueSerializer({"dc": dc, "bad": L.Unserialisable()}, include_data=True).dumps()
            elif attempt == "mask_bad_view" and len(dc) and dc[0].subsets:
                dc[0].subsets[0].to_mask(view=(slice(None),) * (dc[0].ndim + 2))
            elif attempt == "bad_component" and len(dc):
                dc[0].add_component([1, 2, 3, 4, 5, 6, 7, 8, 9, 10, 11], "wrong_shape")
            elif attempt == "bad_link" and len(dc):
                dc.add_link("not a link")
        except Exception:
            n += 1
    ctx.count("faults_provoked_before_save", n)


def run_session(ctx, ses, tag, mode=None):
    desc = ses.desc
    dc = ses.dc
    flag_floodfill_outsiders(ses)
    if mode == "fault_then_save":
        provoke_faults(ctx, dc)
    ctx.count("sessions_generated")
    ctx.count("sessions_generated:" + tag)
    tally_ingredients(ctx, desc, "generated_with")
    nontrivial = bool(desc["groups"] or desc["links"] or desc["joins"] or any(d["derived"] for d in desc["data"]))
    fp = fingerprint(desc)
    trace = {}
    obs0 = L.observe(dc)
    # ---- save the original: may refuse loudly
    try:
        if mode == "save_in_delay_block":
            # saving while the hub holds messages back and the link manager is not updating
            with dc.hub.delay_callbacks():
                with dc.delay_link_manager_update():
                    if len(dc) and dc[0].subsets:
                        dc[0].subsets[0].style.color = "#010203"      # a pending message
                        obs0 = L.observe(dc)
                    s1 = L.save(dc, include_data=ses.include_data, trace=trace)
        else:
            s1 = L.save(dc, include_data=ses.include_data, trace=trace)
    except Exception as exc:
        ctx.count("save_refused")
        ctx.count("save_refused:%s:%s" % (getattr(exc, "_vf_class", "at_json_encoding"), type(exc).__name__))
        ctx.evaluation(fp, False)
        return
    for k, v in trace.get("savers", {}).items():
        ctx.count("saver_used:" + k, v)
    for k, v in trace.get("fallthrough", {}).items():
        ctx.count("saver_mro_fallthrough:" + k, v)
    # every _type written must resolve back to the very class that was written
    from glue.core.state import lookup_class_with_patches
    for tname, cls in trace.get("types", {}).items():
        if tname.startswith("types."):
            continue
        try:
            back = lookup_class_with_patches(tname)
        except Exception:
            back = None
        ctx.count("written_type_names_resolved")
        if back is not cls:
            ctx.violation({"what": "written_type_does_not_resolve_back", "type": tname, "resolves_to": getattr(back, "__module__", "?") + "." + getattr(back, "__name__", repr(back))},
                          {"desc": desc})
    # ---- first restore
    ltrace = {}
    if mode == "fault_then_load":
        # loads that raise (truncated file, unknown type, record of a class that cannot be built) before the real one
        import json
        n = 0
        for bad in (s1[:len(s1) // 2], s1.replace('"glue.core.data.Data"', '"glue.core.data.NoSuchClass"'),
                    json.dumps({"__main__": {"_type": "glue.core.subset.RangeSubsetState", "lo": 1}})):
            try:
                L.load(bad)
            except Exception:
                n += 1
        ctx.count("faults_provoked_before_load", n)
    if mode == "interleaved_sessions":
        # a second, different session is saved and loaded between this session's save and its load (nothing kept
        # per process - name registries, caches keyed by label or by id() - may leak from one into the other)
        other = L.build_session(ctx.rng, {"n_data": 2, "label_collisions": False}, None)
        try:
            L.load(L.save(other.dc))
            ctx.count("interleaved_other_session_tripped")
        except Exception:
            ctx.count("interleaved_other_session_failed")
    try:
        dc1 = L.load(s1, trace=ltrace)
    except Exception as exc:
        ctx.count("load_raised")
        ctx.evaluation(fp, nontrivial)
        ctx.violation(exc_signature("load_raises", exc, 1, desc), {"desc": desc, "error": repr(exc)[:300]})
        return
    for k, v in ltrace.get("loaders", {}).items():
        ctx.count("loader_used:" + k, v)
    obs1 = L.observe(dc1)
    ctx.count("sessions_compared")
    ctx.count("sessions_compared:" + tag)
    diffs = L.diff_obs(obs0, obs1)
    reported = set()

    def report(diff, gen, b, a):
        sig = signature_for(diff, gen, ses, b, a)
        key = repr(sorted(sig.items()))
        if key in reported:
            return
        reported.add(key)
        ctx.violation(sig, {"desc": desc, "difference": diff})

    for df in diffs:
        report(df, 1, dc, dc1)
    ctx.count("observations_compared", count_observations(obs0))
    ctx.count("subset_masks_compared", sum(len(d["subsets"]) for d in obs0["data"]))
    ctx.count("foreign_attributes_compared", sum(len(d["foreign"]) for d in obs0["data"]))
    ctx.count("foreign_attributes_readable", sum(1 for d in obs0["data"] for v in d["foreign"].values() if v[0] == "value"))
    ctx.count("subset_masks_nonempty", sum(1 for d in obs0["data"] for s in d["subsets"]
                                           if s["mask"][0] == "value" and s["mask"][1].any()))
    ctx.count("subset_masks_on_foreign_dataset_with_value",
              sum(1 for i, d in enumerate(obs0["data"]) for j, s in enumerate(d["subsets"])
                  if j < len(desc["groups"]) and desc["groups"][j]["on"] != i and s["mask"][0] == "value"))
    for i, d in enumerate(obs0["data"]):
        for j, sub in enumerate(d["subsets"]):
            if j >= len(desc["groups"]):
                continue
            g = desc["groups"][j]
            if str(g.get("label", "")).startswith("same_label_") and g["on"] == i and sub["mask"][0] == "value":
                ctx.count("same_label_expression_masks_with_value")
            if str(g.get("label", "")).startswith("bound_") and g["on"] != i:
                ctx.count("bound_element_masks_on_other_tables:" + ("value" if sub["mask"][0] == "value" else sub["mask"][1]))
    if desc.get("removed") is not None:
        # masks of the selection over the removed dataset's attribute, as seen by the datasets that stayed
        ctx.count("history_masks_over_removed_dataset_with_value",
                  sum(1 for d in obs0["data"] for j, s in enumerate(d["subsets"])
                      if j < len(desc["groups"]) and desc["groups"][j]["on"] == desc["removed"] and s["mask"][0] == "value"))
        ctx.count("history_masks_over_removed_dataset_nonempty",
                  sum(1 for d in obs0["data"] for j, s in enumerate(d["subsets"])
                      if j < len(desc["groups"]) and desc["groups"][j]["on"] == desc["removed"] and s["mask"][0] == "value"
                      and s["mask"][1].any()))
    # ---- second generation
    ok2 = False
    try:
        s2 = L.save(dc1, include_data=ses.include_data)
    except Exception as exc:
        sig = exc_signature("resave_raises", exc, 2, desc)
        ctx.violation(sig, {"desc": desc, "error": repr(exc)[:300]})
        s2 = None
    if s2 is not None:
        try:
            dc2 = L.load(s2)
            ok2 = True
        except Exception as exc:
            ctx.violation(exc_signature("load_raises", exc, 2, desc), {"desc": desc, "error": repr(exc)[:300]})
    if ok2:
        obs2 = L.observe(dc2)
        ctx.count("second_generation_compared")
        for df in L.diff_obs(obs1, obs2):
            report(df, 2, dc1, dc2)
        if s1 == s2:
            ctx.count("second_generation_text_identical")
        # observations that modify the collection, after the last save
        n0, n1, n2 = L.observe_destructive(dc), L.observe_destructive(dc1), L.observe_destructive(dc2)
        for gen, (x, y) in ((1, (n0, n1)), (2, (n1, n2))):
            for k in x:
                if x[k] != y.get(k):
                    report(("next_group", None, k, [x[k], y.get(k)]), gen, None, None)
        ctx.count("next_group_label_compared")
    ctx.evaluation(fp, nontrivial)
    if not diffs:
        ctx.count("sessions_equal_after_first_restore")
        tally_ingredients(ctx, desc, "tripped_with")
        if ctx.rng.random() < 0.002:
            ctx.sample({"tag": tag, "descriptor": desc})


def count_observations(obs):
    n = 0
    for d in obs["data"]:
        n += 4 + len(d["values"]) + len(d["units"]) + len(d["cat"]) + len(d["style"]) + len(d["meta"]) + len(d["foreign"])
        n += 3 * len(d["subsets"])
    return n + 2 * len(obs["groups"]) + 3


# ---------------------------------------------------------------- cases
def session_opts(case):
    kind = case[0]
    if kind == "gen":
        return {}
    if kind == "files":
        return {"files": True}
    if kind == "probe":
        return {"probe": case[1]}
    if kind == "leaf":
        return {"want_leaf": case[1]}
    if kind == "roi":
        return {"want_leaf": "roi", "want_roi": case[1], "want_pre": case[2]}
    if kind == "link":
        return {"want_link": case[1]}
    if kind == "join":
        return {"want_join": case[1]}
    if kind == "cats":
        return {"want_leaf": case[1], "cat_mode": "all_present"}
    if kind == "history":
        return {"history": "remove_last"} if case[1] == "remove_last" else dict(H.HISTORY_OPTS[case[1]])
    if kind == "mode":
        return {"n_data": 2} if case[1] == "interleaved_sessions" else {}
    if kind == "big":
        return {"big": True, "n_data": 1 + case[1] % 2}
    if kind == "zero":
        return {"zero_size": True}
    if kind == "special":
        return {"special": case[1]}
    raise ValueError(case)


def run_case(ctx, case):
    if case[0] == "registry":
        registry_case(ctx)
        return
    opts = session_opts(case)
    work = None
    if opts.get("files"):
        work = os.path.join(os.environ.get("VERIF_WORK", "/verif/.work"), "C02_%d" % os.getpid())
    # forced-class cases: one session in the first pass (so that even a starved run sees every class), three later
    n = BLOCK if case[0] in ("gen", "files") else (1 if case[0] in ("roi", "big") or case[-1] == 0 else 3)
    for b in range(n):
        if work:
            shutil.rmtree(work, ignore_errors=True)
            os.makedirs(work, exist_ok=True)
        try:
            if case[0] == "history" and case[1] == "empty_collection":
                ses = H.empty_session()
            else:
                ses = L.build_session(ctx.rng, opts, work)
            mode = None
            if case[0] == "history" and case[1] != "remove_last":
                try:
                    tag = H.apply_history(ctx.rng, ses, case[1])
                    tries = 0
                    while tag is None and tries < 5:      # preconditions not met by this session: build another
                        tries += 1
                        ctx.count("history_not_applicable:" + case[1])
                        ses = L.build_session(ctx.rng, opts, work)
                        tag = H.apply_history(ctx.rng, ses, case[1])
                except Exception as exc:
                    # the history itself failed inside glue (undo/redo, merge ... are other properties' subjects)
                    ctx.count("history_raised:%s:%s" % (case[1], type(exc).__name__))
                    continue
                if tag is None:
                    ctx.count("history_not_applicable:" + case[1])
                    continue
                ses.desc["history"] = tag
            if case[0] == "mode":
                mode = case[1]
                ses.desc["mode"] = mode
            run_session(ctx, ses, case[0] if case[0] != "probe" else "probe:" + case[1], mode=mode)
        finally:
            if work:
                shutil.rmtree(work, ignore_errors=True)


def registry_case(ctx):
    """Which classes exist (introspection) vs which have a recipe; which savers are registered."""
    import importlib
    import pkgutil
    for pkgname in ("glue.core", "glue.viewers", "glue.plugins"):
        pkg = importlib.import_module(pkgname)
        for m in pkgutil.walk_packages(pkg.__path__, pkgname + "."):
            if ".tests" in m.name or "qt" in m.name:
                continue
            try:
                importlib.import_module(m.name)
            except Exception:
                ctx.count("registry:module_not_importable")
    from glue.core.subset import SubsetState
    from glue.core.roi import Roi
    from glue.core.link_helpers import LinkCollection
    from glue.core.state import GlueSerializer

    def subs(c):
        out = []
        for s in c.__subclasses__():
            out.append(s)
            out.extend(subs(s))
        return out
    have = L.RECIPE_CLASSES
    for base, tag in ((SubsetState, "state"), (Roi, "roi"), (LinkCollection, "link")):
        for cls in [base] + subs(base):
            if cls.__module__.startswith("vf."):
                continue
            ctx.count("registry:%s_classes_found" % tag)
            if cls.__name__ not in have:
                ctx.count("registry:class_without_recipe:%s.%s" % (cls.__module__, cls.__name__))
    for typ, versions in GlueSerializer.dispatch._data.items():
        ctx.count("registered_saver:%s@%d" % (typ.__name__, max(versions)))
    ctx.evaluation(None, False)


def floors(counters, tier):
    out = []
    gen = sum(v for k, v in counters.items() if k.startswith("sessions_generated:") and not k.startswith("sessions_generated:probe"))
    cmp_ = sum(v for k, v in counters.items() if k.startswith("sessions_compared:") and not k.startswith("sessions_compared:probe"))
    if gen < 150:
        out.append("fewer than 150 non-probe sessions generated (%d)" % gen)
    elif cmp_ < 0.8 * gen:
        out.append("only %d of %d generated non-probe sessions reached the comparison (< 80 %%)" % (cmp_, gen))
    if counters.get("sessions_compared:files", 0) < 8:
        out.append("fewer than 8 by-reference (file-backed) sessions compared")
    if counters.get("second_generation_compared", 0) < 100:
        out.append("fewer than 100 second-generation restores compared")
    if counters.get("subset_masks_nonempty", 0) < 150:
        out.append("fewer than 150 non-empty subset masks compared")
    if counters.get("foreign_attributes_readable", 0) < 100:
        out.append("fewer than 100 readable foreign (linked) attributes compared")
    if counters.get("subset_masks_on_foreign_dataset_with_value", 0) < 25:
        out.append("fewer than 25 masks evaluated through a link or join on another dataset")
    need = ["leaf:%s:top" % k for k in FORCED_LEAVES] + \
           ["leaf:%s:nested" % k for k in FORCED_LEAVES if k not in ("slice", "pixel", "slice_special")] + \
           ["roi_kind:" + r for r in L.ROI_KINDS] + ["pretransform:" + p for p in set(L.PRE_KINDS) if p != "none"] + \
           ["link:" + k for k in FORCED_LINKS] + ["join:" + j for j in L.JOIN_SHAPES] + \
           ["derived:" + k for k in L.DERIVED_FAMILY] + ["column:categorical", "column:datetime", "column:units"] + \
           ["coords:" + str(c) for c in set(L.COORD_KINDS)] + ["file:csv", "file:fits", "file:hdf5", "label_collisions"] + \
           ["component_order:" + m for m in set(L.ORDER_MODES)] + \
           ["categorical_order:" + m for m in ("default", "all_present", "with_absent")] + \
           ["%s_style:%s:%s" % (w, a, e) for w in ("data", "group") for a in ("alpha", "linewidth", "markersize")
            for e in ("falsy", "max")]
    need += ["variant:" + v for v in ("rows>=100", "many_columns", "zero_size", "same_label_references",
                                      "element_bound_next_to_longer_tables", "coordinate_components_out_of_axis_order")]
    if counters.get("same_label_expression_masks_with_value", 0) < 3:
        out.append("fewer than 3 evaluable expressions over same-labelled references compared")
    if counters.get("bound_element_masks_on_other_tables:IncompatibleAttribute", 0) + \
            counters.get("bound_element_masks_on_other_tables:value", 0) < 2:
        out.append("fewer than 2 masks of a bound element selection observed on other tables")
    # variants that come with the random composition: floors on the families, not on every member
    for fam, least in (("variant:dtype:", 10), ("variant:layout:", 10), ("variant:scale:", 10), ("variant:unit_length_axis", 1),
                       ("variant:duplicate_component_label", 1)):
        got = sum(v for k, v in counters.items() if k.startswith("generated_with:" + fam))
        if got < least:
            out.append("fewer than %d sessions with a %s* column variant (%d)" % (least, fam, got))
    for fam in ("variant:dtype:", "variant:layout:", "variant:scale:"):
        kinds = sum(1 for k in counters if k.startswith("generated_with:" + fam))
        if kinds < 3:
            out.append("fewer than 3 different %s* variants generated" % fam)
    need += ["meta_kind:" + k for k in ("numpy_scalar", "nested_container", "falsy", "awkward_key")]
    need += ["leaf_bounds:close_pair", "coords:scaled"] + ["mode:" + m for m in MODES]
    for n in need:
        if counters.get("generated_with:" + n, 0) < 1:
            out.append("workload class %s never generated" % n)
    for h in ["remove_last"] + H.HISTORIES:
        if not any(k.startswith("tripped_with:history:" + h) or k.startswith("generated_with:history:" + h) for k in counters):
            out.append("history %s never generated" % h)
    for lk in L.SPECIAL_LEAVES:
        if counters.get("generated_with:leaf:%s:top" % lk, 0) < 1:
            out.append("special leaf recipe %s never generated" % lk)
    for k in counters:
        if k.startswith("registered_saver:"):
            name = k.split(":", 1)[1]
            if name.split("@")[0] in UNREACHABLE_SAVERS:
                continue
            if counters.get("saver_used:" + name, 0) == 0:
                out.append("registered saver %s never observed in use" % name)
    if counters.get("history_masks_over_removed_dataset_with_value", 0) < 1:
        out.append("fewer than 1 masks of a selection over a removed dataset's attribute evaluated through its key join")
    if not any(k.startswith("registered_saver:") for k in counters):
        out.append("the saver registry was not enumerated")
    return out
