"""C09 - a drawn region becomes a selection of exactly the elements whose plotted position it contains.

Shape: parameter sweep with an independent oracle.  One *instance* = a 1-d table with an x and a y
column (each numeric - NaN included - or categorical with default / custom-ordered / partly absent
categories), a 2-d region whose edges are swept across the integer category positions, the call
`roi_to_subset_state(roi, x_att, y_att, x_categories, y_categories)` and `Data.get_mask(state)`.
The mask is compared element-wise with the reference geometry of `vf/lib_C08_geom.py` evaluated at
the plotted positions (category index on categorical axes, computed by the harness from the label
list, not taken from glue).  Elements in the boundary band are excluded and counted.
"""
import math

import numpy as np

from glue.core import Data, DataCollection
from glue.core.component import CategoricalComponent
from glue.core.roi import (RectangularROI, EllipticalROI, CircularROI, CircularAnnulusROI, PolygonalROI,
                           RangeROI, XRangeROI, YRangeROI, CategoricalROI)
from glue.core.subset import roi_to_subset_state

from vf import lib_C08_geom as G

ID = "C09"
LEVEL = "exploration"
BUDGET_S = {"quick": 35.0, "thorough": 540.0}
RULE = ("a case is a block of instances; an instance = axis kinds (numeric|categorical)^2, 1-6 categories in default, "
        "custom-permuted or partly-absent order, label alphabets plain / prefix-sharing of different lengths / numeric, "
        "CategoricalROI regions built from list / ndarray / object ndarray incl. narrower-than-data and integer-vs-float; numeric columns of "
        "dtype f8 / f4 / >f8 / i1..i8 / u1 / u8 / dask; numeric axes scaled by 1e-10..1e12; region parameters as python / numpy scalars, "
        "polygon vertices as list / array / tuple; regions brought into place by 1-5 move/rotate steps; edges at i+-1e-9, beyond the "
        "categories, unbounded; masks via get_mask / twice / state.copy() / a Subset in a DataCollection / after a failing call; 1-16 "
        "(sometimes 100-180) elements (numeric values at category positions, +-1e-6, half "
        "positions, NaN), a region of one class (x/y range incl. reversed, rectangle incl. rotated, circle, ellipse incl. "
        "rotated, annulus, polygon: convex / star / comb cutting each category line several times / lattice with "
        "vertices on category lines / closed or open, categorical) whose edges are swept over i, i+-1e-6, i+-0.25, "
        "i+-0.5. evaluation = one produced mask compared with the reference; non-trivial = compared elements both "
        "selected and unselected; distinct = distinct (dispatch path, roi class, axis kinds, category order, edge "
        "classes, #categories, outcome pattern) fingerprints.")
ASSUMPTIONS = ["the plotted position of an element on a categorical axis is the index of its label in the categories array "
               "handed to roi_to_subset_state (NaN when the label is not in it); the harness computes it from the label list",
               "reference geometry of vf/lib_C08_geom.py; boundary band 1e-10 x max(|positions|, extent) + 1e-13 in the unit frame (2e-6 relative when a float32 column or float32 region parameter is involved; x10 when the region was moved into place); for circle / ellipse / annulus "
               "on a mixed numeric/categorical pair additionally 1e-3 x extent (the conversion goes through the 100-vertex "
               "polygon)",
               "a CategoricalROI is a set of labels and is applied to the x attribute (documented assumption of the dispatcher); "
               "it is only generated with a categorical x axis",
               "labels are compared by value: a label selects exactly the elements whose label equals it ('a' does not select 'ab', the "
               "integer label 1 selects 1.0 and not 1.5), whatever the dtypes / widths of the region's and the data's label arrays",
               "categories are handed over as the component's numpy array (as the viewers do), never as a python list",
               "use_pretransform=True (non-rectilinear projections) is outside the statement and not generated"]
ANCHORS = ["glue.core.subset:roi_to_subset_state", "glue.core.roi:CategoricalROI.from_range", "glue.core.roi:CategoricalROI.contains",
           "glue.utils.geometry:polygon_line_intersections", "glue.core.subset:CategoricalROISubsetState2D.to_mask",
           "glue.core.subset:CategoricalMultiRangeSubsetState.to_mask", "glue.core.subset:RangeSubsetState.to_mask",
           "glue.core.subset:CategoricalROISubsetState.to_mask"]

N_BLOCKS = {"quick": 260, "thorough": 9000}
PER_BLOCK = 25
TOLF, TOLA, POLY_MUL = 1e-10, 1e-13, 1e-3        # the conversions are exact comparisons: a relative 1e-9 must be resolved
TOL32 = 2e-6                                      # float32 column or float32 region parameter: comparisons happen in float32
MAGNITUDES = [1e-10, 1e-6, 1e6, 1e12]
LABELS = ["a", "b", "c", "dd", "e", "ff", "g", "B", "zz", ""]
LABELS_PREFIX = ["a", "ab", "abc", "b", "ba", "m1", "m10", "m2", "m20"]
LABELS_NUMERIC = [0.0, 1.0, 1.5, 2.0, 2.5, 3.0, 10.0]
CLASS_OF = {"range": "RangeROI", "rect": "RectangularROI", "circle": "CircularROI", "ellipse": "EllipticalROI",
            "annulus": "CircularAnnulusROI", "polygon": "PolygonalROI"}
PATHS = ["range_categorical", "range_numeric", "rect_decomposed", "categorical_roi", "polylike_both_categorical",
         "polylike_x_categorical", "polylike_y_categorical", "numeric_numeric"]
ROI_KINDS = ["xrange", "yrange", "rect", "rect_rotated", "circle", "ellipse", "annulus", "polygon", "categorical"]


# ---------------------------------------------------------------- generators
def sweep(rng, ncat, far=False):
    """A coordinate placed relative to the integer category positions 0..ncat-1."""
    i = rng.randint(-1, ncat)
    r = rng.random()
    if r < 0.16:
        return float(i), "on_position"
    if r < 0.24:
        # two bounds that agree to a relative 1e-9 and still separate the element at position i from its neighbourhood
        return i + rng.choice([-1.0, 1.0]) * 1e-9 * max(1.0, abs(i)), "position_pm_1e-9"
    if r < 0.30:
        # far outside the category positions: below -1, above the last category, very far
        near = [-2.0, -2.5, -7.0, ncat + 1.0, ncat + 1.5, ncat + 9.0]
        return rng.choice(near + ([-1e6, 1e6, -1e12, 1e12] if far else [])), "beyond_categories"
    if r < 0.42:
        return i + rng.choice([-1e-6, 1e-6]), "position_pm_1e-6"
    if r < 0.58:
        return i + rng.choice([-0.5, 0.5]), "half_position"
    if r < 0.72:
        return i + rng.choice([-0.25, 0.25]), "quarter_position"
    return round(rng.uniform(-1.5, ncat + 0.5), 4), "random"


def gen_axis(rng, kind, n, ncat, many=False):
    """Returns dict(kind, values|labels, categories(list|None), order)."""
    if kind == "num":
        dtype = rng.choice(["<f8", "<f8", "<f8", "<f4", ">f8", "i1", "u1", "i2", "<i4", "<i8", "u8", "dask_f8"])
        vals = []
        for _ in range(n):
            r = rng.random()
            if dtype[-2] in "iu" and dtype != "dask_f8":
                lo = 0 if dtype[0] == "u" else -3
                vals.append(float(rng.randint(lo, ncat + 2)))
            elif r < 0.12:
                vals.append(float("nan"))
            else:
                vals.append(sweep(rng, ncat)[0])
        return {"kind": "num", "values": vals, "dtype": dtype}
    # label alphabets: plain; labels of different lengths that share prefixes ('a' / 'ab' / 'abc', 'm1' / 'm10'); numeric labels
    # (1 / 1.5 / 2 ...) so that a region given by integer labels meets float-valued data
    alphabet = rng.choice(["plain", "plain", "prefix", "prefix", "numeric"])
    source = {"plain": LABELS, "prefix": LABELS_PREFIX, "numeric": LABELS_NUMERIC}[alphabet]
    if many:
        # scale class: 40-150 categories (k1 / k10 / k100 share prefixes; or floats), every label repeated over 300+ rows
        alphabet = rng.choice(["prefix", "numeric"])
        source = ["k%d" % i for i in range(ncat)] if alphabet == "prefix" else [round(0.5 * i, 1) for i in range(ncat)]
    ncat = min(ncat, len(source))
    pool = rng.sample(source, ncat)
    order = rng.choice(["default", "default", "custom_permuted", "custom_with_absent_categories", "custom_missing_label"])
    if order == "default":
        labels = [rng.choice(pool) for _ in range(n)]
        cats = None
    elif order == "custom_permuted":
        labels = [rng.choice(pool) for _ in range(n)]
        cats = list(pool)
        rng.shuffle(cats)
    elif order == "custom_with_absent_categories":
        used = rng.sample(pool, rng.randint(1, max(1, ncat - 1)))          # any non-empty subset of the categories is present
        labels = [rng.choice(used) for _ in range(n)]
        cats = list(pool)
        rng.shuffle(cats)
    else:
        cats = list(pool)
        rng.shuffle(cats)
        # the label that is missing from the categories extends one of the longest categories, so that it differs from a
        # category only beyond the width of the categories array ('abc' vs 'abc9'; 2.5 vs 2.75)
        if alphabet == "numeric":
            missing = [max(pool) + 0.25, min(pool) + 0.125]
        else:
            longest = max(pool, key=len)
            missing = [longest + "9", "~absent"]
        labels = [rng.choice(pool + missing) for _ in range(n)]
    return {"kind": "cat", "labels": labels, "categories": cats, "order": order, "alphabet": alphabet,
            "jitter": rng.choice(["none", "none", "uniform", "on_then_off"])}


def make_column(d, name, ax):
    if ax["kind"] == "num":
        arr = np.array(ax["stored"], dtype=float)
        if ax["dtype"] == "dask_f8":
            import dask.array as da
            arr = da.from_array(arr, chunks=max(1, len(arr) // 3 + 1))
        else:
            arr = arr.astype(ax["dtype"])
        d.add_component(arr, name)
    else:
        cats = None if ax["categories"] is None else np.array(ax["categories"])
        # display jitter: the codes glue reports are then position +- 0.5; the selection is by label and must not care
        if ax["jitter"] == "uniform":
            comp = CategoricalComponent(np.array(ax["labels"]), categories=cats, jitter="uniform")
            comp.codes
        else:
            comp = CategoricalComponent(np.array(ax["labels"]), categories=cats)
            if ax["jitter"] == "on_then_off":
                comp.jitter("uniform")
                comp.codes
                comp.jitter(None)
        d.add_component(comp, name)


def positions(ax):
    """Plotted positions and the categories array order, computed without glue."""
    if ax["kind"] == "num":
        # positions in the unit frame: what is stored (after the dtype cast), divided by the axis factor
        return np.array(ax["stored"], dtype=float) / ax["f"], None
    cats = ax["categories"]
    if cats is None:
        cats = sorted(set(ax["labels"]))
    pos = [float(cats.index(l)) if l in cats else float("nan") for l in ax["labels"]]
    return np.array(pos, dtype=float), cats


def gen_roi(rng, kind, ncx, ncy, xk, yk):
    """Descriptor in plotted coordinates + meta; None when the combination is not generated."""
    far = kind in ("xrange", "yrange", "rect")          # very distant edges only where edges are compared one by one
    sx = lambda: sweep(rng, ncx, far)
    sy = lambda: sweep(rng, ncy, far)
    edge = []
    if kind in ("xrange", "yrange"):
        s = sx if kind == "xrange" else sy
        (a, ca), (b, cb) = s(), s()
        edge = [ca, cb]
        variant = "sorted"
        if rng.random() < 0.85:
            a, b = min(a, b), max(a, b)
        elif a > b:
            variant = "reversed"
        ori = "x" if kind == "xrange" else "y"
        cls = rng.choice(["XRangeROI" if ori == "x" else "YRangeROI", "RangeROI"])
        return {"k": "range", "ori": ori, "lo": a, "hi": b, "cls": cls}, {"variant": variant, "edges": edge}
    if kind in ("rect", "rect_rotated"):
        (a, ca), (b, cb), (c, cc), (e, ce) = sx(), sx(), sy(), sy()
        a, b = min(a, b), max(a, b)
        c, e = min(c, e), max(c, e)
        if b - a < 1e-3:
            b = a + 0.8
        if e - c < 1e-3:
            e = c + 0.8
        theta = 0.0
        variant = "axis_aligned"
        if kind == "rect_rotated":
            theta, variant = rng.choice([(math.pi / 2, "quarter_turn"), (math.pi, "half_turn"), (round(rng.uniform(0.2, 1.3), 3), "general"),
                                         (round(rng.uniform(0.2, 1.3), 3), "general"), (-math.pi / 2, "quarter_turn")])
        return ({"k": "rect", "xmin": a, "xmax": b, "ymin": c, "ymax": e, "theta": theta},
                {"variant": variant, "edges": [ca, cb, cc, ce]})
    if kind == "circle":
        (xc, ca), (yc, cb) = sx(), sy()
        r = rng.choice([0.3, 0.5 - 1e-6, 0.5 + 1e-6, 1.0 - 1e-6, 1.0 + 1e-6, 1.5, round(rng.uniform(0.2, 3.0), 3)])
        return {"k": "circle", "xc": xc, "yc": yc, "r": r}, {"variant": "circle", "edges": [ca, cb]}
    if kind == "ellipse":
        (xc, ca), (yc, cb) = sx(), sy()
        rx = rng.choice([0.3, 0.5 + 1e-6, 1.0 - 1e-6, 1.5, round(rng.uniform(0.2, 3.0), 3)])
        ry = rng.choice([0.3, 0.5 - 1e-6, 1.0 + 1e-6, 2.5, round(rng.uniform(0.2, 3.0), 3)])
        theta, variant = rng.choice([(0.0, "axis_aligned"), (0.0, "axis_aligned"), (math.pi / 2, "quarter_turn"),
                                     (round(rng.uniform(0.1, 3.0), 3), "general")])
        return {"k": "ellipse", "xc": xc, "yc": yc, "rx": rx, "ry": ry, "theta": theta}, {"variant": variant, "edges": [ca, cb]}
    if kind == "annulus":
        (xc, ca), (yc, cb) = sx(), sy()
        ri = rng.choice([0.3, 0.5 - 1e-6, 0.5 + 1e-6, 1.0 - 1e-6, round(rng.uniform(0.2, 1.5), 3)])
        ro = ri + rng.choice([0.5, 1.0 + 2e-6, round(rng.uniform(0.3, 2.0), 3)])
        return {"k": "annulus", "xc": xc, "yc": yc, "ri": ri, "ro": ro}, {"variant": "annulus", "edges": [ca, cb]}
    if kind == "polygon":
        variant = rng.choice(["convex", "star", "comb", "comb", "lattice", "lattice", "random_order"])
        hx, hy = ncx + 0.5, ncy + 0.5
        if variant in ("convex", "star"):
            m = rng.randint(3, 9)
            ang = sorted(rng.uniform(0, 2 * math.pi) for _ in range(m))
            cx, cy = rng.uniform(-0.5, ncx - 0.5), rng.uniform(-0.5, ncy - 0.5)
            a, b = rng.uniform(0.6, max(1.0, ncx)), rng.uniform(0.6, max(1.0, ncy))
            vx, vy = [], []
            for i, t in enumerate(ang):
                f = 1.0 if (variant == "convex" or i % 2 == 0) else rng.uniform(0.2, 0.6)
                vx.append(round(cx + a * f * math.cos(t), 4))
                vy.append(round(cy + b * f * math.sin(t), 4))
        elif variant == "random_order":
            m = rng.randint(3, 6)
            vx = [round(rng.uniform(-1.2, hx), 3) for _ in range(m)]
            vy = [round(rng.uniform(-1.2, hy), 3) for _ in range(m)]
        elif variant == "lattice":
            m = rng.randint(3, 7)
            vx = [float(rng.randint(-1, ncx)) + rng.choice([0.0, 0.0, 0.5]) for _ in range(m)]
            vy = [float(rng.randint(-1, ncy)) + rng.choice([0.0, 0.0, 0.5]) for _ in range(m)]
        else:
            # comb: spine along the numeric (v) axis, teeth along the categorical (u) axis, so that every category line
            # u = code cuts the polygon in several disjoint segments; built in (u, v), swapped when y is the categorical axis
            ncu = ncx if (xk == "cat" or yk != "cat") else ncy
            teeth = rng.randint(2, 4)
            u0, u1, u2 = -0.8, -0.4 + rng.choice([0.0, 0.1]), ncu - 0.5 + rng.choice([0.0, 0.2, -1.0])
            v = round(rng.uniform(-1.0, 0.5), 2)
            us, vs = [u0], [v]
            for _ in range(teeth):
                w = rng.choice([0.3, 0.5, 0.7])
                gap = rng.choice([0.2, 0.5])
                us += [u1, u2, u2 + rng.choice([0.0, 0.05]), u1]
                vs += [v, v + rng.choice([0.0, 0.03]), v + w, v + w]
                v = v + w + gap
            us.append(u0)
            vs.append(v - 0.1)
            if xk == "cat" or yk != "cat":
                vx, vy = us, vs
            else:
                vx, vy = vs, us
        closed = rng.random() < 0.35
        if closed:
            vx, vy = vx + [vx[0]], vy + [vy[0]]
        on_line = any(float(x).is_integer() for x in vx) or any(float(y).is_integer() for y in vy)
        return ({"k": "polygon", "vx": [float(x) for x in vx], "vy": [float(y) for y in vy]},
                {"variant": variant, "closed": closed, "edges": ["vertex_on_position" if on_line else "random"]})
    raise ValueError(kind)


PARAM_KEYS = ("lo", "hi", "xmin", "xmax", "ymin", "ymax", "theta", "xc", "yc", "r", "rx", "ry", "ri", "ro")


def retype(desc, ptype):
    """The descriptor with the values the typed parameters really have (float32 rounds), and a converter for them."""
    if ptype == "np_float32":
        desc = dict(desc)
        for q in PARAM_KEYS:
            if q in desc:
                desc[q] = float(np.float32(desc[q]))
        conv = np.float32
    elif ptype == "np_float64":
        conv = np.float64
    elif ptype == "int_where_integral":
        conv = lambda v: (int(v) if float(v).is_integer() and abs(v) < 1e15 else v)
    elif ptype == "np_int_where_integral":
        conv = lambda v: (np.int64(v) if float(v).is_integer() and abs(v) < 1e15 else np.float64(v))
    else:
        conv = lambda v: v
    return desc, conv


def build_roi(desc, conv=lambda v: v, vertices="list"):
    k = desc["k"]
    c = conv
    if k == "range":
        if desc["cls"] == "XRangeROI":
            return XRangeROI(c(desc["lo"]), c(desc["hi"]))
        if desc["cls"] == "YRangeROI":
            return YRangeROI(c(desc["lo"]), c(desc["hi"]))
        return RangeROI(desc["ori"], c(desc["lo"]), c(desc["hi"]))
    if k == "rect":
        return RectangularROI(c(desc["xmin"]), c(desc["xmax"]), c(desc["ymin"]), c(desc["ymax"]), c(desc["theta"]))
    if k == "circle":
        return CircularROI(c(desc["xc"]), c(desc["yc"]), c(desc["r"]))
    if k == "ellipse":
        return EllipticalROI(c(desc["xc"]), c(desc["yc"]), c(desc["rx"]), c(desc["ry"]), c(desc["theta"]))
    if k == "annulus":
        return CircularAnnulusROI(desc["xc"], desc["yc"], desc["ri"], desc["ro"])
    if k == "polygon":
        if vertices == "ndarray":
            return PolygonalROI(np.array(desc["vx"]), np.array(desc["vy"]))
        if vertices == "tuple":
            return PolygonalROI(tuple(desc["vx"]), tuple(desc["vy"]))
        return PolygonalROI(list(desc["vx"]), list(desc["vy"]))
    raise ValueError(k)


def scalable(desc):
    """Region classes that are closed under independent scaling of the two axes."""
    k = desc["k"]
    return k in ("range", "polygon", "categorical") or (k in ("rect", "ellipse") and desc["theta"] == 0.0)


def scale_xy(desc, fx, fy):
    d = dict(desc)
    k = d["k"]
    if k == "range":
        f = fx if d["ori"] == "x" else fy
        d["lo"], d["hi"] = d["lo"] * f, d["hi"] * f
    elif k == "rect":
        d["xmin"], d["xmax"], d["ymin"], d["ymax"] = d["xmin"] * fx, d["xmax"] * fx, d["ymin"] * fy, d["ymax"] * fy
    elif k == "ellipse":
        d["xc"], d["rx"], d["yc"], d["ry"] = d["xc"] * fx, d["rx"] * fx, d["yc"] * fy, d["ry"] * fy
    elif k == "polygon":
        d["vx"], d["vy"] = [v * fx for v in d["vx"]], [v * fy for v in d["vy"]]
    return d


def with_prehistory(rng, desc, conv, vertices, ctx):
    """Builds the region somewhere else / at another angle and brings it to `desc` by 1-4 move_to / rotate_to / rotate_by
    steps (several successive steps, there-and-back, the same step twice).  Returns (roi, number of steps)."""
    k = desc["k"]
    steps = 0
    off = lambda: round(rng.uniform(-3, 3), 2)
    if k == "range":
        ox = off()
        roi = build_roi(dict(desc, lo=desc["lo"] + ox, hi=desc["hi"] + ox), conv)
        target = (desc["lo"] + desc["hi"]) / 2.0
        if rng.random() < 0.5:
            roi.move_to(off())
            steps += 1
        roi.move_to(target)
        if rng.random() < 0.3:
            roi.move_to(target)                      # the same step twice
            steps += 1
        return roi, steps + 1
    if k in ("rect", "ellipse", "circle", "annulus"):
        ox, oy = off(), off()
        d0 = dict(desc)
        for q in ("xmin", "xmax", "xc"):
            if q in d0:
                d0[q] = d0[q] + ox
        for q in ("ymin", "ymax", "yc"):
            if q in d0:
                d0[q] = d0[q] + oy
        if "theta" in d0:
            d0["theta"] = round(rng.uniform(-3, 3), 2)
        roi = build_roi(d0, conv)
        cx, cy = G.centre_of(desc)
        for _ in range(rng.randint(0, 2)):
            if "theta" in d0 and rng.random() < 0.5:
                if rng.random() < 0.5:
                    roi.rotate_to(round(rng.uniform(-3, 3), 2))
                else:
                    roi.rotate_by(round(rng.uniform(-3, 3), 2))
            else:
                roi.move_to(off(), off())
            steps += 1
        roi.move_to(cx, cy)
        steps += 1
        if "theta" in d0:
            roi.rotate_to(desc["theta"])
            steps += 1
        if rng.random() < 0.3:
            roi.move_to(cx, cy)
            steps += 1
        return roi, steps
    if k == "polygon":
        ox, oy = off(), off()
        roi = build_roi(dict(desc, vx=[v + ox for v in desc["vx"]], vy=[v + oy for v in desc["vy"]]), conv, vertices)
        a = round(rng.uniform(-3, 3), 2)
        c0 = roi.center()
        if rng.random() < 0.6:
            roi.rotate_to(a)                         # there ...
            steps += 1
        if rng.random() < 0.5:
            roi.move_to(off(), off())
            steps += 1
        if roi.theta != 0:
            roi.rotate_to(0.0)                       # ... and back (rotation about the centre commutes with the moves)
            steps += 1
        roi.move_to(float(c0[0]) - ox, float(c0[1]) - oy)
        return roi, steps + 1
    raise ValueError(k)


def dispatch_path(rk, desc, xk, yk):
    if rk in ("xrange", "yrange"):
        own = xk if desc["ori"] == "x" else yk
        return "range_categorical" if own == "cat" else "range_numeric"
    if xk == "num" and yk == "num":
        return "numeric_numeric"
    if rk in ("rect", "rect_rotated"):
        return "rect_decomposed"
    if rk == "categorical":
        return "categorical_roi"
    if xk == "cat" and yk == "cat":
        return "polylike_both_categorical"
    return "polylike_x_categorical" if xk == "cat" else "polylike_y_categorical"


# ---------------------------------------------------------------- one instance
def store(ax, f):
    """Fixes the axis factor and what is really stored in the column (after the dtype cast)."""
    ax["f"] = f
    if ax["kind"] != "num":
        return
    vals = [v * f for v in ax["values"]]
    if ax["dtype"] == "<f4":
        vals = [float(np.float32(v)) for v in vals]
    ax["stored"] = vals


def run_instance(ctx, forced_kind=None, large=False):
    rng = ctx.rng
    xk, yk = rng.choice(["num", "cat"]), rng.choice(["num", "cat"])
    rk = forced_kind or rng.choice(ROI_KINDS)
    if large:
        xk, rk = "cat", rng.choice(["xrange", "rect", "categorical", "categorical"])
    if rk == "categorical":
        xk = "cat"
    n = rng.randint(1, 16) if rng.random() < 0.96 else rng.randint(100, 180)     # >= 100 rows with duplicates now and then
    ncx, ncy = rng.randint(1, 6), rng.randint(1, 6)
    if large:
        n, ncx = rng.randint(300, 500), rng.randint(40, 150)
        ctx.count("large_categorical_tables")
        ctx.count("large_categorical_tables:" + rk)
    ax = gen_axis(rng, xk, n, ncx, many=large)
    ay = gen_axis(rng, yk, n, ncy)
    for a_ in (ax, ay):
        a_["f"] = 1.0
        if a_["kind"] == "num":
            a_["stored"] = a_["values"]
    xcats, ycats = positions(ax)[1], positions(ay)[1]
    if xcats is not None:
        ncx = len(xcats)
    if ycats is not None:
        ncy = len(ycats)
    kinds = {"x_kind": xk, "y_kind": yk}
    orders = {"x_order": ax.get("order", "numeric"), "y_order": ay.get("order", "numeric")}

    # ---- the region, in the unit frame (category positions 0..n-1 on categorical axes)
    ptype, vertices, prehistory = "python", "list", False
    if rk == "categorical":
        numeric = ax["alphabet"] == "numeric"
        how = rng.choice(["any", "any", "narrow", "narrow"])
        if numeric:
            # integer labels against float-valued data: 1 selects 1.0 and nothing else (not 1.5)
            universe = sorted(set(int(v) for v in xcats)) + [7]
            chosen = rng.sample(universe, rng.randint(0, len(universe)))
            how = "integer_labels"
        elif how == "narrow":
            # only the shortest labels: the region's category array is narrower than the data's labels
            short = sorted(xcats, key=len)
            chosen = short[:rng.randint(1, max(1, len(short) // 2))]
        else:
            universe = list(xcats) + ["~absent", "zzz"]
            chosen = rng.sample(universe, rng.randint(0, len(universe)))
        container = rng.choice(["list", "ndarray", "object_ndarray"])
        if not chosen:
            arg = []
        elif container == "list":
            arg = list(chosen)
        elif container == "ndarray":
            arg = np.array(chosen)
        else:
            arg = np.array(chosen, dtype=object)
        desc = {"k": "categorical", "categories": chosen, "container": container}
        meta = {"variant": "empty" if not chosen else how, "edges": []}
        ctx.count("categorical_roi_container:" + container)
        if chosen and not numeric and max(len(c) for c in chosen) < max(len(l) for l in ax["labels"]):
            ctx.count("categorical_roi_narrower_than_data_labels")
        if numeric and chosen:
            ctx.count("categorical_roi_integer_labels_on_float_data")
    else:
        desc, meta = gen_roi(rng, rk, ncx, ncy, xk, yk)
        if desc["k"] == "range" and rng.random() < 0.06:
            # a bound beyond every machine integer: "everything above / below"
            which = rng.choice(["lo", "hi"])
            desc[which] = {"lo": rng.choice([-float("inf"), -1e300]), "hi": rng.choice([float("inf"), 1e300])}[which]
            meta["edges"] = meta["edges"] + ["unbounded"]
            meta["variant"] = "unbounded"
        if desc["k"] != "annulus" and rng.random() < 0.4:
            ptype = rng.choice(["np_float64", "np_float32", "int_where_integral", "np_int_where_integral"])
        if meta["variant"] == "unbounded" and ptype == "np_float32":
            ptype = "np_float64"
        vertices = rng.choice(["list", "list", "ndarray", "tuple"])
        small = any(a_["kind"] == "num" and a_["dtype"] in ("i1", "u1", "i2", "u8") for a_ in (ax, ay))
        if small and ptype in ("int_where_integral", "np_int_where_integral"):
            # integer region parameters on narrow / unsigned integer columns wrap around inside Roi.contains: that is C08's
            # finding C08-integer-points-integer-parameters, not a conversion matter
            ptype = "np_float64"
            ctx.count("integer_parameters_on_narrow_integer_columns_left_to_C08")
    desc, conv = retype(desc, ptype)

    # ---- magnitude classes of the numeric axes: the real objects live in a frame scaled by (fx, fy); the reference works
    # in the unit frame (scaling an axis is a bijection that preserves containment)
    fx = fy = 1.0
    plain_float = lambda a_: a_["kind"] == "num" and a_["dtype"] in ("<f8", ">f8", "<f4", "dask_f8")
    # (numpy integer parameters are not combined with large factors: radius ** 2 overflows int64 - see notes)
    if scalable(desc) and ptype not in ("np_float32", "np_int_where_integral") and meta["variant"] != "unbounded" and rng.random() < 0.3:
        if plain_float(ax):
            fx = rng.choice(MAGNITUDES)
        if plain_float(ay) and rng.random() < 0.7:
            fy = rng.choice(MAGNITUDES)
    store(ax, fx)
    store(ay, fy)
    px, _ = positions(ax)
    py, _ = positions(ay)

    d = Data(label="d")
    make_column(d, "x", ax)
    make_column(d, "y", ay)
    xa, ya = d.id["x"], d.id["y"]
    x_categories = d.get_component(xa).categories if xk == "cat" else None
    y_categories = d.get_component(ya).categories if yk == "cat" else None

    # the harness's positions must be the positions glue plots (codes) - otherwise the comparison is meaningless
    for name, comp_att, pos, cats, cat_arr in (("x", xa, px, xcats, x_categories), ("y", ya, py, ycats, y_categories)):
        if cats is None:
            continue
        ctx.count("category_code_comparisons")
        codes = np.asarray(d.get_component(comp_att).codes, dtype=float)
        a_ = ax if name == "x" else ay
        ctx.count("categorical_axis_jitter:" + a_["jitter"])
        if a_["jitter"] == "uniform":
            same = bool(np.array_equal(np.isnan(codes), np.isnan(pos)) and np.all(np.abs(codes - pos)[~np.isnan(pos)] <= 0.5))
        else:
            same = bool(np.array_equal(codes, pos, equal_nan=True))
        if list(cat_arr) != list(cats) or not same:
            ctx.violation({"kind": "category_codes_mismatch", "order": orders[name + "_order"]},
                          {"labels": (ax if name == "x" else ay)["labels"], "categories": cats, "glue_categories": list(cat_arr),
                           "codes": codes, "expected": pos})
            return

    path = dispatch_path(rk, desc, xk, yk)
    rotated = bool(desc.get("theta", 0.0) % math.pi != 0.0) if "theta" in desc else False
    magnitude = sorted(set("%g" % f for f in (fx, fy) if f != 1.0))
    dtypes = sorted(set(a_["dtype"] for a_ in (ax, ay) if a_["kind"] == "num" and a_["dtype"] != "<f8"))
    detail = lambda **kw: dict({"roi": desc, "meta": meta, "x": ax, "y": ay, "param_type": ptype, "vertices": vertices}, **kw)
    jitters = sorted(set(a_["jitter"] for a_ in (ax, ay) if a_["kind"] == "cat" and a_["jitter"] != "none"))
    sig_base = dict(kinds, path=path, rotated=rotated, param_type=ptype, axis_factors=magnitude, numeric_dtypes=dtypes, jitter=jitters)
    if rk == "categorical":
        roi = CategoricalROI(arg)
        member = set(chosen)
        inside = np.array([l in member for l in ax["labels"]], dtype=bool)
        band = np.zeros(n, dtype=bool)
        mul = 0.0
    else:
        real = scale_xy(desc, fx, fy)
        try:
            area_ok = desc["k"] != "polygon" or abs(G.poly_signed_area(desc["vx"], desc["vy"])) >= 1e-2
            # (a region with edges at 1e6 .. 1e12 cannot be moved without losing its near edges to rounding: not moved)
            if fx == fy == 1.0 and meta["variant"] != "unbounded" and area_ok and G.magnitude_of(desc) < 50 and rng.random() < 0.3:
                roi, nsteps = with_prehistory(rng, real, conv, vertices, ctx)
                prehistory = True
                ctx.count("regions_brought_into_place_by_move_rotate")
                ctx.count("prehistory_steps", nsteps)
            else:
                roi = build_roi(real, conv, vertices)
        except Exception as exc:
            ctx.violation(dict(sig_base, roi=CLASS_OF[desc["k"]], kind="exception", stage="build_or_move_region", exc=type(exc).__name__),
                          detail(error=repr(exc)[:300]))
            return
        mul = 0.0
    cname = type(roi).__name__
    sig_base = dict(sig_base, roi=cname, moved_before=prehistory)

    if rk != "categorical":
        if path in ("polylike_x_categorical", "polylike_y_categorical") and desc["k"] in ("circle", "ellipse", "annulus"):
            mul = POLY_MUL
        if path in ("polylike_x_categorical", "polylike_y_categorical") and desc["k"] == "rect":
            mul = 0.0
        finite = np.concatenate([px[np.isfinite(px)], py[np.isfinite(py)], [1.0]])
        posmag = float(np.abs(finite).max())
        # the conversion compares exactly; the margin only has to absorb rounding of positions of this magnitude
        add = TOLF * max(posmag, min(G.scale_of(desc), 100.0) if meta["variant"] != "unbounded" else 1.0) + TOLA
        if prehistory:
            add = add * 10 + 1e-12
        single = ptype == "np_float32" or any(a_["kind"] == "num" and a_["dtype"] == "<f4" for a_ in (ax, ay))
        if single:
            add = max(add, TOL32 * max(posmag, min(G.scale_of(desc), 100.0) if meta["variant"] != "unbounded" else 1.0))
            ctx.count("instances_with_single_precision_band")
        if desc["k"] == "range":
            # a range only constrains its own axis; whether an element that cannot be plotted on the other axis (NaN) is
            # "in the region" is not settled by the statement: such elements are excluded and counted
            own, other = (px, py) if desc["ori"] == "x" else (py, px)
            unplottable = ~np.isfinite(other)
            ctx.count("range_elements_excluded_other_coordinate_nan", int((unplottable & np.isfinite(own)).sum()))
            sub = np.where(unplottable, 0.0, other)
            inside, band = G.classify(desc, *((px, sub) if desc["ori"] == "x" else (sub, py)), mul=mul, add=add)
            band = band | (unplottable & np.isfinite(own))
        else:
            inside, band = G.classify(desc, px, py, mul=mul, add=add)

    # ---- conversion and evaluation, through one of several routes
    via = rng.choice(["get_mask", "get_mask", "get_mask_twice", "state_copy", "subset_in_collection", "fault_first"])
    try:
        state = roi_to_subset_state(roi, x_att=xa, y_att=ya, x_categories=x_categories, y_categories=y_categories)
    except Exception as exc:
        ctx.violation(dict(sig_base, kind="exception", stage="roi_to_subset_state", exc=type(exc).__name__,
                           edge_classes=sorted(set(meta["edges"]))), detail(error=repr(exc)[:300]))
        return
    try:
        if via == "fault_first":
            # a failing call on the same objects first: a selection over a foreign attribute
            foreign = Data(q=[1.0, 2.0], label="foreign")
            try:
                d.get_mask(roi_to_subset_state(XRangeROI(0, 1), x_att=foreign.id["q"], y_att=ya, y_categories=y_categories))
                ctx.count("fault_call_did_not_raise")
            except Exception:
                ctx.count("fault_calls_raised")
            got = np.asarray(d.get_mask(state))
        elif via == "get_mask_twice":
            first = np.asarray(d.get_mask(state)).copy()
            got = np.asarray(d.get_mask(state))
            if not np.array_equal(first, got):
                ctx.violation(dict(sig_base, kind="second_evaluation_differs", state=type(state).__name__), detail(first=first, second=got))
                return
        elif via == "state_copy":
            got = np.asarray(d.get_mask(state.copy()))
        elif via == "subset_in_collection":
            dc = DataCollection([d])
            dc.new_subset_group(subset_state=state, label="s")
            got = np.asarray(d.subsets[0].to_mask())
        else:
            got = np.asarray(d.get_mask(state))
    except Exception as exc:
        ctx.violation(dict(sig_base, kind="exception", stage="get_mask", via=via, exc=type(exc).__name__, state=type(state).__name__),
                      detail(error=repr(exc)[:300]))
        return
    got = got.view(np.ndarray)

    ctx.count("via:" + via)
    ctx.count("param_type:" + ptype)
    if desc["k"] == "polygon":
        ctx.count("polygon_vertices:" + vertices)
    for f in (fx, fy):
        if f != 1.0:
            ctx.count("axis_factor:%g" % f)
    for a_ in (ax, ay):
        if a_["kind"] == "num":
            ctx.count("numeric_dtype:" + a_["dtype"])
    if n >= 100:
        ctx.count("tables_with_100_or_more_rows")
    if xk == "cat" and yk == "cat" and ncx != ncy:
        ctx.count("both_categorical_unequal_category_counts")
        if path == "polylike_both_categorical":
            ctx.count("polylike_both_categorical_unequal_category_counts")
    ctx.count("path:" + path)
    ctx.count("axis_kinds:%s_%s" % (xk, yk))
    ctx.count("roi:" + cname)
    ctx.count("roi_kind:" + rk + ":" + meta["variant"])
    ctx.count("path_x_axis:%s:%s_%s" % (path, xk, yk))
    for o in (orders["x_order"], orders["y_order"]):
        if o != "numeric":
            ctx.count("category_order:" + o)
    alphabets = sorted(a_["alphabet"] for a_ in (ax, ay) if a_["kind"] == "cat")
    for a_ in (ax, ay):
        if a_["kind"] == "cat":
            ctx.count("label_alphabet:" + a_["alphabet"])
            ctx.count("path_alphabet:%s:%s" % (path, a_["alphabet"]))
            if a_["order"] == "custom_missing_label" and a_["alphabet"] != "numeric" and \
                    any(len(l) > max(len(c) for c in a_["categories"]) for l in a_["labels"]):
                ctx.count("axes_with_data_label_wider_than_categories")
    for e in meta["edges"]:
        ctx.count("edge_class:" + e)
    ctx.count("state_class:" + type(state).__name__)
    if got.shape != (n,) or got.dtype.kind != "b":
        ctx.violation(dict(sig_base, kind="mask_shape_or_dtype", state=type(state).__name__), detail(shape=list(got.shape), dtype=str(got.dtype)))
        return
    cmp_ = ~band
    ncmp, nin = int(cmp_.sum()), int((inside & cmp_).sum())
    ctx.count("elements_compared", ncmp)
    ctx.count("elements_compared_selected", nin)
    ctx.count("elements_in_boundary_band_excluded", int(band.sum()))
    ctx.count("elements_with_nan_position", int((~np.isfinite(px) | ~np.isfinite(py)).sum()))
    pattern = "".join("b" if b else ("1" if i else "0") for i, b in zip(inside, band))
    if n > 40:
        pattern = "long:%d:%d" % (int(inside.sum()), int(band.sum()))
    ctx.evaluation([path, cname, xk, yk, orders, alphabets, meta["variant"], sorted(set(meta["edges"])), ncx, ncy, pattern,
                    ptype, magnitude, dtypes, via, prehistory],
                   nontrivial=(0 < nin < ncmp))
    bad = (got != inside) & cmp_
    if bad.any():
        try:
            if rk == "categorical":
                agrees = None
            else:
                rc = np.asarray(roi.contains(px, py))
                agrees = bool(np.array_equal(rc[cmp_], got[cmp_]))
        except Exception:
            agrees = None
        missing, extra = bool((bad & inside).any()), bool((bad & ~inside).any())
        sig = dict(sig_base, kind="selection_mismatch", state=type(state).__name__, variant=meta["variant"], via=via,
                   edge_classes=sorted(set(meta["edges"])),
                   direction="both" if missing and extra else ("missing" if missing else "extra"),
                   mask_equals_roi_contains=agrees)
        if path != "numeric_numeric":
            sig["category_order"] = sorted(set(o for o in orders.values() if o != "numeric"))
            sig["label_alphabet"] = alphabets
        if desc["k"] == "annulus":
            # the keyhole polygon of an annulus has a double edge ("seam") from (xc+ri, yc) to (xc+ro, yc)
            on_seam = (py == desc["yc"]) & (px >= desc["xc"] + desc["ri"] - add) & (px <= desc["xc"] + desc["ro"] + add)
            sig["mismatches_only_on_annulus_seam"] = bool(on_seam[bad].all())
        ctx.violation(sig, detail(px=px, py=py, got=got, expected=inside, band=band))
    elif rng.random() < 0.002:
        ctx.sample({"path": path, "roi": desc, "x": ax, "y": ay, "mask": got.astype(int).tolist()})


# ---------------------------------------------------------------- driver
def cases(tier, seed):
    for b in range(N_BLOCKS[tier]):
        yield ["blk", b]


def run_case(ctx, case):
    for i in range(PER_BLOCK):
        # every region kind is forced in turn so that no class depends on luck; the rest is random
        forced = ROI_KINDS[i % len(ROI_KINDS)] if i < 2 * len(ROI_KINDS) else None
        run_instance(ctx, forced)
    if case[1] % 2 == 0:
        run_instance(ctx, large=True)
    ctx.count("blocks")


def floors(counters, tier):
    out = []
    g = counters.get
    for p in PATHS:
        if g("path:" + p, 0) < 60:
            out.append("fewer than 60 instances on dispatch path %s" % p)
    for k in ("num_num", "num_cat", "cat_num", "cat_cat"):
        if g("axis_kinds:" + k, 0) < 200:
            out.append("fewer than 200 instances with axis kinds %s" % k)
    for o in ("default", "custom_permuted", "custom_with_absent_categories", "custom_missing_label"):
        if g("category_order:" + o, 0) < 100:
            out.append("fewer than 100 categorical axes with order %s" % o)
    for a in ("plain", "prefix", "numeric"):
        if g("label_alphabet:" + a, 0) < 150:
            out.append("fewer than 150 categorical axes with label alphabet %s" % a)
        for p in ("range_categorical", "rect_decomposed", "categorical_roi"):
            if g("path_alphabet:%s:%s" % (p, a), 0) < 25:
                out.append("fewer than 25 instances on path %s with label alphabet %s" % (p, a))
    for c in ("list", "ndarray", "object_ndarray"):
        if g("categorical_roi_container:" + c, 0) < 40:
            out.append("fewer than 40 CategoricalROI regions built from a %s" % c)
    for k, need in (("categorical_roi_narrower_than_data_labels", 40), ("categorical_roi_integer_labels_on_float_data", 25),
                    ("axes_with_data_label_wider_than_categories", 40)):
        if g(k, 0) < need:
            out.append("fewer than %d %s" % (need, k))
    for e in ("on_position", "position_pm_1e-6", "half_position", "vertex_on_position"):
        if g("edge_class:" + e, 0) < 100:
            out.append("fewer than 100 region edges of class %s" % e)
    if g("large_categorical_tables", 0) < 30:
        out.append("fewer than 30 tables with 40-150 categories and 300+ rows")
    for j in ("none", "uniform", "on_then_off"):
        if g("categorical_axis_jitter:" + j, 0) < 200:
            out.append("fewer than 200 categorical axes with jitter %s" % j)
    for v in ("get_mask", "get_mask_twice", "state_copy", "subset_in_collection", "fault_first"):
        if g("via:" + v, 0) < 150:
            out.append("fewer than 150 masks obtained via %s" % v)
    for f in MAGNITUDES:
        if g("axis_factor:%g" % f, 0) < 20:
            out.append("fewer than 20 numeric axes at magnitude %g" % f)
    for dt in ("<f8", "<f4", ">f8", "i1", "u1", "i2", "<i4", "<i8", "u8", "dask_f8"):
        if g("numeric_dtype:" + dt, 0) < 100:
            out.append("fewer than 100 numeric columns of dtype %s" % dt)
    for pt in ("python", "np_float64", "np_float32", "int_where_integral", "np_int_where_integral"):
        if g("param_type:" + pt, 0) < 80:
            out.append("fewer than 80 regions with parameter type %s" % pt)
    for vt in ("list", "ndarray", "tuple"):
        if g("polygon_vertices:" + vt, 0) < 40:
            out.append("fewer than 40 polygons with vertices given as %s" % vt)
    for k, need in (("edge_class:position_pm_1e-9", 200), ("edge_class:beyond_categories", 150), ("edge_class:unbounded", 20),
                    ("tables_with_100_or_more_rows", 40), ("polylike_both_categorical_unequal_category_counts", 100),
                    ("regions_brought_into_place_by_move_rotate", 150), ("fault_calls_raised", 150)):
        if g(k, 0) < need:
            out.append("fewer than %d %s" % (need, k))
    ec, es = g("elements_compared", 0), g("elements_compared_selected", 0)
    if ec < 8000:
        out.append("fewer than 8000 elements compared")
    if ec and es < 0.08 * ec:
        out.append("fewer than 8 % of the compared elements are selected")
    return out
