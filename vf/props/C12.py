"""C12 - every registered serialisation protocol version still loads what it wrote.

Three parts.
(1) registry: the saver / loader version tables of the real
    `GlueSerializer.dispatch` / `GlueUnSerializer.dispatch` are enumerated
    completely (consecutive from 1, every saver version has a loader where the
    type has loaders at all, the `VersionedDict` API refuses overwriting and
    skipping), and the whole rename table `PATH_PATCHES` is walked with a
    visited set (terminates; in-package targets import; a key never is the
    dotted name of a class this package still defines).
(2) pinned trips: the C02 session recipes are written by the REAL registered
    saver of version dv for `Data` and cv for `DataCollection` (a harness
    subclass of GlueSerializer only picks `dispatch.get_version(type, v)`;
    everything else uses the newest), loaded by the real GlueUnSerializer, and
    `observe()` of the result must equal `observe()` of the original on
    everything that version can represent.  All 5 x 4 version pairs.
(3) newest: unpinned saves must carry the highest registered protocol number
    for every record, and load back.
"""
from glue.core import Data, DataCollection
from glue.core.state import (GlueSerializer, GlueUnSerializer, PATH_PATCHES, VersionedDict, lookup_class_with_patches)
from glue.utils import lookup_class

from vf import lib_C02_histories as H
from vf import lib_C02_sessions as L
from vf.props import C02 as P02

ID = "C12"
LEVEL = "exploration"
BUDGET_S = {"quick": 26.0, "thorough": 150.0}
RULE = ("registry case: every (type, version) entry of both dispatch tables and every line of the rename table is "
        "checked once (exhaustive). pinned cases: blocks of seeded C02 session recipes written with Data pinned to "
        "version dv in 1..5 and DataCollection pinned to cv in 1..4 (20 pairs, round-robin), restricted to what the "
        "pinned versions can represent (no key joins below Data v3, element selections not bound to a dataset uuid "
        "below v4, no metadata below v5, no JoinLink below DataCollection v4). One evaluation = one session compared "
        "original vs loaded-from-the-old-format; non-trivial when it holds a subset group, link, join or derived "
        "column; distinct = distinct (dv, cv, structural descriptor). Every loaded collection whose comparison was "
        "clean is then used (a dataset appended and removed again) and its behaviour compared with the original's "
        "(liveness_after_load; DataCollection versions >= 2).")
ASSUMPTIONS = [
    "records 'in version v's format' are produced by the saver registered for version v applied to today's objects "
    "(there is no archive of historical files); everything that is not Data / DataCollection is written by its newest saver",
    "what a version can represent is read off its saver: Data v1 has no style, v<3 no key joins, v<4 no uuid, v<5 no "
    "metadata / component ownership; DataCollection v1 has no group list, v<3 no group counter, v<4 stores the flat list "
    "of component links instead of link helpers (so the number of external link objects and JoinLink are not compared there)",
    "LoadLog's internal _protocol (0/1/2) has no registered saver for the old values and is not covered",
    "C02's observe() is the notion of equivalence",
]
ANCHORS = ["glue.core.state:VersionedDict.__setitem__", "glue.core.state:VersionedDict.get_version",
           "glue.core.state:GlueUnSerializer._dispatch", "glue.core.state:lookup_class_with_patches",
           "glue.core.state:_load_data", "glue.core.state:_load_data_2", "glue.core.state:_load_data_3",
           "glue.core.state:_load_data_4", "glue.core.state:_load_data_5", "glue.core.state:_load_data_collection",
           "glue.core.state:_load_data_collection_2", "glue.core.state:_load_data_collection_3",
           "glue.core.state:_load_data_collection_4", "glue.core.state:_save_data_3", "glue.core.state:_save_data_4",
           "glue.core.state:_save_data_collection", "glue.core.state:_save_data_collection_4"]

BLOCK = 8
N_ROUNDS = {"quick": 30, "thorough": 160}       # blocks per (dv, cv) pair
N_NEWEST = {"quick": 30, "thorough": 80}
N_TYPES = {"quick": 4, "thorough": 40}
# registered types that deliberately have no per-type recipe (none at present; a type registered in future without a
# recipe makes the run INCONCLUSIVE until it is given one or is listed here with a reason)
TYPES_WITHOUT_RECIPE = set()
PAIRS = [(dv, cv) for dv in (1, 2, 3, 4, 5) for cv in (1, 2, 3, 4)]


def cases(tier, seed):
    yield ["registry"]
    yield ["rename_resolver"]
    for i in range(N_TYPES[tier]):
        yield ["types", i]
    for r in range(N_ROUNDS[tier]):
        for (dv, cv) in PAIRS:
            yield ["pin", dv, cv, r]
        if r < N_NEWEST[tier]:
            yield ["newest", r]
        yield ["mixed", r]


# ---------------------------------------------------------------- version projection
def projection(dv, cv):
    """-> (session options, aspects not compared)"""
    opts, skip = {}, set()
    if dv < 5:
        opts["meta"] = False
        skip.add("meta")
    if dv < 4:
        opts["element_with_data"] = False
    if dv < 3:
        opts["joins"] = False
    if dv < 2:
        skip.add("style")
    if cv < 4:
        opts["exclude_links"] = ("JoinLink",)
        skip.add("link_count")
    if cv < 2:
        skip.add("groups")
    return opts, skip


SAFE_HISTORIES = ["readd", "remove_group_middle", "undo_redo", "change_values", "change_labels_styles", "group_in_the_middle",
                  "relink_stepwise", "set_links_atomic"]


def mixed_case(ctx):
    """Several protocol versions of ONE type in one file, loaded by one unserializer: every dataset of a session is
    written with its own Data version (both orders: older first / newer first), the collection with a random version."""
    for b in range(BLOCK):
        n = ctx.rng.choice([2, 3])
        dvs = [ctx.rng.randint(1, 5) for _ in range(n)]
        if len(set(dvs)) == 1:
            dvs[ctx.rng.randrange(n)] = 1 + dvs[0] % 5
        cv = ctx.rng.randint(1, 4)
        opts, skip = projection(min(dvs), cv)
        opts["n_data"] = n
        ses = L.build_session(ctx.rng, opts, None)
        by_id = {id(h.data): v for h, v in zip(ses.ds, dvs)}
        ctx.count("mixed:order:%s" % ("older_first" if dvs[0] < dvs[-1] else "newer_first" if dvs[0] > dvs[-1] else "other"))
        run_pinned(ctx, ses, dvs, cv, skip, pins={Data: lambda obj: by_id.get(id(obj), 5), DataCollection: cv})


def run_pinned(ctx, ses, dv, cv, skip, pins=None):
    desc, dc = ses.desc, ses.dc
    mixed = isinstance(dv, list)
    if pins is None:
        pins = {}
        if dv is not None:
            pins = {Data: dv, DataCollection: cv}
    tag = "newest" if dv is None else ("mixed" if mixed else "data_v%d_dc_v%d" % (dv, cv))
    ctx.count("sessions_generated")
    ctx.count("sessions_generated:" + tag)
    nontrivial = bool(desc["groups"] or desc["links"] or desc["joins"] or any(d["derived"] for d in desc["data"]))
    fp = [dv, cv, P02.fingerprint(desc)]
    obs0 = L.observe(dc)
    trace = {}
    try:
        text = L.save(dc, include_data=True, pins=pins, trace=trace)
    except Exception as exc:
        ctx.count("save_refused")
        ctx.count("save_refused:%s:%s:%s" % (tag, getattr(exc, "_vf_class", "?"), type(exc).__name__))
        ctx.evaluation(fp, False)
        return
    # the record really is in the pinned format / an unpinned save uses the newest registered version
    import json
    rec = json.loads(text)
    for name, r in rec.items():
        t = r.get("_type")
        if t == "glue.core.data.Data" and mixed:
            ctx.count("mixed:data_record_protocol:%d" % r.get("_protocol", 1))
        elif t == "glue.core.data.Data":
            want = dv if dv is not None else max(GlueSerializer.dispatch._data[Data])
            ctx.count("record_protocol_checked")
            if r.get("_protocol", 1) != want:
                ctx.violation({"what": "record_protocol", "type": "Data", "pinned": dv is not None},
                              {"wanted": want, "got": r.get("_protocol", 1)})
        elif t == "glue.core.data_collection.DataCollection":
            want = cv if dv is not None else max(GlueSerializer.dispatch._data[DataCollection])
            ctx.count("record_protocol_checked")
            if r.get("_protocol", 1) != want:
                ctx.violation({"what": "record_protocol", "type": "DataCollection", "pinned": dv is not None},
                              {"wanted": want, "got": r.get("_protocol", 1)})
    ltrace = {}
    try:
        dc1 = L.load(text, trace=ltrace)
    except Exception as exc:
        ctx.count("load_raised")
        ctx.evaluation(fp, nontrivial)
        sig = P02.exc_signature("load_raises", exc, 1, desc)
        sig.update(version_keys(dv, cv))
        ctx.violation(sig, {"desc": desc, "error": repr(exc)[:300]})
        return
    for k, v in ltrace.get("loaders", {}).items():
        if k.startswith(("Data@", "DataCollection@")):
            ctx.count("loader_used:" + k, v)
    obs1 = L.observe(dc1)
    ctx.count("sessions_compared")
    ctx.count("sessions_compared:" + tag)
    diffs = L.diff_obs(obs0, obs1, skip=skip)
    seen = set()
    for df in diffs:
        sig = P02.signature_for(df, 1, ses, dc, dc1)
        sig.update(version_keys(dv, cv))
        if df[0] == "external_link_table":
            sig["links_within_one_dataset_after"] = df[3]["links_within_one_dataset_after"] > 0
        if df[0] == "component_list":
            fams = set()
            for (lab, kind) in df[3]["missing"]:
                for d in desc["data"]:
                    if lab in d["derived"]:
                        fams.add(L.DERIVED_FAMILY[d["derived"][lab]])
            sig["missing_families"] = "+".join(sorted(fams)) or "none"
        key = repr(sorted(sig.items()))
        if key not in seen:
            seen.add(key)
            ctx.violation(sig, {"desc": desc, "difference": df})
    if cv is None or cv >= 3:
        n0, n1 = L.observe_destructive(dc), L.observe_destructive(dc1)
        ctx.count("next_group_label_compared")
        for k in n0:
            if n0[k] != n1.get(k):
                sig = {"what": "next_group", "how": k, "generation": 1}
                sig.update(version_keys(dv, cv))
                ctx.violation(sig, {"desc": desc, "before": n0, "after": n1})
    if not diffs and "groups" not in (skip or ()):
        # (DataCollection protocol 1 never stored groups: nothing to keep alive there)
        # the loaded collection still works as one: same behaviour as the original when a dataset is added and removed
        # (a group that a loader forgot to subscribe to the collection's hub looks identical until then)
        l0, l1 = L.observe_liveness(dc), L.observe_liveness(dc1)
        ctx.count("liveness_compared")
        if desc["groups"]:
            ctx.count("liveness_compared_with_groups:" + tag)
        for k in sorted(set(l0) | set(l1)):
            if l0.get(k) != l1.get(k):
                sig = {"what": "liveness_after_load", "how": k, "generation": 1}
                sig.update(version_keys(dv, cv))
                ctx.violation(sig, {"desc": desc, "before": l0, "after": l1})
    ctx.count("observations_compared", P02.count_observations(obs0))
    ctx.count("subset_masks_nonempty", sum(1 for d in obs0["data"] for s in d["subsets"]
                                           if s["mask"][0] == "value" and s["mask"][1].any()))
    ctx.count("foreign_attributes_readable", sum(1 for d in obs0["data"] for v in d["foreign"].values() if v[0] == "value"))
    if desc["joins"]:
        ctx.count("sessions_compared_with_key_join:" + tag)
    if any(d["derived"] for d in desc["data"]):
        ctx.count("sessions_compared_with_derived:" + tag)
    if desc["groups"]:
        ctx.count("sessions_compared_with_groups:" + tag)
    if desc["links"]:
        ctx.count("sessions_compared_with_links:" + tag)
        ctx.count("external_link_table_rows_compared:" + tag, len(obs0["link_table"]))
    if any(l["kind"] == "ComponentLink_mixed" for l in desc["links"]):
        ctx.count("sessions_compared_with_mixed_input_link:" + tag)
    if any("coordinate_components_out_of_axis_order" in d.get("variants", []) for d in desc["data"]):
        ctx.count("sessions_compared_with_reordered_coordinates:" + tag)
    if desc["links"] and all(d["coords"] not in (None, "wcs") and "function" in d["derived"].values() for d in desc["data"]):
        ctx.count("sessions_compared_with_coords_internal_and_external_links:" + tag)
    ctx.evaluation(fp, nontrivial)
    if not diffs and ctx.rng.random() < 0.003:
        ctx.sample({"data_version": dv, "dc_version": cv, "descriptor": desc})


def version_keys(dv, cv):
    if dv is None:
        return {"pinned": False}
    if isinstance(dv, list):
        return {"pinned": True, "mixed_data_versions": True, "data_version": min(dv), "dc_version": cv, "old_dc_loader": cv <= 3}
    return {"pinned": True, "data_version": dv, "dc_version": cv, "old_dc_loader": cv <= 3}


def run_case(ctx, case):
    if case[0] == "registry":
        registry_case(ctx)
        return
    if case[0] == "types":
        types_case(ctx)
        return
    if case[0] == "rename_resolver":
        rename_resolver_case(ctx)
        return
    if case[0] == "mixed":
        mixed_case(ctx)
        return
    if case[0] == "pin":
        _, dv, cv, r = case
        opts, skip = projection(dv, cv)
        for b in range(BLOCK):
            o = dict(opts)
            if b == 0 and dv >= 3:
                o["want_join"] = ctx.rng.choice(L.JOIN_SHAPES)      # make sure every pair sees key joins
            elif b == 2 and dv >= 3 and cv >= 4:
                o["history"] = "remove_last"     # dataset removed before saving, still reachable through a key join
            elif b == 6:
                # a two-input link with one input in the output's own dataset and one foreign: stays external
                o["want_link"] = "ComponentLink_mixed"
                o["n_data"] = ctx.rng.choice([2, 3])
            elif b == 7:
                o["special"] = "coords_reordered"
            elif b == 4:
                o["special"] = "parsed_same_label"
            elif b == 5 and dv >= 4:
                o["special"] = "element_bound"
            elif b == 3:
                hist = ctx.rng.choice(SAFE_HISTORIES)
                o.update(H.HISTORY_OPTS[hist])
                # histories that move a dataset would put a flood fill on a later dataset (C02's known load failure)
                o["exclude_leaves"] = ("floodfill",)
            elif b == 1:
                # world coordinates + a function-link derived column inside every dataset + one external link:
                # v1-v3 records mix coordinate, internal and external links in one list and the loader must split them
                o["want_link"] = ctx.rng.choice([k for k in L.LINK_KINDS if k not in opts.get("exclude_links", ())
                                                 and k != "WCSLink"])
                o["force_data"] = {"coords": ctx.rng.choice(["identity", "diagonal", "full", "coupled_symmetric"]),
                                   "derived": ["function"]}
            ses = L.build_session(ctx.rng, o, None)
            if b == 3:
                try:
                    tag = H.apply_history(ctx.rng, ses, hist)
                except Exception as exc:
                    ctx.count("history_raised:%s:%s" % (hist, type(exc).__name__))
                    continue
                if tag is None:
                    ctx.count("history_not_applicable:" + hist)
                else:
                    ses.desc["history"] = tag
                    ctx.count("pinned_sessions_with_history:" + hist)
            run_pinned(ctx, ses, dv, cv, skip)
    elif case[0] == "newest":
        # C02 owns the newest format; here only "a save uses the newest version and that version loads"
        opts = {}
        for _ in range(BLOCK):
            ses = L.build_session(ctx.rng, opts, None)
            run_pinned(ctx, ses, None, None, set())


# ---------------------------------------------------------------- per-type family
def import_everything(ctx=None):
    import importlib
    import pkgutil
    for pkgname in ("glue.core", "glue.viewers", "glue.plugins"):
        pkg = importlib.import_module(pkgname)
        for m in pkgutil.walk_packages(pkg.__path__, pkgname + "."):
            if ".tests" in m.name or "qt" in m.name:
                continue
            try:
                importlib.import_module(m.name)
            except Exception:
                if ctx is not None:
                    ctx.count("registry:module_not_importable")


def types_case(ctx):
    """Every (type, version) in the saver registry x its recipes: written by that registered saver, loaded by the real
    unserializer, compared by class, by value and by reference structure."""
    from vf import lib_C12_types as T
    import_everything()
    S, U = GlueSerializer.dispatch._data, GlueUnSerializer.dispatch._data
    for typ, versions in S.items():
        name = tname(typ)
        if name.startswith(("VfProbe", "_HarnessPrivate")):
            continue
        recipes = T.RECIPES.get(name)
        for v in sorted(versions):
            key = "%s@%d" % (name, v)
            if not recipes:
                ctx.count("type_family:no_recipe:" + key)
                continue
            for recipe in recipes:
                if v < getattr(recipe, "min_version", 1):
                    continue
                rname = recipe.__name__
                graph, check = recipe(ctx.rng)
                pins = {typ: v} if len(versions) > 1 else {}
                trace = {}
                ctx.count("type_family:trips_attempted")
                try:
                    text = L.save(graph, include_data=True, pins=pins, trace=trace)
                except Exception as exc:
                    ctx.count("type_family:save_refused:%s:%s" % (key, type(exc).__name__))
                    ctx.evaluation(["type", key, rname], False)
                    continue
                used = ("%s@%d" % (name, v)) in trace.get("savers", {})
                if used:
                    ctx.count("type_family:saver_exercised:" + key)
                if typ not in U or v not in U[typ]:
                    # a saver without loader (Session) is outside the statement's (saver AND loader) pairs
                    ctx.count("type_family:no_loader:" + key)
                    ctx.evaluation(["type", key, rname], False)
                    continue
                try:
                    loaded = L.load(text)
                except Exception as exc:
                    ctx.evaluation(["type", key, rname], True)
                    ctx.violation({"what": "type_load_raises", "type": name, "version": v, "recipe": rname,
                                   "exc": type(exc).__name__, "failing_type": getattr(exc, "_vf_type", None)},
                                  {"error": repr(exc)[:300]})
                    continue
                problems = check(loaded)
                ctx.evaluation(["type", key, rname], True)
                ctx.count("type_family:trips_compared")
                ctx.count("type_family:compared:" + key)
                if "direct" in graph:
                    ctx.count("type_family:sharing_checked:" + key)
                seen = set()
                for kind, detail in problems:
                    if kind in seen:
                        continue
                    seen.add(kind)
                    ctx.violation({"what": "type_" + kind + "_differs" if kind != "sharing" else "type_sharing_lost",
                                   "type": name, "version": v, "recipe": rname}, {"problem": detail})


# ---------------------------------------------------------------- registry
def tname(t):
    return getattr(t, "__name__", repr(t))


def registry_case(ctx):
    # make sure everything that registers savers / rename targets is imported
    import importlib
    import pkgutil
    for pkgname in ("glue.core", "glue.viewers", "glue.plugins"):
        pkg = importlib.import_module(pkgname)
        for m in pkgutil.walk_packages(pkg.__path__, pkgname + "."):
            if ".tests" in m.name or "qt" in m.name:
                continue
            try:
                importlib.import_module(m.name)
            except Exception:
                ctx.count("registry:module_not_importable")
    S, U = GlueSerializer.dispatch._data, GlueUnSerializer.dispatch._data
    for table, side in ((S, "saver"), (U, "loader")):
        for typ, versions in table.items():
            if tname(typ).startswith(("VfProbe", "_HarnessPrivate")):
                continue
            ctx.count("registry:%s_types" % side)
            vs = sorted(versions)
            ctx.count("registry:%s_versions" % side, len(vs))
            ctx.evaluation(None, False)
            if vs != list(range(1, len(vs) + 1)):
                ctx.violation({"what": "versions_not_consecutive_from_1", "side": side, "type": tname(typ)}, {"versions": vs})
            for v in vs:
                if not callable(versions[v]):
                    ctx.violation({"what": "registered_entry_not_callable", "side": side, "type": tname(typ)}, {"version": v})
            ctx.count("registered_%s:%s@%d" % (side, tname(typ), max(vs)))
            for v in vs:
                ctx.count("registered_%s_version:%s@%d" % (side, tname(typ), v))
            if len(vs) > 1:
                ctx.count("registry:multi_version_%s:%s" % (side, tname(typ)))
    for typ, versions in S.items():
        if typ not in U:
            ctx.count("registry:saver_only_type:" + tname(typ))     # e.g. Session: re-created by the application
            continue
        for v in sorted(versions):
            ctx.evaluation(None, False)
            ctx.count("registry:saver_loader_pairs_checked")
            if v not in U[typ]:
                ctx.violation({"what": "saver_version_without_loader", "type": tname(typ),
                               "is_newest": v == max(versions)}, {"version": v, "loaders": sorted(U[typ])})
    for typ, versions in U.items():
        if typ in S:
            for v in versions:
                if v not in S[typ]:
                    ctx.count("registry:loader_version_without_saver:%s@%d" % (tname(typ), v))
        else:
            ctx.count("registry:loader_only_type:" + tname(typ))
    # the real dispatchers pick the newest version on [] and refuse overwriting / skipping (API of the real class,
    # exercised on a fresh instance and - read-only - on the live tables)
    for table in (GlueSerializer.dispatch, GlueUnSerializer.dispatch):
        for typ, versions in table._data.items():
            fun, v = table[typ]
            ctx.evaluation(None, False)
            if v != max(versions) or fun is not versions[max(versions)]:
                ctx.violation({"what": "dispatch_does_not_pick_newest", "type": tname(typ)}, {"picked": v})
            for k in versions:
                if table.get_version(typ, k) is not versions[k]:
                    ctx.violation({"what": "get_version_wrong_entry", "type": tname(typ)}, {"version": k})
    vd = VersionedDict()
    vd[("k", 1)] = "one"
    vd[("k", 2)] = "two"
    probes = {"overwrite": ("k", 2), "overwrite_first": ("k", 1), "skip": ("k", 4), "skip_new_key": ("j", 2)}
    for name, key in probes.items():
        ctx.evaluation(None, False)
        ctx.count("registry:versioned_dict_api_probes")
        try:
            vd[key] = "x"
        except (KeyError, ValueError):
            continue
        ctx.violation({"what": "versioned_dict_accepts", "probe": name}, {"key": list(key)})
    if vd["k"] != ("two", 2) or vd.get_version("k", 1) != "one" or vd.get_version("k") != "two":
        ctx.violation({"what": "versioned_dict_lookup"}, {})
    # the live tables must refuse too (on a harness-private key, so nothing real is touched)

    class _HarnessPrivate(object):
        pass
    for table, side in ((GlueSerializer.dispatch, "saver"), (GlueUnSerializer.dispatch, "loader")):
        table[(_HarnessPrivate, 1)] = lambda *a: {}
        for name, key in (("overwrite", (_HarnessPrivate, 1)), ("skip", (_HarnessPrivate, 3))):
            ctx.evaluation(None, False)
            try:
                table[key] = lambda *a: {}
            except (KeyError, ValueError):
                continue
            ctx.violation({"what": "live_table_accepts", "probe": name, "side": side}, {})
    live_newest_probe(ctx)
    rename_table_case(ctx)


_PROBE_N = [0]


def live_newest_probe(ctx):
    """'A save always uses the newest', live: throw-away classes Base and Sub(Base); v1 registered for Base, a Sub
    saved (dispatch falls through the MRO), then v2 registered for Base: a Sub and a Base saved afterwards must both
    carry _protocol 2 and load through the v2 loader, while the earlier v1 text still loads through the v1 loader."""
    import json
    import sys
    mod = sys.modules[__name__]
    _PROBE_N[0] += 1
    n = _PROBE_N[0]
    Base = type("VfProbeBase%d" % n, (object,), {"__module__": __name__})
    Sub = type("VfProbeSub%d" % n, (Base,), {"__module__": __name__})
    Other = type("VfProbeOther%d" % n, (Sub,), {"__module__": __name__})
    for c in (Base, Sub, Other):
        setattr(mod, c.__name__, c)

    def mk_saver(v):
        return lambda obj, context: {"payload": getattr(obj, "payload", None), "written_by": v}

    def mk_loader(v):
        def load(rec, context):
            cls = lookup_class_with_patches(rec["_type"])
            o = cls()
            o.payload, o.loaded_by, o.written_by = rec["payload"], v, rec["written_by"]
            return o
        return load

    def trip(obj, want_v, stage):
        obj.payload = 41 + want_v
        ctx.evaluation(["live_newest", stage, type(obj).__name__[:10]], True)
        ctx.count("live_newest_probe:saves_checked")
        try:
            text = GlueSerializer(obj).dumps()
            rec = json.loads(text)["__main__"]
            got = rec.get("_protocol", 1)
            if got != want_v or rec.get("written_by") != want_v:
                ctx.violation({"what": "save_does_not_use_newest", "stage": stage, "via_mro": type(obj).__name__.startswith("VfProbeSub")
                               or type(obj).__name__.startswith("VfProbeOther")},
                              {"wanted": want_v, "protocol": got, "written_by": rec.get("written_by")})
            back = GlueUnSerializer.loads(text).object("__main__")
            if type(back) is not type(obj) or back.payload != obj.payload or back.loaded_by != got:
                ctx.violation({"what": "live_probe_load_differs", "stage": stage},
                              {"loaded_by": getattr(back, "loaded_by", None), "protocol": got})
            return text
        except Exception as exc:
            ctx.violation({"what": "live_probe_raises", "stage": stage, "exc": type(exc).__name__}, {"error": repr(exc)[:200]})
            return None

    GlueSerializer.dispatch[(Base, 1)] = mk_saver(1)
    GlueUnSerializer.dispatch[(Base, 1)] = mk_loader(1)
    old_sub = trip(Sub(), 1, "v1_only")          # primes any per-concrete-type cache for Sub
    trip(Base(), 1, "v1_only")
    GlueSerializer.dispatch[(Base, 2)] = mk_saver(2)
    GlueUnSerializer.dispatch[(Base, 2)] = mk_loader(2)
    trip(Sub(), 2, "after_v2")
    trip(Base(), 2, "after_v2")
    trip(Other(), 2, "after_v2")
    GlueSerializer.dispatch[(Base, 3)] = mk_saver(3)
    GlueUnSerializer.dispatch[(Base, 3)] = mk_loader(3)
    trip(Other(), 3, "after_v3")
    trip(Sub(), 3, "after_v3")
    if old_sub is not None:
        # the text written in v1 format still loads, through the v1 loader
        ctx.count("live_newest_probe:old_text_reloaded")
        try:
            back = GlueUnSerializer.loads(old_sub).object("__main__")
            if back.loaded_by != 1:
                ctx.violation({"what": "old_record_loaded_by_wrong_version", "stage": "after_v3"}, {"loaded_by": back.loaded_by})
        except Exception as exc:
            ctx.violation({"what": "live_probe_raises", "stage": "reload_v1_text", "exc": type(exc).__name__}, {"error": repr(exc)[:200]})


def rename_resolver_case(ctx):
    """The REAL resolver on rename chains of length 2 and 3 whose hops are listed in either order (entries added to the
    live PATH_PATCHES for the duration of this case and removed again), and on every real chain of the table."""
    from vf import lib_C12_types as T
    target = "vf.lib_C12_types.RenameTarget"
    chains = {
        "in_order": [("vfold.a.Thing", "vfmid.a.Thing"), ("vfmid.a.Thing", target)],
        "reverse_order": [("vfmid.b.Thing", target), ("vfold.b.Thing", "vfmid.b.Thing")],
        "three_in_order": [("vfold.c.Thing", "vfmid.c.Thing"), ("vfmid.c.Thing", "vfnew.c.Thing"), ("vfnew.c.Thing", target)],
        "three_reverse": [("vfnew.d.Thing", target), ("vfmid.d.Thing", "vfnew.d.Thing"), ("vfold.d.Thing", "vfmid.d.Thing")],
        "three_shuffled": [("vfmid.e.Thing", "vfnew.e.Thing"), ("vfold.e.Thing", "vfmid.e.Thing"), ("vfnew.e.Thing", target)],
    }
    added = []
    try:
        for name, hops in chains.items():
            for k, v in hops:
                PATH_PATCHES[k] = v
                added.append(k)
        for name, hops in chains.items():
            starts = [k for k, v in hops]
            for start in starts:
                ctx.evaluation(["rename_resolver", name, starts.index(start)], True)
                ctx.count("rename_resolver:chains_checked")
                try:
                    got = lookup_class_with_patches(start)
                except Exception as exc:
                    ctx.violation({"what": "rename_resolver_raises_on_chain", "listing": name, "exc": type(exc).__name__}, {"start": start})
                    continue
                if got is not T.RenameTarget:
                    ctx.violation({"what": "rename_resolver_stops_early", "listing": name}, {"start": start, "got": repr(got)})
        # a record of a renamed type loads through the chain as well
        import json
        for start in ("vfold.a.Thing", "vfold.b.Thing", "vfold.e.Thing"):
            ctx.count("rename_resolver:records_loaded_through_chain")
            text = json.dumps({"__main__": {"_type": start}})
            try:
                GlueUnSerializer.loads(text).object("__main__")
                ctx.violation({"what": "rename_record_loaded_without_loader"}, {"start": start})
            except Exception as exc:
                # RenameTarget has no loader: the only acceptable failure is "don't know how to load ... RenameTarget"
                if "RenameTarget" not in str(exc):
                    ctx.violation({"what": "rename_record_not_resolved", "exc": type(exc).__name__}, {"start": start, "error": str(exc)[:200]})
    finally:
        for k in added:
            PATH_PATCHES.pop(k, None)
    # every real chain: the resolver must end where a visited-set walk ends
    for key in sorted(PATH_PATCHES):
        seen, cur = set(), key
        while cur in PATH_PATCHES and cur not in seen:
            seen.add(cur)
            cur = PATH_PATCHES[cur]
        if cur in PATH_PATCHES or len(seen) < 2:
            continue
        ctx.count("rename_resolver:real_chains_of_length>=2")
        try:
            want = lookup_class(cur)
        except Exception as exc:
            want = ("raises", type(exc).__name__)
        try:
            got = lookup_class_with_patches(key)
        except Exception as exc:
            got = ("raises", type(exc).__name__)
        ctx.evaluation(["rename_real_chain", key], True)
        if got is not want and got != want:
            ctx.violation({"what": "rename_resolver_disagrees_on_chain", "name": key}, {"walk_ends_at": cur})


def rename_table_case(ctx):
    import glue
    own = glue.__name__ + "."
    for key in sorted(PATH_PATCHES):
        ctx.evaluation(None, False)
        ctx.count("rename:entries_checked")
        seen, cur, cyc = set(), key, False
        while cur in PATH_PATCHES:
            if cur in seen:
                cyc = True
                break
            seen.add(cur)
            cur = PATH_PATCHES[cur]
        if cyc:
            ctx.violation({"what": "rename_chain_does_not_terminate", "name": key}, {"visited": sorted(seen)})
            continue
        if len(seen) > 1:
            ctx.count("rename:chains_longer_than_one")
        if cur.startswith(own):
            ctx.count("rename:targets_inside_package")
            try:
                obj = lookup_class(cur)
            except Exception:
                obj = None
            if obj is None:
                ctx.violation({"what": "rename_target_not_importable", "name": key, "target": cur}, {})
            else:
                # and the real resolver agrees
                try:
                    if lookup_class_with_patches(key) is not obj:
                        ctx.violation({"what": "rename_resolver_disagrees", "name": key}, {"target": cur})
                except Exception:
                    ctx.violation({"what": "rename_resolver_raises", "name": key}, {"target": cur})
        else:
            ctx.count("rename:targets_outside_package")
        # a key must not be the dotted name of something this package still defines under that very name
        if key.startswith(own):
            try:
                live = lookup_class(key)
            except Exception:
                live = None
            import inspect
            is_live = live is not None and getattr(live, "__module__", None) is not None and \
                "%s.%s" % (live.__module__, getattr(live, "__name__", "?")) == key
            if is_live and inspect.isclass(live) and inspect.isabstract(live):
                # an abstract base can never be the class of a saved object, so its name is never written
                ctx.count("rename:keys_live_but_abstract")
            elif is_live:
                ctx.violation({"what": "rename_captures_live_class", "name": key,
                               "target_inside_package": cur.startswith(own)},
                              {"redirected_to": cur, "kind": type(live).__name__})
            else:
                ctx.count("rename:keys_not_live")


def floors(counters, tier):
    out = []
    if counters.get("rename:entries_checked", 0) < 10:
        out.append("the rename table was not walked")
    if counters.get("registry:saver_loader_pairs_checked", 0) < 20:
        out.append("the saver/loader version tables were not enumerated")
    # every registered (type, version) of a multi-version type must have been exercised by a pinned trip
    for k in counters:
        if k.startswith("registered_loader:"):
            name, vmax = k.split(":", 1)[1].split("@")
            if int(vmax) > 1:
                if name not in ("Data", "DataCollection"):
                    out.append("multi-version type %s has no pinned workload" % name)
                    continue
                for v in range(1, int(vmax) + 1):
                    if counters.get("loader_used:%s@%d" % (name, v), 0) < 10:
                        out.append("loader %s version %d exercised fewer than 10 times" % (name, v))
    for (dv, cv) in PAIRS:
        tag = "data_v%d_dc_v%d" % (dv, cv)
        gen, cmp_ = counters.get("sessions_generated:" + tag, 0), counters.get("sessions_compared:" + tag, 0)
        if cmp_ < 8:
            out.append("version pair %s: fewer than 8 sessions compared" % tag)
        elif cmp_ < 0.8 * gen:
            out.append("version pair %s: only %d of %d sessions reached the comparison" % (tag, cmp_, gen))
        for what in ("derived", "groups", "links"):
            if counters.get("sessions_compared_with_%s:%s" % (what, tag), 0) < 2:
                out.append("version pair %s: fewer than 2 compared sessions with %s" % (tag, what))
        if cv >= 2 and counters.get("liveness_compared_with_groups:" + tag, 0) < 2:
            out.append("version pair %s: fewer than 2 loaded collections with groups probed for liveness (append / remove "
                       "a dataset after loading)" % tag)
        if counters.get("sessions_compared_with_coords_internal_and_external_links:" + tag, 0) < 1:
            out.append("version pair %s: no compared session with world coordinates, an internal function link and an "
                       "external link together" % tag)
        if counters.get("sessions_compared_with_mixed_input_link:" + tag, 0) < 1:
            out.append("version pair %s: no compared session with a mixed-input cross-dataset link" % tag)
        if dv >= 3 and counters.get("sessions_compared_with_key_join:" + tag, 0) < 1:
            out.append("version pair %s: no compared session with a key join" % tag)
    # per-type family: every registered saver version is either exercised by a recipe or listed as without recipe
    for k in counters:
        if k.startswith("registered_saver_version:"):
            key = k.split(":", 1)[1]
            if counters.get("type_family:saver_exercised:" + key, 0) == 0 and \
                    counters.get("type_family:save_refused:" + key + ":NotImplementedError", 0) == 0 and \
                    key.split("@")[0] not in TYPES_WITHOUT_RECIPE:
                out.append("registered saver %s has no per-type recipe exercising it" % key)
    if counters.get("type_family:trips_compared", 0) < 30:
        out.append("fewer than 30 per-type round trips compared")
    if counters.get("live_newest_probe:saves_checked", 0) < 7:
        out.append("the live 'a save uses the newest version' probe did not run")
    if counters.get("rename_resolver:chains_checked", 0) < 10:
        out.append("the rename resolver was not exercised on chains listed in either order")
    if counters.get("sessions_compared:mixed", 0) < 8:
        out.append("fewer than 8 sessions with several Data versions in one file compared")
    if counters.get("mixed:order:older_first", 0) < 1 or counters.get("mixed:order:newer_first", 0) < 1:
        out.append("mixed-version files were not written in both orders")
    if counters.get("sessions_compared:newest", 0) < 8:
        out.append("fewer than 8 unpinned (newest-format) sessions compared")
    if counters.get("record_protocol_checked", 0) < 100:
        out.append("fewer than 100 records checked for their protocol number")
    return out
