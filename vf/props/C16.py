"""C16 - a fixed-resolution buffer equals nearest-pixel resampling through the links;
a cache id never changes a result over any request history.

Shape: many small *worlds* (a master dataset T and two sources A, B whose pixel
frames are known affine functions of T's pixel frame, realised as real glue
links of several kinds) and, per world, a *history* of 6-20 requests spread over
two cache ids.  Every request is executed twice on the real code - without and
with the cache id - and both results are compared (i) with a brute-force
nearest-pixel resampling computed from the known affine map and the raw numpy
arrays and (ii) with each other, exactly.  Histories are near-miss chains: each
request differs from the previous one under the same id in one aspect (one
scalar bound on a dimension that does / does not matter, a range, the
attribute, the selection object, the source, the target, the broadcast flag).

A second workload drives `ImageLayerState.get_sliced_data` /
`ImageSubsetLayerState.get_sliced_data` (cache id = layer uuid) through histories
of slice changes, x/y swaps, aggregation, attribute / selection / reference
changes and compares the plane with the same oracle, oriented [y, x] by name.
"""
import itertools

import numpy as np

from glue.core import Data, DataCollection
from glue.core.component_link import ComponentLink
from glue.core.coordinates import AffineCoordinates
from glue.core.exceptions import IncompatibleAttribute, IncompatibleDataException
from glue.core.link_helpers import LinkSame, LinkTwoWay
from glue.core.subset import RangeSubsetState, SliceSubsetState

from vf.common import affine_matrix, exc_name, injective_floats, rand_floats, rand_ints

ID = "C16"
LEVEL = "exploration"
BUDGET_S = {"quick": 20.0, "thorough": 140.0}
RULE = ("a case is a block of worlds; a world = master dataset T (1-3 dims, <=5 per axis) + sources A, B whose pixel "
        "frames are affine functions of T's (link modes: axis = per-axis scale/offset/flip/permutation via LinkTwoWay or "
        "LinkSame, chain = B linked through A, coupled = one-way multi-input ComponentLinks, world = LinkSame on world "
        "axes of AffineCoordinates with diagonal / symmetric / full matrices); per world a history of 6-20 requests "
        "(attribute: float with NaN/inf, injective float, int, derived, dask; mask: inequality, and/or/not, range, "
        "pixel, equal twin objects) over two cache ids, each request a one-aspect mutation of the previous one under "
        "that id, a fresh one or a replay; each executed without and with the id. Viewer cases drive "
        "Image(Subset)LayerState.get_sliced_data through slice / axis / aggregation / attribute / selection / "
        "reference histories. A comparison is non-trivial when the expected buffer has at least one sample inside the "
        "source; distinct = distinct (world, request) fingerprints.")
ASSUMPTIONS = ["the harness-defined link functions (a*x+b and its inverse, small linear combinations) and "
               "AffineCoordinates matrices are the specification of the linked position",
               "sample positions whose linked coordinate is within 1e-9 of a half-integer are ties: either neighbour "
               "(or inside/outside at the array edge) is accepted; cached and uncached results must still agree exactly",
               "raw numpy arrays held by the harness are the source values (data are never mutated)",
               "with broadcast=False a ranged dimension that does not influence the source may raise the documented "
               "IncompatibleDataException; requests between datasets without a link route are outside the statement "
               "(tallied, cached and uncached outcome must agree)",
               "selection objects are never mutated in place between requests (the statement quantifies over "
               "selections requested, not over mutation of one object); triangular / permuted coordinate matrices "
               "are excluded here because their world->pixel shortcut is C15's finding"]
ANCHORS = ["glue.core.fixed_resolution_buffer:compute_fixed_resolution_buffer",
           "glue.core.fixed_resolution_buffer:translate_pixel",
           "glue.core.fixed_resolution_buffer:bounds_for_cache",
           "glue.viewers.image.state:BaseImageLayerState.get_sliced_data",
           "glue.viewers.image.state:ImageViewerState.numpy_slice_aggregation_transpose"]

EPS = 1e-9
MODES = ["axis", "axis", "axis", "chain", "coupled", "coupled", "world"]
N_BLOCKS = {"quick": 640, "thorough": 6400}
N_VIEWER = {"quick": 192, "thorough": 1600}
WORLDS_PER_BLOCK = 4


# ---------------------------------------------------------------- link functions (the specification of "linked position")
class Lin(object):
    def __init__(self, a, b):
        self.a, self.b = a, b

    def __call__(self, x):
        return self.a * x + self.b


class LinInv(object):
    def __init__(self, a, b):
        self.a, self.b = a, b

    def __call__(self, y):
        return (y - self.b) / self.a


class Comb(object):
    def __init__(self, ms, c):
        self.ms, self.c = list(ms), c

    def __call__(self, *xs):
        acc = self.ms[0] * xs[0]
        for m, x in zip(self.ms[1:], xs[1:]):
            acc = acc + m * x
        return acc + self.c


# ---------------------------------------------------------------- world model
class DS(object):
    """A glue dataset plus what the oracle knows about it: raw arrays, pixel = M u + c (u = T's pixel frame)."""

    def __init__(self, name, shape):
        self.name = name
        self.shape = tuple(shape)
        self.ndim = len(shape)
        self.arrays = {}
        self.M = None
        self.c = None
        self.axis = None        # [(k, a, b)] per own axis when every axis follows exactly one master axis
        self.data = None
        self.states = []        # (kind, glue state, numpy function arrays->mask)
        self.dask = False
        self.atts = []
        self.aligned = {}       # name of a dataset this one is pixel-aligned with -> [its axis for each own axis]


def fill_components(rng, ds, coords=None, dask=False):
    kw = {}
    if coords is not None:
        kw["coords"] = coords
    d = Data(label=ds.name, **kw)
    v = rand_floats(rng, ds.shape, p_special=0.25)
    w = injective_floats(rng, ds.shape)
    i = rand_ints(rng, ds.shape)
    d.add_component(v, "v")
    d.add_component(w, "w")
    d.add_component(i, "i")
    d.add_component_link(d.id["w"] * 2 + d.id["v"], "der")
    ds.arrays = {"v": v, "w": w, "i": i.astype(float), "der": w * 2 + v}
    ds.atts = ["v", "w", "i", "der"]
    if dask:
        import dask.array as da
        from glue.core.component import DaskComponent
        dk = w * 3.0 - 1.0
        d.add_component(DaskComponent(da.from_array(dk, chunks=2)), "dk")
        ds.arrays["dk"] = dk
        ds.atts.append("dk")
        ds.dask = True
    ds.data = d
    return d


def backward_slice(rng, n):
    """A slice that runs backwards (negative step), possibly selecting nothing."""
    r = rng.random()
    st = -rng.choice([1, 1, 2, 3])
    if r < 0.3:
        return slice(None, None, st)
    if r < 0.5:
        return slice(n - 1, 0, st)
    if r < 0.7:
        hi = rng.randrange(n)
        lo = rng.randrange(-1, hi + 1)
        return slice(hi, lo if lo >= 0 else None, st)
    if r < 0.85:
        return slice(None, rng.randrange(n), st)
    return slice(rng.randrange(n), None, st)


def backward_slices(rng, shape):
    nd = len(shape)
    must = rng.randrange(nd)
    out = []
    for j, n in enumerate(shape):
        r = rng.random()
        if j == must or r < 0.4:
            out.append(backward_slice(rng, n))
        elif r < 0.7:
            out.append(slice(None))
        else:
            a_ = rng.randrange(n)
            out.append(slice(a_, rng.randint(a_, n), rng.choice([None, 1, 2])))
    return out


def slice_mask(shape, slices):
    m = np.zeros(shape, dtype=bool)
    m[tuple(slices)] = True
    return m


def make_states(rng, ds, world=None):
    d, a = ds.data, ds.arrays
    wv = sorted(a["w"].ravel().tolist())
    t1 = rng.choice(wv)
    t2 = round(rng.uniform(-2, 2), 2)
    lo, hi = sorted([rng.choice(wv), rng.choice(wv)])
    j = rng.randrange(ds.ndim)
    k = rng.randrange(ds.shape[j])
    pix = np.indices(ds.shape)[j]
    out = [
        ("gt", d.id["w"] > t1, lambda a, t1=t1: a["w"] > t1),
        ("gt_twin", d.id["w"] > t1, lambda a, t1=t1: a["w"] > t1),
        ("le_nan", d.id["v"] <= t2, lambda a, t2=t2: a["v"] <= t2),
        ("and", (d.id["w"] > t1) & (d.id["v"] < t2), lambda a, t1=t1, t2=t2: (a["w"] > t1) & (a["v"] < t2)),
        ("or_not", (d.id["i"] >= 2) | ~(d.id["w"] > t1), lambda a, t1=t1: (a["i"] >= 2) | ~(a["w"] > t1)),
        ("range", RangeSubsetState(lo, hi, att=d.id["w"]), lambda a, lo=lo, hi=hi: (a["w"] >= lo) & (a["w"] <= hi)),
        ("pixel", d.pixel_component_ids[j] >= k, lambda a, pix=pix, k=k: pix >= k),
    ]
    # selections by array slices that run backwards, defined on the dataset itself ...
    from glue.viewers.image.pixel_selection_subset_state import PixelSubsetState
    sl = backward_slices(rng, ds.shape)
    out.append(("slice_backward", SliceSubsetState(d, list(sl)), lambda a, m=slice_mask(ds.shape, sl): m))
    sl = backward_slices(rng, ds.shape)
    out.append(("pixelstate_backward", PixelSubsetState(d, list(sl)), lambda a, m=slice_mask(ds.shape, sl): m))
    # ... and on a dataset this one is pixel-aligned with (identity links, possibly permuted axes): own axis j
    # follows the reference's slice for its axis order[j]; reference axes this dataset lacks are left unsliced
    if world is not None:
        for rname, order in sorted(ds.aligned.items()):
            ref = world.ds[rname]
            own = backward_slices(rng, ds.shape)
            rsl = [slice(None)] * ref.ndim
            for j_, i_ in enumerate(order):
                rsl[i_] = own[j_]
            out.append(("slice_backward_on_aligned_%s" % ("permuted" if order != sorted(order) else "same_order"),
                        SliceSubsetState(ref.data, rsl), lambda a, m=slice_mask(ds.shape, own): m))
    ds.states = out


class World(object):
    def __init__(self):
        self.mode = None
        self.ds = {}
        self.dc = None
        self.descr = {}

    # -- the oracle's map: positions in D's pixel frame for a grid given in G's pixel frame (None = no link route)
    def map(self, G, D, grid):
        if G is D:
            return [np.asarray(g, dtype=float) for g in grid]
        T = self.ds["T"]
        nT = T.ndim
        u = {}
        if G is T:
            for k in range(nT):
                u[k] = np.asarray(grid[k], dtype=float)
        elif self.mode in ("axis", "chain") and G.axis is not None:
            for i, (k, a, b) in enumerate(G.axis):
                u[k] = (np.asarray(grid[i], dtype=float) - b) / a
        elif self.mode == "world":
            Minv = np.linalg.inv(G.M)
            for k in range(nT):
                acc = 0.0
                for i in range(G.ndim):
                    acc = acc + Minv[k, i] * (np.asarray(grid[i], dtype=float) - G.c[i])
                u[k] = acc
        else:
            return None
        out = []
        for j in range(D.ndim):
            ks = [k for k in range(nT) if D.M[j, k] != 0]
            if any(k not in u for k in ks):
                return None
            if D.axis is not None and self.mode in ("axis", "chain"):
                k, a, b = D.axis[j]
                out.append(a * u[k] + b)
            else:
                acc = D.M[j, ks[0]] * u[ks[0]]
                for k in ks[1:]:
                    acc = acc + D.M[j, k] * u[k]
                out.append(acc + D.c[j])
        return out

    def contributing(self, G, D):
        """Dimensions of G that influence at least one pixel axis of D."""
        if G is D:
            return set(range(G.ndim))
        if self.mode == "world":
            return set(range(G.ndim))
        T = self.ds["T"]
        master = set(k for j in range(D.ndim) for k in range(T.ndim) if D.M[j, k] != 0)
        if G is T:
            return master
        if G.axis is None:
            return set()
        return set(i for i, (k, a, b) in enumerate(G.axis) if k in master)


SCALES = [1.0, 1.0, 1.0, 2.0, 0.5, -1.0, 1.5, 3.0, -2.0]
OFFSETS = [0.0, 0.0, 0.0, 1.0, -1.0, 0.25, 2.0, -0.75, 0.5]


def rshape(rng, nd, lo=1, hi=5):
    return tuple(rng.randint(lo, hi) for _ in range(nd))


def build_world(rng, viewer=False):
    w = World()
    mode = rng.choice(MODES if not viewer else ["axis", "axis", "chain", "coupled", "world"])
    w.mode = mode
    ndT = rng.choice([2, 3, 3]) if viewer else rng.choice([1, 2, 2, 3, 3])
    minlen = 2 if viewer else 1
    T = DS("T", rshape(rng, ndT, minlen))
    T.M, T.c = np.eye(ndT), np.zeros(ndT)
    T.axis = [(k, 1.0, 0.0) for k in range(ndT)]
    A, B = None, None
    links = []
    descr = {"mode": mode, "T": list(T.shape)}
    with_dask = (not viewer) and rng.random() < 0.15

    if mode == "world":
        kinds = ["diagonal", "coupled_symmetric", "full"]
        kT = rng.choice(kinds)
        Mt = affine_matrix(rng, ndT, kT)
        fill_components(rng, T, coords=AffineCoordinates(Mt))
        descr["T_matrix"] = Mt.tolist()
        srcs = []
        for name in ("A", "B"):
            X = DS(name, rshape(rng, ndT, minlen))
            kX = rng.choice(kinds)
            Mx = affine_matrix(rng, ndT, kX)
            H = np.linalg.solve(Mx, Mt)
            X.M = H[:ndT, :ndT][::-1, ::-1].copy()
            X.c = H[:ndT, ndT][::-1].copy()
            fill_components(rng, X, coords=AffineCoordinates(Mx), dask=(with_dask and name == "A"))
            descr[name] = {"shape": list(X.shape), "matrix": Mx.tolist(), "kinds": [kT, kX]}
            for i in range(ndT):
                links.append(LinkSame(T.data.world_component_ids[i], X.data.world_component_ids[i]))
            srcs.append(X)
        A, B = srcs
    else:
        fill_components(rng, T)

        def axis_source(name, parent, same_shape_as=None, dask=False):
            """pixel axis j of the new dataset = a * (pixel axis i of parent) + b, distinct i."""
            if viewer:
                nX = rng.randint(2, parent.ndim) if parent.ndim >= 2 else parent.ndim
            else:
                nX = rng.randint(1, parent.ndim)
            shape = rshape(rng, nX, minlen)
            if same_shape_as is not None and same_shape_as.ndim == nX and rng.random() < 0.5:
                shape = same_shape_as.shape
            aligned = rng.random() < 0.3          # every axis an identity link: a pixel-aligned (maybe permuted) dataset
            perm = rng.sample(range(parent.ndim), nX)
            if aligned and rng.random() < 0.7:
                shape = tuple(parent.shape[i] for i in perm)
            X = DS(name, shape)
            X.M = np.zeros((nX, ndT))
            X.c = np.zeros(nX)
            X.axis = []
            fill_components(rng, X, dask=dask)
            spec = []
            for j in range(nX):
                a = rng.choice(SCALES)
                b = rng.choice(OFFSETS)
                if aligned:
                    a, b = 1.0, 0.0
                if a < 0 and rng.random() < 0.7:
                    b = float(shape[j] - 1)      # a flip that stays inside the array
                i = perm[j]
                pk, pa, pb = parent.axis[i]
                X.axis.append((pk, a * pa, a * pb + b))
                X.M[j, pk] = a * pa
                X.c[j] = a * pb + b
                pc, xc = parent.data.pixel_component_ids[i], X.data.pixel_component_ids[j]
                if a == 1.0 and b == 0.0 and (aligned or rng.random() < 0.6):
                    links.append(LinkSame(pc, xc))
                    spec.append([i, "same"])
                else:
                    links.append(LinkTwoWay(pc, xc, Lin(a, b), LinInv(a, b)))
                    spec.append([i, a, b])
            descr[name] = {"shape": list(shape), "parent": parent.name, "axes": spec}
            if all(sp[1] == "same" for sp in spec):
                X.aligned[parent.name] = list(perm)
                descr[name]["pixel_aligned_with"] = parent.name
            return X

        def coupled_source(name, dask=False):
            nX = rng.randint(2 if (viewer and ndT >= 2) else 1, ndT)
            X = DS(name, rshape(rng, nX, minlen))
            X.M = np.zeros((nX, ndT))
            X.c = np.zeros(nX)
            fill_components(rng, X, dask=dask)
            spec = []
            lead = rng.sample(range(ndT), nX)
            for j in range(nX):
                ks = [lead[j]]
                if ndT > 1 and rng.random() < 0.6:
                    ks.append(rng.choice([k for k in range(ndT) if k != lead[j]]))
                ks.sort()
                ms = [rng.choice([1.0, 1.0, 0.5, -1.0, 2.0]) if k == lead[j] else rng.choice([0.5, 0.25, -0.5, 1.0])
                      for k in ks]
                c = rng.choice(OFFSETS)
                for k, m in zip(ks, ms):
                    X.M[j, k] = m
                X.c[j] = c
                links.append(ComponentLink([T.data.pixel_component_ids[k] for k in ks], X.data.pixel_component_ids[j],
                                           using=Comb(ms, c)))
                spec.append([ks, ms, c])
            descr[name] = {"shape": list(X.shape), "rows": spec}
            return X

        if mode == "axis":
            A = axis_source("A", T, dask=with_dask)
            B = axis_source("B", T, same_shape_as=A)
        elif mode == "chain":
            A = axis_source("A", T, dask=with_dask)
            B = axis_source("B", A)
        else:
            A = coupled_source("A", dask=with_dask)
            B = coupled_source("B")
    w.ds = {"T": T, "A": A, "B": B}
    for X in w.ds.values():
        make_states(rng, X, w)
    order = [T, A, B]
    rng.shuffle(order)
    w.dc = DataCollection([X.data for X in order])
    rng.shuffle(links)
    for l in links:
        w.dc.add_link(l)
    descr["dask"] = with_dask
    w.descr = descr
    return w


# ---------------------------------------------------------------- the oracle
def positions(bound):
    if isinstance(bound, tuple):
        lo, hi, n = bound
        if n == 1:
            return np.array([float(lo)])
        return np.array([float(lo) + k * (float(hi) - float(lo)) / (n - 1) for k in range(n)])
    return np.array([float(bound)])


def resample(full, dpos, shape, blank):
    """All acceptable nearest-pixel buffers (one per way of resolving near-ties) and the mask of samples outside."""
    nD = len(shape)
    ups = [np.floor(p + 0.5 + EPS).astype(int) for p in dpos]
    dns = [np.ceil(p - 0.5 - EPS).astype(int) for p in dpos]
    tie_axes = [j for j in range(nD) if np.any(ups[j] != dns[j])]
    variants = []
    outside0 = None
    for choice in itertools.product([0, 1], repeat=len(tie_axes)):
        idx = list(ups)
        for j, c in zip(tie_axes, choice):
            if c:
                idx[j] = dns[j]
        idx = np.broadcast_arrays(*idx)
        outside = np.zeros(idx[0].shape, dtype=bool)
        safe = []
        for j in range(nD):
            bad = (idx[j] < 0) | (idx[j] >= shape[j])
            outside |= bad
            safe.append(np.where(bad, 0, idx[j]))
        val = np.array(full[tuple(safe)], dtype=float)
        val[outside] = blank
        variants.append(val)
        if outside0 is None:
            outside0 = outside
    return variants, outside0


def cell_ok(got, variants):
    ok = np.zeros(got.shape, dtype=bool)
    for v in variants:
        ok |= (got == v) | (np.isnan(got) & np.isnan(v))
    return ok


def expected(world, req):
    D, G = world.ds[req["data"]], world.ds[req["target"]]
    bounds = req["bounds"]
    axes = [positions(b) for b in bounds]
    grid = np.meshgrid(*axes, indexing="ij")
    dpos = world.map(G, D, grid)
    if dpos is None:
        return {"kind": "unlinked"}
    if req["what"][0] == "att":
        full = D.arrays[req["what"][1]]
        blank = np.nan
    else:
        full = D.states[req["what"][1]][2](D.arrays).astype(float)
        blank = 0.0
    dpos = [np.broadcast_to(p, grid[0].shape) for p in dpos]
    variants, outside = resample(full, dpos, D.shape, blank)
    drop = tuple(slice(None) if isinstance(b, tuple) else 0 for b in bounds)
    variants = [v[drop] for v in variants]
    outside = outside[drop]
    contrib = world.contributing(G, D)
    may_raise = (not req["broadcast"]) and (G is not D) and any(
        isinstance(b, tuple) and i not in contrib for i, b in enumerate(bounds))
    return {"kind": "array", "variants": variants, "outside": outside, "may_raise_incompatible": may_raise,
            "ties": len(variants) > 1}


# ---------------------------------------------------------------- requests
def rand_scalar(rng, n):
    r = rng.random()
    if r < 0.35:
        return rng.randrange(n)
    if r < 0.5:
        return float(rng.randrange(n))
    if r < 0.53:
        return np.int64(rng.randrange(n))
    if r < 0.56:
        return np.float64(rng.randrange(n))
    if r < 0.78:
        return rng.choice([-1, n, n + 1, -2.0, float(n) + 3.0])
    if r < 0.9:
        return rng.randrange(-1, n) + 0.5
    return rng.randrange(n) + rng.choice([0.25, -0.25, 0.4])


def rand_range(rng, n):
    if rng.random() < 0.3:
        return (0, n - 1, n)
    lo = rng.choice([-1.5, -1.0, -0.5, 0.0, 0.0, 0.0, 0.25, 1.0, float(n - 1), float(n + 1)])
    span = rng.randint(0, n + 1)
    hi = lo + span
    steps = span + 1 if rng.random() < 0.6 else rng.randint(1, 6)
    if rng.random() < 0.1:
        lo, hi = hi, lo
    if rng.random() < 0.3 and float(lo).is_integer() and float(hi).is_integer():
        lo, hi = int(lo), int(hi)
    return (lo, hi, steps)


def rand_bound(rng, n, p_scalar=0.4):
    return rand_scalar(rng, n) if rng.random() < p_scalar else rand_range(rng, n)


def rand_what(rng, D):
    if rng.random() < 0.55:
        return ("att", rng.choice(D.atts))
    return ("state", rng.randrange(len(D.states)))


def fresh_request(rng, world):
    dname = rng.choice(["A", "A", "B", "B", "T"])
    r = rng.random()
    if r < 0.6:
        tname = "T"
    elif r < 0.75:
        tname = dname
    else:
        tname = rng.choice(["A", "B", "T"])
    D, G = world.ds[dname], world.ds[tname]
    return {"data": dname, "target": tname, "bounds": [rand_bound(rng, n) for n in G.shape],
            "what": rand_what(rng, D), "broadcast": rng.random() < 0.75}


def same_scalar_class(a, b):
    return (not isinstance(a, tuple)) and (not isinstance(b, tuple)) and float(a) == float(b)


def mutate_request(rng, world, prev):
    """One-aspect change of the previous request; returns (request, step kind)."""
    req = dict(prev)
    req["bounds"] = list(prev["bounds"])
    D, G = world.ds[req["data"]], world.ds[req["target"]]
    contrib = world.contributing(G, D)
    scal = [i for i, b in enumerate(req["bounds"]) if not isinstance(b, tuple)]
    rang = [i for i, b in enumerate(req["bounds"]) if isinstance(b, tuple)]
    for _ in range(8):
        kind = rng.choice(["scalar", "scalar", "scalar", "scalar_free", "scalar_free", "range", "range", "to_range",
                           "to_scalar", "attribute", "attribute", "state", "state", "att_state", "data", "target",
                           "broadcast"])
        if kind == "scalar" and scal:
            i = rng.choice(scal)
            new = rand_scalar(rng, G.shape[i])
            if same_scalar_class(new, req["bounds"][i]):
                continue
            req["bounds"][i] = new
            return req, ("scalar_contributing" if i in contrib else "scalar_noncontributing")
        if kind == "scalar_free":
            free = [i for i in scal if i not in contrib]
            if not free:
                continue
            i = rng.choice(free)
            new = rand_scalar(rng, G.shape[i])
            if same_scalar_class(new, req["bounds"][i]):
                continue
            req["bounds"][i] = new
            return req, "scalar_noncontributing"
        if kind == "range" and rang:
            i = rng.choice(rang)
            new = rand_range(rng, G.shape[i])
            if new == req["bounds"][i]:
                continue
            req["bounds"][i] = new
            return req, ("range_contributing" if i in contrib else "range_noncontributing")
        if kind == "to_range" and scal:
            i = rng.choice(scal)
            req["bounds"][i] = rand_range(rng, G.shape[i])
            return req, "scalar_to_range"
        if kind == "to_scalar" and rang:
            i = rng.choice(rang)
            req["bounds"][i] = rand_scalar(rng, G.shape[i])
            return req, "range_to_scalar"
        if kind == "attribute" and req["what"][0] == "att":
            new = rng.choice(D.atts)
            if new == req["what"][1]:
                continue
            req["what"] = ("att", new)
            return req, "attribute"
        if kind == "state" and req["what"][0] == "state":
            new = rng.randrange(len(D.states))
            if new == req["what"][1]:
                continue
            twin = D.states[new][0].startswith("gt") and D.states[req["what"][1]][0].startswith("gt")
            req["what"] = ("state", new)
            return req, ("state_equal_twin" if twin else "state")
        if kind == "att_state":
            req["what"] = ("state", rng.randrange(len(D.states))) if req["what"][0] == "att" else ("att", rng.choice(D.atts))
            return req, "attribute_vs_mask"
        if kind == "data":
            others = [n for n in ("A", "B", "T") if n != req["data"]]
            new = rng.choice(others)
            if req["target"] == req["data"]:
                continue
            req["data"] = new
            N = world.ds[new]
            if req["what"][0] == "state" and req["what"][1] >= len(N.states):
                req["what"] = ("state", rng.randrange(len(N.states)))
            if req["what"][0] == "att":
                if req["what"][1] not in N.atts:
                    req["what"] = ("att", "w")
            return req, ("data_same_shape" if N.shape == D.shape else "data")
        if kind == "target":
            others = [n for n in ("A", "B", "T") if n != req["target"] and world.ds[n].ndim == G.ndim]
            if not others:
                continue
            req["target"] = rng.choice(others)
            return req, "target"
        if kind == "broadcast":
            req["broadcast"] = not req["broadcast"]
            return req, "broadcast"
    return fresh_request(rng, world), "fresh"


def describe_bound(b):
    if isinstance(b, tuple):
        return [float(b[0]), float(b[1]), int(b[2])]
    return [type(b).__name__, float(b)]


def describe_request(world, req):
    D = world.ds[req["data"]]
    what = list(req["what"])
    if what[0] == "state":
        what.append(D.states[what[1]][0])
    return {"data": req["data"], "target": req["target"], "bounds": [describe_bound(b) for b in req["bounds"]],
            "what": what, "broadcast": req["broadcast"]}


def bound_class(b, n):
    if isinstance(b, tuple):
        lo, hi = min(b[0], b[1]), max(b[0], b[1])
        if hi < -0.5 or lo > n - 0.5:
            return "range_wholly_outside"
        if lo < -0.5 or hi > n - 0.5:
            return "range_partly_outside"
        return "range_inside"
    if b < -0.5 or b > n - 0.5:
        return "scalar_outside"
    return "scalar_inside"


# ---------------------------------------------------------------- execution and comparison
def execute(world, req, cache_id, self_target_as_none):
    D, G = world.ds[req["data"]], world.ds[req["target"]]
    kw = {"broadcast": req["broadcast"]}
    if not (G is D and self_target_as_none):
        kw["target_data"] = G.data
    if req["what"][0] == "att":
        kw["target_cid"] = D.data.id[req["what"][1]]
    else:
        kw["subset_state"] = D.states[req["what"][1]][1]
    if cache_id is not None:
        kw["cache_id"] = cache_id
    try:
        out = D.data.compute_fixed_resolution_buffer(list(req["bounds"]), **kw)
    except Exception as e:   # classified by judge()
        return {"kind": "exc", "exc": e}
    return {"kind": "array", "array": out}


def np_scalar_vs_range(req, residents):
    """Structural trigger of a known mechanism: under this id a numpy scalar bound meets a (min, max, n) tuple at the
    same position of a request that may still be resident in the caches."""
    for old in residents:
        if old is None or len(old["bounds"]) != len(req["bounds"]):
            continue
        for a, b in zip(old["bounds"], req["bounds"]):
            if (isinstance(a, np.generic) and isinstance(b, tuple)) or (isinstance(b, np.generic) and isinstance(a, tuple)):
                return True
    return False


def base_sig(world, req, cached, step):
    D = world.ds[req["data"]]
    dask_path = D.dask and (req["what"][0] == "state" or req["what"][1] == "dk")
    selection = None
    if req["what"][0] == "state":
        selection = "backward_slices" if "backward" in D.states[req["what"][1]][0] else "other"
    return {"request": "attribute" if req["what"][0] == "att" else "mask", "cached": cached, "link_mode": world.mode,
            "selection": selection,
            "dask_path": bool(dask_path), "self_target": req["data"] == req["target"],
            "after": step if cached else None}


def judge(ctx, world, req, exp, out, cached, step, clash=False):
    """Compare one real outcome with the oracle.  Returns True when it was a value comparison that passed."""
    tag = "cached" if cached else "uncached"
    sig = base_sig(world, req, cached, step)
    detail = lambda **kw: dict(world=world.descr, request=describe_request(world, req), step=step, **kw)
    if exp["kind"] == "unlinked":
        if out["kind"] == "exc":
            ctx.count("out_of_domain_unlinked_%s%s" % (exc_name(out["exc"]), "_numpy_scalar_vs_range_under_id" if (cached and clash) else ""))
        else:
            ctx.count("oracle_model_says_unlinked_but_array_returned")
        return False
    if out["kind"] == "exc":
        e = out["exc"]
        if exp["may_raise_incompatible"] and isinstance(e, IncompatibleDataException):
            ctx.count("documented_broadcast_false_exception_%s" % tag)
            return False
        sig.update(kind="exception", exc=exc_name(e), numpy_scalar_vs_range_under_id=bool(cached and clash),
                   broadcast_false=not req["broadcast"], unlinked_claim=isinstance(e, IncompatibleAttribute))
        ctx.violation(sig, detail(error=repr(e)[:300]))
        return False
    try:
        got = np.asarray(out["array"]).astype(float)
    except Exception as e:
        sig.update(kind="result_not_numeric", exc=exc_name(e))
        ctx.violation(sig, detail(error=repr(e)[:300]))
        return False
    v0 = exp["variants"][0]
    nontrivial = bool((~exp["outside"]).any())
    ctx.evaluation([world.descr, describe_request(world, req), cached], nontrivial)
    ctx.count("compared_%s" % tag)
    ctx.count("compared_%s_%s" % (sig["request"], world.mode))
    if exp["may_raise_incompatible"]:
        ctx.count("broadcast_false_noncontributing_range_returned_array")
    if got.shape != v0.shape:
        sig.update(kind="shape_mismatch", got_ndim=got.ndim, expected_ndim=v0.ndim)
        ctx.violation(sig, detail(got_shape=list(got.shape), expected_shape=list(v0.shape)))
        return False
    ok = cell_ok(got, exp["variants"])
    if exp["ties"]:
        ctx.count("comparisons_with_tie_samples")
    if ok.all():
        return True
    bad = ~ok
    where_out = bool((bad & exp["outside"]).any())
    where_in = bool((bad & ~exp["outside"]).any())
    sig.update(kind="value_mismatch",
               where="outside_not_blank" if (where_out and not where_in) else ("inside_wrong" if not where_out else "both"))
    ctx.violation(sig, detail(got=got, expected=v0, outside=exp["outside"]))
    return False


def same_result(a, b):
    if a["kind"] != b["kind"]:
        return False
    if a["kind"] == "exc":
        return type(a["exc"]) is type(b["exc"])
    try:
        x, y = np.asarray(a["array"]), np.asarray(b["array"])
        if x.shape != y.shape:
            return False
        return bool(np.array_equal(x.astype(float), y.astype(float), equal_nan=True))
    except Exception:
        return False


def cache_probe(cache_id):
    """Evidence only: identity of the cached array before a call (private module state; never deciding)."""
    try:
        from glue.core import fixed_resolution_buffer as m
        return m.ARRAY_CACHE.get(cache_id, {}).get("array", None)
    except Exception:
        return None


def run_history(ctx, world, case_tag, resident):
    rng = ctx.rng
    ids = ["c16:%s:0" % case_tag, "c16:%s:1" % case_tag]
    last = {}
    past = []
    nsteps = rng.randint(6, 20)
    ctx.count("histories")
    ctx.count("worlds_%s" % world.mode)
    if world.descr.get("dask"):
        ctx.count("worlds_with_dask_component")
    for step_no in range(nsteps):
        slot = 0 if rng.random() < 0.7 else 1
        prev = last.get(slot)
        r = rng.random()
        if prev is None or r < 0.12:
            req, step = fresh_request(rng, world), "fresh"
        elif r < 0.24 and past:
            req, step = rng.choice(past), "replay_earlier"
            req = dict(req)
            req["bounds"] = list(req["bounds"])
        elif r < 0.30:
            req, step = dict(prev), "repeat_last"
            req["bounds"] = list(prev["bounds"])
        else:
            req, step = mutate_request(rng, world, prev)
        if prev is None:
            step = "first"
        D, G = world.ds[req["data"]], world.ds[req["target"]]
        for b, n in zip(req["bounds"], G.shape):
            ctx.count("bound_%s" % bound_class(b, n))
        ctx.count("step_%s" % step)
        ctx.count("what_%s" % (req["what"][1] if req["what"][0] == "att" else "mask_" + D.states[req["what"][1]][0]))
        exp = expected(world, req)
        none_target = rng.random() < 0.5
        order = rng.random() < 0.5
        before = cache_probe(ids[slot])
        if order:
            unc = execute(world, req, None, none_target)
            cac = execute(world, req, ids[slot], none_target)
        else:
            cac = execute(world, req, ids[slot], none_target)
            unc = execute(world, req, None, none_target)
        if cac["kind"] == "array" and before is not None and cac["array"] is before:
            ctx.count("evidence_array_cache_hits")
        ctx.event(step_no, slot, step, describe_request(world, req), unc["kind"], cac["kind"])
        clash = np_scalar_vs_range(req, resident.get(slot, []))
        if clash:
            ctx.count("requests_with_numpy_scalar_vs_range_under_id")
        judge(ctx, world, req, exp, unc, False, step)
        judge(ctx, world, req, exp, cac, True, step, clash)
        # the second half of the statement, directly: the id never changes the outcome
        ctx.count("cached_vs_uncached_pairs")
        if exp["kind"] == "array" and unc["kind"] == "array":
            ctx.count("cached_vs_uncached_pairs_linked")
            if step in ("scalar_noncontributing",) and prev is not None:
                ctx.count("wildcard_eligible_scalar_only_changes")
            if step == "scalar_contributing":
                ctx.count("relevant_scalar_only_changes")
        if not same_result(unc, cac):
            sig = {"kind": "cache_changes_result" if (unc["kind"] == cac["kind"] == "array") else "cache_changes_outcome",
                   "request": "attribute" if req["what"][0] == "att" else "mask", "after": step,
                   "link_mode": world.mode, "linked": exp["kind"] == "array",
                   "numpy_scalar_vs_range_under_id": clash,
                   "exc": exc_name(cac["exc"]) if cac["kind"] == "exc" else None}
            ctx.violation(sig, {"world": world.descr, "request": describe_request(world, req),
                                "previous_under_id": describe_request(world, prev) if prev else None,
                                "uncached": unc.get("array", repr(unc.get("exc"))),
                                "cached": cac.get("array", repr(cac.get("exc")))})
        # requests that may still be resident in the caches under this id (a superset): the last one that returned an
        # array with the id (array cache) and every request since the (data, target) pair under the id last changed
        # (pixel-cache entries are per source axis and survive failed and partly translated requests)
        res = resident.setdefault(slot, [None])
        pair = (id(world), req["data"], req["target"])
        if cac["kind"] == "array":
            res[0] = req
        if resident.get(("pair", slot)) != pair:
            resident[("pair", slot)] = pair
            del res[1:]
        res.append(req)
        last[slot] = req
        past.append(req)
    if rng.random() < 0.002:
        ctx.sample({"world": world.descr, "last_request": describe_request(world, past[-1])})


# ---------------------------------------------------------------- viewer workload
AGG = {"nanmean": np.nanmean, "nanmax": np.nanmax, "nanmin": np.nanmin, "nansum": np.nansum, "mean": np.mean,
       "max": np.max}


def rand_nonempty_slice(rng, n):
    r = rng.random()
    if r < 0.35:
        return slice(None)
    a = rng.randrange(n)
    b = rng.randint(a + 1, n)
    st = rng.choice([None, 1, 1, 2, 3])
    return slice(a, b, st)


def viewer_expected(world, vs, layer_kind, X, what, query):
    """The plane [y, x] an image viewer must show, from the state's public attributes."""
    R = world.by_data[id(vs.reference_data)]
    xa, ya = vs.x_att.axis, vs.y_att.axis
    slices = vs.slices
    pos = []
    agg = {}
    for i in range(R.ndim):
        if i == xa or i == ya:
            q = query[1] if i == xa else query[0]
            if isinstance(q, slice):
                pos.append(np.array(list(range(*q.indices(R.shape[i]))), dtype=float))
            else:
                pos.append(positions(q))
        else:
            s = slices[i]
            if hasattr(s, "function"):
                pos.append(np.array(list(range(*s.slice.indices(R.shape[i]))), dtype=float))
                agg[i] = s.function
            else:
                pos.append(np.array([float(s)]))
    grid = np.meshgrid(*pos, indexing="ij")
    dpos = world.map(R, X, grid)
    if dpos is None:
        return {"kind": "unlinked"}
    if what[0] == "att":
        full, blank = X.arrays[what[1]], np.nan
    else:
        full, blank = what[2](X.arrays).astype(float), 0.0
    dpos = [np.broadcast_to(p, grid[0].shape) for p in dpos]
    variants, outside = resample(full, dpos, X.shape, blank)
    tie = np.zeros(grid[0].shape, dtype=bool)
    for v in variants[1:]:
        tie |= ~((v == variants[0]) | (np.isnan(v) & np.isnan(variants[0])))
    arr = variants[0]
    labels = list(range(R.ndim))
    # reduce: scalar dims are dropped, aggregated dims reduced (highest first, as independent reductions)
    for i in reversed(range(R.ndim)):
        if i == xa or i == ya:
            continue
        ax = labels.index(i)
        if i in agg:
            arr = agg[i](arr, axis=ax)
            tie = tie.any(axis=ax)
            outside = outside.all(axis=ax)
        else:
            arr = np.take(arr, 0, axis=ax)
            tie = np.take(tie, 0, axis=ax)
            outside = np.take(outside, 0, axis=ax)
        labels.pop(ax)
    perm = (labels.index(ya), labels.index(xa))
    arr, tie, outside = np.transpose(arr, perm), np.transpose(tie, perm), np.transpose(outside, perm)
    contrib = world.contributing(R, X)
    may_raise = (R is not X) and any(len(pos[i]) >= 1 and (i in (xa, ya) or i in agg) and i not in contrib
                                     for i in range(R.ndim))
    return {"kind": "array", "array": np.asarray(arr, dtype=float), "tie": tie, "outside": outside,
            "may_raise_incompatible": may_raise, "aggregated": bool(agg)}


def run_viewer(ctx, case_tag):
    from glue.viewers.image.state import AggregateSlice, ImageLayerState, ImageSubsetLayerState, ImageViewerState
    rng = ctx.rng
    world = build_world(rng, viewer=True)
    world.by_data = {id(X.data): X for X in world.ds.values()}
    T, A, B = world.ds["T"], world.ds["A"], world.ds["B"]
    vs = ImageViewerState()
    layers = []      # (layer state, kind, DS, subset or None)
    for X in (T, A, B):
        ls = ImageLayerState(viewer_state=vs, layer=X.data)
        vs.layers.append(ls)
        layers.append([ls, "data", X, None])
    sub_state_idx = {}
    for X in (A, B):
        k = rng.randrange(len(X.states))
        sg = world.dc.new_subset_group(subset_state=X.states[k][1], label="s" + X.name)
        subset = [s for s in X.data.subsets if s.label == "s" + X.name][0]
        # the group applies the *same state object* to every dataset; evaluate it only on its own dataset
        ls = ImageSubsetLayerState(viewer_state=vs, layer=subset)
        vs.layers.append(ls)
        layers.append([ls, "subset", X, subset])
        sub_state_idx[X.name] = k
    ctx.count("viewer_histories")
    ctx.count("viewer_worlds_%s" % world.mode)
    nsteps = rng.randint(8, 16)
    for step_no in range(nsteps):
        R = world.by_data[id(vs.reference_data)]
        kind = rng.choice(["slices", "slices", "slices", "aggregate", "xatt", "yatt", "attribute", "subset_state",
                           "reference", "query_only", "query_only"])
        try:
            if kind in ("slices", "aggregate"):
                new = []
                for i in range(R.ndim):
                    n = R.shape[i]
                    if kind == "aggregate" and i not in (vs.x_att.axis, vs.y_att.axis):
                        a = rng.randrange(n)
                        b = rng.randint(a + 1, n)
                        fname = rng.choice(sorted(AGG))
                        new.append(AggregateSlice(slice(a, b), (a + b) // 2, AGG[fname]))
                    else:
                        new.append(rng.randrange(n))
                vs.slices = tuple(new)
            elif kind == "xatt":
                vs.x_att = rng.choice(R.data.pixel_component_ids)
            elif kind == "yatt":
                vs.y_att = rng.choice(R.data.pixel_component_ids)
            elif kind == "attribute":
                L = rng.choice([l for l in layers if l[1] == "data"])
                L[0].attribute = L[2].data.id[rng.choice(["v", "w", "i", "der"])]
            elif kind == "subset_state":
                L = rng.choice([l for l in layers if l[1] == "subset"])
                k = rng.randrange(len(L[2].states))
                L[3].subset_state = L[2].states[k][1]
                sub_state_idx[L[2].name] = k
            elif kind == "reference":
                cands = [X for X in (T, A, B) if X.ndim >= 2 and X is not R]
                if cands:
                    vs.reference_data = rng.choice(cands).data
        except Exception as e:
            # state changes themselves are C18's subject; a failure here ends the history (tallied)
            ctx.count("viewer_step_failed_%s_%s" % (kind, exc_name(e)))
            return
        ctx.count("viewer_step_%s" % kind)
        R = world.by_data[id(vs.reference_data)]
        if vs.x_att is None or vs.y_att is None or vs.x_att.axis == vs.y_att.axis:
            ctx.count("viewer_state_without_two_axes")
            continue
        xa, ya = vs.x_att.axis, vs.y_att.axis
        # one query per layer
        for ls, lkind, X, subset in layers:
            qk = rng.choice(["none", "none", "view", "view1", "bounds"])
            if qk == "none":
                kwargs, query = {}, [slice(None), slice(None)]
            elif qk == "view":
                query = [rand_nonempty_slice(rng, R.shape[ya]), rand_nonempty_slice(rng, R.shape[xa])]
                kwargs = {"view": list(query)}
            elif qk == "view1":
                query = [rand_nonempty_slice(rng, R.shape[ya]), slice(None)]
                kwargs = {"view": [query[0]]}
            else:
                query = [rand_range(rng, R.shape[ya]), rand_range(rng, R.shape[xa])]
                kwargs = {"bounds": list(query)}
            if lkind == "data":
                aname = ls.attribute.label
                what = ("att", aname)
            else:
                k = sub_state_idx[X.name]
                what = ("state", k, X.states[k][2])
            exp = viewer_expected(world, vs, lkind, X, what, query)
            try:
                got = ls.get_sliced_data(**kwargs)
                out = {"kind": "array", "array": got}
            except Exception as e:
                out = {"kind": "exc", "exc": e}
            agg_names = [getattr(s.function, "__name__", "?") if hasattr(s, "function") else None for s in vs.slices]
            descr = {"reference": R.name, "x_axis": xa, "y_axis": ya,
                     "slices": [[s.slice.start, s.slice.stop, a] if a else int(s) for s, a in zip(vs.slices, agg_names)],
                     "layer": [lkind, X.name, list(what[:2])], "query": [qk, [describe_q(q) for q in query]]}
            ctx.event(step_no, kind, descr, out["kind"])
            sig = {"via": "get_sliced_data", "layer": lkind, "query": qk, "link_mode": world.mode, "after": kind,
                   "aggregated": bool(exp.get("aggregated")), "transposed": ya > xa,
                   "reference_is_layer_data": R is X}
            if exp["kind"] == "unlinked":
                if out["kind"] == "exc":
                    ctx.count("viewer_out_of_domain_unlinked_%s" % exc_name(out["exc"]))
                else:
                    ctx.count("oracle_model_says_unlinked_but_array_returned")
                continue
            if out["kind"] == "exc":
                if exp["may_raise_incompatible"] and isinstance(out["exc"], IncompatibleDataException):
                    ctx.count("viewer_documented_incompatible_exception")
                    continue
                sig.update(kind="exception", exc=exc_name(out["exc"]))
                ctx.violation(sig, {"world": world.descr, "state": descr, "error": repr(out["exc"])[:300]})
                continue
            got = np.asarray(out["array"]).astype(float)
            e = exp["array"]
            nontrivial = bool((~exp["outside"]).any())
            ctx.evaluation([world.descr, descr], nontrivial)
            ctx.count("viewer_planes_compared")
            ctx.count("viewer_planes_%s_%s" % (lkind, qk))
            if lkind == "subset":
                ctx.count("viewer_subset_planes_%s" % X.states[what[1]][0])
            if exp["aggregated"]:
                ctx.count("viewer_planes_aggregated")
            if ya > xa:
                ctx.count("viewer_planes_transposed")
            if got.shape != e.shape:
                sig.update(kind="shape_mismatch", transposed_shape_matches=got.shape == e.shape[::-1])
                ctx.violation(sig, {"world": world.descr, "state": descr, "got_shape": list(got.shape),
                                    "expected_shape": list(e.shape)})
                continue
            if exp["aggregated"]:
                ok = np.isclose(got, e, rtol=1e-9, atol=1e-12, equal_nan=True) | ((got == e))
            else:
                ok = (got == e) | (np.isnan(got) & np.isnan(e))
            ok |= exp["tie"]
            if exp["tie"].any():
                ctx.count("viewer_planes_with_tie_samples_excluded")
            if not ok.all():
                bad = ~ok
                where_out = bool((bad & exp["outside"]).any())
                where_in = bool((bad & ~exp["outside"]).any())
                sig.update(kind="value_mismatch", where="outside_not_blank" if (where_out and not where_in)
                           else ("inside_wrong" if not where_out else "both"))
                ctx.violation(sig, {"world": world.descr, "state": descr, "got": got, "expected": e})


def describe_q(q):
    if isinstance(q, slice):
        return "slice(%r,%r,%r)" % (q.start, q.stop, q.step)
    return describe_bound(q)


# ---------------------------------------------------------------- driver interface
def cases(tier, seed):
    import random
    allc = [["hist", i] for i in range(N_BLOCKS[tier])] + [["viewer", i] for i in range(N_VIEWER[tier])]
    random.Random(16).shuffle(allc)      # fixed order: spreads both workloads evenly over the shards
    for c in allc:
        yield c


def run_case(ctx, case):
    if case[0] == "hist":
        # the two ids are shared by all worlds of the block: earlier worlds' datasets stay "requested before"
        resident = {}
        for k in range(WORLDS_PER_BLOCK):
            world = build_world(ctx.rng)
            run_history(ctx, world, "h%d" % case[1], resident)
    elif case[0] == "viewer":
        run_viewer(ctx, "v%d" % case[1])
    else:
        raise ValueError(case)


def floors(counters, tier):
    out = []
    c = counters.get
    if c("cached_vs_uncached_pairs_linked", 0) < 300:
        out.append("fewer than 300 (cached, uncached) request pairs compared")
    if c("compared_cached", 0) < 300 or c("compared_uncached", 0) < 300:
        out.append("fewer than 300 buffers compared with the brute-force resampling")
    if c("wildcard_eligible_scalar_only_changes", 0) < 15:
        out.append("fewer than 15 requests repeating the previous one with only a wildcard-eligible scalar bound changed")
    if c("relevant_scalar_only_changes", 0) < 15:
        out.append("fewer than 15 requests repeating the previous one with only a relevant scalar bound changed")
    for k in ("worlds_axis", "worlds_chain", "worlds_coupled", "worlds_world"):
        if c(k, 0) < 10:
            out.append("fewer than 10 %s" % k)
    for k in ("bound_scalar_inside", "bound_scalar_outside", "bound_range_inside", "bound_range_partly_outside",
              "bound_range_wholly_outside"):
        if c(k, 0) < 30:
            out.append("fewer than 30 %s" % k)
    for k in ("step_attribute", "step_state", "step_data", "step_target", "step_replay_earlier", "step_attribute_vs_mask"):
        if c(k, 0) < 10:
            out.append("fewer than 10 history steps of kind %s" % k)
    for k in ("what_mask_slice_backward", "what_mask_pixelstate_backward"):
        if c(k, 0) < 30:
            out.append("fewer than 30 mask requests with %s" % k)
    if c("what_mask_slice_backward_on_aligned_permuted", 0) + c("what_mask_slice_backward_on_aligned_same_order", 0) < 20:
        out.append("fewer than 20 mask requests with a backward slice state defined on a pixel-aligned dataset")
    if sum(v for k, v in counters.items() if k.startswith("viewer_subset_planes_") and "backward" in k) < 10:
        out.append("fewer than 10 subset-layer planes with a backward slice state")
    if c("viewer_planes_compared", 0) < 100:
        out.append("fewer than 100 get_sliced_data planes compared")
    for k in ("viewer_planes_aggregated", "viewer_planes_transposed", "viewer_planes_subset_none",
              "viewer_planes_data_bounds"):
        if c(k, 0) < 5:
            out.append("fewer than 5 %s" % k)
    if c("oracle_model_says_unlinked_but_array_returned", 0) > 0:
        out.append("the oracle's link model disagrees with glue about which datasets are linked (harness defect)")
    return out
