"""C16 - a fixed-resolution buffer equals nearest-pixel resampling through the links;
a cache id never changes a result over any request history.

Shape: many small *worlds* (a master dataset T and two sources A, B whose pixel
frames are known affine functions of T's pixel frame, realised as real glue
links of several kinds) and, per world, a *history* of 6-20 requests spread over
two cache ids.  Every request is executed twice on the real code - without and
with the cache id - and both results are compared (i) with a brute-force
nearest-pixel resampling computed from the known affine map and the raw numpy
arrays and (ii) with each other, exactly.  Histories are near-miss chains: each
request differs from the previous one under the same id in one aspect (one
scalar bound on a dimension that does / does not matter, a range, the
attribute, the selection object, the source, the target, the broadcast flag).

A second workload drives `ImageLayerState.get_sliced_data` /
`ImageSubsetLayerState.get_sliced_data` (cache id = layer uuid) through histories
of slice changes, x/y swaps, aggregation, attribute / selection / reference
changes and compares the plane with the same oracle, oriented [y, x] by name.
"""
import itertools

import numpy as np

from glue.core import Data, DataCollection
from glue.core.component_link import ComponentLink
from glue.core.coordinates import AffineCoordinates
from glue.core.exceptions import IncompatibleAttribute, IncompatibleDataException
from glue.core.link_helpers import LinkSame, LinkTwoWay
from glue.core.subset import RangeSubsetState, SliceSubsetState

from vf.common import affine_matrix, exc_name, injective_floats, rand_floats, rand_ints

ID = "C16"
LEVEL = "exploration"
BUDGET_S = {"quick": 20.0, "thorough": 140.0}
RULE = ("a case is a block of worlds; a world = master dataset T (1-3 dims, <=5 per axis) + sources A, B whose pixel "
        "frames are affine functions of T's (link modes: axis = per-axis scale/offset/flip/permutation via LinkTwoWay or "
        "LinkSame, chain = B linked through A, coupled = one-way multi-input ComponentLinks, world = LinkSame on world "
        "axes of AffineCoordinates with diagonal / symmetric / full matrices); per world a history of 6-20 requests "
        "(attribute: float with NaN/inf, injective float, int, derived, dask; mask: inequality, and/or/not, range, "
        "pixel, equal twin objects) over two cache ids, each request a one-aspect mutation of the previous one under "
        "that id, a fresh one or a replay; each executed without and with the id. Viewer cases drive "
        "Image(Subset)LayerState.get_sliced_data through slice / axis / aggregation / attribute / selection / "
        "reference histories. A comparison is non-trivial when the expected buffer has at least one sample inside the "
        "source; distinct = distinct (world, request) fingerprints.")
ASSUMPTIONS = ["the harness-defined link functions (a*x+b and its inverse, small linear combinations) and "
               "AffineCoordinates matrices are the specification of the linked position",
               "sample positions whose linked coordinate is within 1e-9 of a half-integer are ties: either neighbour "
               "(or inside/outside at the array edge) is accepted; cached and uncached results must still agree exactly",
               "raw numpy arrays held by the harness are the source values (data are never mutated)",
               "with broadcast=False a ranged dimension that does not influence the source may raise the documented "
               "IncompatibleDataException; requests between datasets without a link route are outside the statement "
               "(tallied, cached and uncached outcome must agree)",
               "selection objects are never mutated in place between requests (the statement quantifies over "
               "selections requested, not over mutation of one object); triangular / permuted coordinate matrices "
               "are excluded here because their world->pixel shortcut is C15's finding"]
ANCHORS = ["glue.core.fixed_resolution_buffer:compute_fixed_resolution_buffer",
           "glue.core.fixed_resolution_buffer:translate_pixel",
           "glue.core.fixed_resolution_buffer:bounds_for_cache",
           "glue.viewers.image.state:BaseImageLayerState.get_sliced_data",
           "glue.viewers.image.state:ImageViewerState.numpy_slice_aggregation_transpose"]

EPS = 1e-9
MODES = ["axis", "axis", "axis", "chain", "coupled", "coupled", "world", "world"]
N_BLOCKS = {"quick": 640, "thorough": 6400}
N_VIEWER = {"quick": 192, "thorough": 1600}
WORLDS_PER_BLOCK = 4


# ---------------------------------------------------------------- link functions (the specification of "linked position")
class Lin(object):
    def __init__(self, a, b):
        self.a, self.b = a, b

    def __call__(self, x):
        return self.a * x + self.b


class LinInv(object):
    def __init__(self, a, b):
        self.a, self.b = a, b

    def __call__(self, y):
        return (y - self.b) / self.a


class Comb(object):
    def __init__(self, ms, c):
        self.ms, self.c = list(ms), c

    def __call__(self, *xs):
        acc = self.ms[0] * xs[0]
        for m, x in zip(self.ms[1:], xs[1:]):
            acc = acc + m * x
        return acc + self.c


# ---------------------------------------------------------------- world model
class DS(object):
    """A glue dataset plus what the oracle knows about it: raw arrays, pixel = M u + c (u = T's pixel frame)."""

    def __init__(self, name, shape):
        self.name = name
        self.shape = tuple(shape)
        self.ndim = len(shape)
        self.arrays = {}
        self.M = None
        self.c = None
        self.axis = None        # [(k, a, b)] per own axis when every axis follows exactly one master axis
        self.data = None
        self.states = []        # (kind, glue state, numpy function arrays->mask)
        self.dask = False
        self.atts = []
        self.aligned = {}       # name of a dataset this one is pixel-aligned with -> [its axis for each own axis]


def fill_components(rng, ds, coords=None, dask=False):
    kw = {}
    if coords is not None:
        kw["coords"] = coords
    d = Data(label=ds.name, **kw)
    v = rand_floats(rng, ds.shape, p_special=0.25)
    w = injective_floats(rng, ds.shape)
    i = rand_ints(rng, ds.shape)
    ds.layouts = []

    def lay(arr):
        out, name = relayout(rng, arr)
        ds.layouts.append(name)
        return out
    d.add_component(lay(v), "v")
    d.add_component(lay(w), "w")
    d.add_component(lay(i), "i")
    d.add_component_link(d.id["w"] * 2 + d.id["v"], "der")
    ds.arrays = {"v": v, "w": w, "i": i.astype(float), "der": w * 2 + v}
    ds.atts = ["v", "w", "i", "der"]
    # dtype variants of the stored component (the buffer is float whatever the storage)
    extra = {"u8": rand_ints(rng, ds.shape, 0, 255).astype(np.uint8), "i1": rand_ints(rng, ds.shape, -128, 127).astype(np.int8),
             "f4": rand_floats(rng, ds.shape, p_special=0.2).astype(np.float32), "be": (w * 1e-10 + 7).astype(">f8"),
             "big": (w * 1e12).astype(float),
             "bc": np.broadcast_to(injective_floats(rng, ds.shape[-1:]), ds.shape)}      # stride-0, read-only
    for name in rng.sample(sorted(extra), 3):
        arr = extra[name]
        d.add_component(arr if name == "bc" else lay(arr), name)
        ds.arrays[name] = np.array(arr, dtype=float)
        ds.atts.append(name)
    if dask:
        import dask.array as da
        from glue.core.component import DaskComponent
        dk = w * 3.0 - 1.0
        d.add_component(DaskComponent(da.from_array(dk, chunks=2)), "dk")
        ds.arrays["dk"] = dk
        ds.atts.append("dk")
        ds.dask = True
    ds.data = d
    return d


def relayout(rng, arr):
    """The same values in a different memory layout."""
    kind = rng.choice(["c", "c", "fortran", "strided", "reversed", "transposed_copy"])
    if kind == "fortran":
        return np.asfortranarray(arr), kind
    if kind == "strided":
        big = np.zeros((arr.shape[0] * 2,) + arr.shape[1:], dtype=arr.dtype)
        big[::2] = arr
        return big[::2], kind
    if kind == "reversed":
        return arr[::-1].copy()[::-1], kind
    if kind == "transposed_copy":
        return arr.T.copy().T, kind
    return arr, "c"


def backward_slice(rng, n):
    """A slice that runs backwards (negative step), possibly selecting nothing."""
    r = rng.random()
    st = -rng.choice([1, 1, 2, 3])
    if r < 0.3:
        return slice(None, None, st)
    if r < 0.5:
        return slice(n - 1, 0, st)
    if r < 0.7:
        hi = rng.randrange(n)
        lo = rng.randrange(-1, hi + 1)
        return slice(hi, lo if lo >= 0 else None, st)
    if r < 0.85:
        return slice(None, rng.randrange(n), st)
    return slice(rng.randrange(n), None, st)


def backward_slices(rng, shape):
    nd = len(shape)
    must = rng.randrange(nd)
    out = []
    for j, n in enumerate(shape):
        r = rng.random()
        if j == must or r < 0.4:
            out.append(backward_slice(rng, n))
        elif r < 0.7:
            out.append(slice(None))
        else:
            a_ = rng.randrange(n)
            out.append(slice(a_, rng.randint(a_, n), rng.choice([None, 1, 2])))
    return out


def slice_mask(shape, slices):
    m = np.zeros(shape, dtype=bool)
    m[tuple(slices)] = True
    return m


def make_states(rng, ds, world=None):
    d, a = ds.data, ds.arrays
    wv = sorted(a["w"].ravel().tolist())
    t1 = rng.choice(wv)
    t2 = round(rng.uniform(-2, 2), 2)
    lo, hi = sorted([rng.choice(wv), rng.choice(wv)])
    j = rng.randrange(ds.ndim)
    k = rng.randrange(ds.shape[j])
    pix = np.indices(ds.shape)[j]
    out = [
        ("gt", d.id["w"] > t1, lambda a, t1=t1: a["w"] > t1),
        ("gt_twin", d.id["w"] > t1, lambda a, t1=t1: a["w"] > t1),
        ("le_nan", d.id["v"] <= t2, lambda a, t2=t2: a["v"] <= t2),
        ("and", (d.id["w"] > t1) & (d.id["v"] < t2), lambda a, t1=t1, t2=t2: (a["w"] > t1) & (a["v"] < t2)),
        ("or_not", (d.id["i"] >= 2) | ~(d.id["w"] > t1), lambda a, t1=t1: (a["i"] >= 2) | ~(a["w"] > t1)),
        ("range", RangeSubsetState(lo, hi, att=d.id["w"]), lambda a, lo=lo, hi=hi: (a["w"] >= lo) & (a["w"] <= hi)),
        ("pixel", d.pixel_component_ids[j] >= k, lambda a, pix=pix, k=k: pix >= k),
        ("selects_nothing", d.id["w"] > wv[-1] + 1.0, lambda a, t=wv[-1] + 1.0: a["w"] > t),
        ("selects_all", d.id["w"] >= wv[0] - 1.0, lambda a, t=wv[0] - 1.0: a["w"] >= t),
    ]
    # a selection defined on the *master's* pixel axis, evaluated on this linked dataset through the inverse link
    if world is not None and world.mode in ("axis", "chain") and ds.name != "T" and ds.axis is not None:
        T = world.ds["T"]
        j2 = rng.randrange(ds.ndim)
        k2, a2, b2 = ds.axis[j2]
        idx = np.indices(ds.shape)[j2].astype(float)
        upos = (idx - b2) / a2
        cut = float(np.floor(np.median(upos))) + 0.37      # never equal to a linked position
        out.append(("pixel_of_linked_master", T.data.pixel_component_ids[k2] >= cut, lambda a, m=(upos >= cut): m))
    # selections by array slices that run backwards, defined on the dataset itself ...
    from glue.viewers.image.pixel_selection_subset_state import PixelSubsetState
    sl = backward_slices(rng, ds.shape)
    out.append(("slice_backward", SliceSubsetState(d, list(sl)), lambda a, m=slice_mask(ds.shape, sl): m))
    sl = backward_slices(rng, ds.shape)
    out.append(("pixelstate_backward", PixelSubsetState(d, list(sl)), lambda a, m=slice_mask(ds.shape, sl): m))
    # ... and on a dataset this one is pixel-aligned with (identity links, possibly permuted axes): own axis j
    # follows the reference's slice for its axis order[j]; reference axes this dataset lacks are left unsliced
    if world is not None:
        for rname, order in sorted(ds.aligned.items()):
            ref = world.ds[rname]
            own = backward_slices(rng, ds.shape)
            rsl = [slice(None)] * ref.ndim
            for j_, i_ in enumerate(order):
                rsl[i_] = own[j_]
            out.append(("slice_backward_on_aligned_%s" % ("permuted" if order != sorted(order) else "same_order"),
                        SliceSubsetState(ref.data, rsl), lambda a, m=slice_mask(ds.shape, own): m))
    ds.states = out


class World(object):
    def __init__(self):
        self.eps = EPS          # half-width of the tie band, relative to the magnitudes the linked position goes through
        self.mode = None
        self.ds = {}
        self.dc = None
        self.descr = {}

    # -- the oracle's map: positions in D's pixel frame for a grid given in G's pixel frame (None = no link route)
    def map(self, G, D, grid):
        if G is D:
            return [np.asarray(g, dtype=float) for g in grid]
        T = self.ds["T"]
        nT = T.ndim
        u = {}
        if G is T:
            for k in range(nT):
                u[k] = np.asarray(grid[k], dtype=float)
        elif self.mode in ("axis", "chain") and G.axis is not None:
            for i, (k, a, b) in enumerate(G.axis):
                u[k] = (np.asarray(grid[i], dtype=float) - b) / a
        elif self.mode == "world":
            Minv = np.linalg.inv(G.M)
            for k in range(nT):
                acc = 0.0
                for i in range(G.ndim):
                    acc = acc + Minv[k, i] * (np.asarray(grid[i], dtype=float) - G.c[i])
                u[k] = acc
        else:
            return None
        out = []
        for j in range(D.ndim):
            ks = [k for k in range(nT) if D.M[j, k] != 0]
            if any(k not in u for k in ks):
                return None
            if D.axis is not None and self.mode in ("axis", "chain"):
                k, a, b = D.axis[j]
                out.append(a * u[k] + b)
            else:
                acc = D.M[j, ks[0]] * u[ks[0]]
                for k in ks[1:]:
                    acc = acc + D.M[j, k] * u[k]
                out.append(acc + D.c[j])
        return out

    def contributing(self, G, D):
        """Dimensions of G that influence at least one pixel axis of D."""
        if G is D:
            return set(range(G.ndim))
        if self.mode == "world":
            return set(range(G.ndim))
        T = self.ds["T"]
        master = set(k for j in range(D.ndim) for k in range(T.ndim) if D.M[j, k] != 0)
        if G is T:
            return master
        if G.axis is None:
            return set()
        return set(i for i, (k, a, b) in enumerate(G.axis) if k in master)


SCALES = [1.0, 1.0, 1.0, 2.0, 0.5, -1.0, 1.5, 3.0, -2.0]
OFFSETS = [0.0, 0.0, 0.0, 1.0, -1.0, 0.25, 2.0, -0.75, 0.5]


def rshape(rng, nd, lo=1, hi=5):
    return tuple(rng.randint(lo, hi) for _ in range(nd))


def build_world(rng, viewer=False):
    w = World()
    mode = rng.choice(MODES if not viewer else ["axis", "axis", "chain", "coupled", "world"])
    w.mode = mode
    ndT = rng.choice([2, 3, 3]) if viewer else rng.choice([1, 2, 2, 3, 3])
    minlen = 2 if viewer else 1
    T = DS("T", rshape(rng, ndT, minlen))
    T.M, T.c = np.eye(ndT), np.zeros(ndT)
    T.axis = [(k, 1.0, 0.0) for k in range(ndT)]
    A, B = None, None
    links = []
    descr = {"mode": mode, "T": list(T.shape)}
    with_dask = rng.random() < 0.15
    big = (not viewer) and mode in ("axis", "chain") and rng.random() < 0.06
    if big:
        ndT = rng.choice([1, 2])
        T = DS("T", rshape(rng, ndT, 20, 150) if ndT == 1 else rshape(rng, ndT, 8, 30))
        T.M, T.c = np.eye(ndT), np.zeros(ndT)
        T.axis = [(k, 1.0, 0.0) for k in range(ndT)]
        descr = {"mode": mode, "T": list(T.shape), "big": True}

    if mode == "world":
        # all coupling patterns (the coordinate shortcuts that were wrong for triangular / permuted matrices are repaired):
        # permuted = a transposed cube, triangular = sheared, full = every world axis depends on every pixel axis
        kinds = ["diagonal", "coupled_symmetric", "full", "coupled_triangular", "coupled_triangular", "permuted", "permuted"]
        kT = rng.choice(kinds)
        Mt = affine_matrix(rng, ndT, kT)
        unit = rng.choice([1.0, 1.0, 1e-6, 1e3, 1e-10])     # world units: the same physical frame in other units / origin
        origin = rng.choice([0.0, 0.0, 1e4])

        def rescale(M):
            M = M.copy()
            M[:ndT, ndT] += origin
            M[:ndT, :] *= unit
            return M
        Mt = rescale(Mt)
        descr["world_unit"], descr["world_origin"] = unit, origin
        fill_components(rng, T, coords=AffineCoordinates(Mt))
        descr["T_matrix"] = Mt.tolist()
        srcs = []
        for name in ("A", "B"):
            X = DS(name, rshape(rng, ndT, minlen))
            kX = rng.choice(kinds)
            Mx = rescale(affine_matrix(rng, ndT, kX))
            H = np.linalg.solve(Mx, Mt)
            X.M = H[:ndT, :ndT][::-1, ::-1].copy()
            X.c = H[:ndT, ndT][::-1].copy()
            fill_components(rng, X, coords=AffineCoordinates(Mx), dask=(with_dask and name == "A"))
            descr[name] = {"shape": list(X.shape), "matrix": Mx.tolist(), "kinds": [kT, kX]}
            descr["reference_matrix_kind"] = kT
            for i in range(ndT):
                links.append(LinkSame(T.data.world_component_ids[i], X.data.world_component_ids[i]))
            srcs.append(X)
        A, B = srcs
    else:
        fill_components(rng, T)

        def axis_source(name, parent, same_shape_as=None, dask=False):
            """pixel axis j of the new dataset = a * (pixel axis i of parent) + b, distinct i."""
            if viewer:
                nX = rng.randint(2, parent.ndim) if parent.ndim >= 2 else parent.ndim
            else:
                nX = rng.randint(1, parent.ndim)
            shape = rshape(rng, nX, minlen)
            if dask:
                shape = rshape(rng, nX, 3, 7)      # room for requests strictly inside (sub-region offset > 0)
            if big:
                shape = rshape(rng, nX, 20, 150) if nX == 1 else rshape(rng, nX, 8, 30)
            if same_shape_as is not None and same_shape_as.ndim == nX and rng.random() < 0.5:
                shape = same_shape_as.shape
            aligned = rng.random() < 0.3          # every axis an identity link: a pixel-aligned (maybe permuted) dataset
            perm = rng.sample(range(parent.ndim), nX)
            if aligned and rng.random() < 0.7:
                shape = tuple(parent.shape[i] for i in perm)
            X = DS(name, shape)
            X.M = np.zeros((nX, ndT))
            X.c = np.zeros(nX)
            X.axis = []
            fill_components(rng, X, dask=dask)
            spec = []
            for j in range(nX):
                a = rng.choice(SCALES)
                b = rng.choice(OFFSETS)
                if aligned:
                    a, b = 1.0, 0.0
                if a < 0 and rng.random() < 0.7:
                    b = float(shape[j] - 1)      # a flip that stays inside the array
                if parent is T and not aligned and rng.random() < 0.12:
                    # magnitudes: the source sits at master coordinates around U0 (1e5 .. 1e9) with pixels 1e-6 .. 1e3 wide
                    a, U0 = rng.choice([(1e-3, 1e6), (1e-3, 1e9), (1e3, 1e6), (1e3, -2.5e5), (1e-6, 1e9), (0.5, -3e7)])
                    b = -(a * U0)
                    w.eps = max(w.eps, 1e-14 * abs(b))
                    descr["far_axes"] = descr.get("far_axes", 0) + 1
                i = perm[j]
                pk, pa, pb = parent.axis[i]
                X.axis.append((pk, a * pa, a * pb + b))
                X.M[j, pk] = a * pa
                X.c[j] = a * pb + b
                pc, xc = parent.data.pixel_component_ids[i], X.data.pixel_component_ids[j]
                if a == 1.0 and b == 0.0 and (aligned or rng.random() < 0.6):
                    links.append(LinkSame(pc, xc))
                    spec.append([i, "same"])
                else:
                    links.append(LinkTwoWay(pc, xc, Lin(a, b), LinInv(a, b)))
                    spec.append([i, a, b])
            descr[name] = {"shape": list(shape), "parent": parent.name, "axes": spec}
            X.parent = parent.name
            X.links = links[-nX:]
            if all(sp[1] == "same" for sp in spec):
                X.aligned[parent.name] = list(perm)
                descr[name]["pixel_aligned_with"] = parent.name
            return X

        def coupled_source(name, dask=False):
            nX = rng.randint(2 if (viewer and ndT >= 2) else 1, ndT)
            X = DS(name, rshape(rng, nX, minlen))
            X.M = np.zeros((nX, ndT))
            X.c = np.zeros(nX)
            fill_components(rng, X, dask=dask)
            spec = []
            lead = rng.sample(range(ndT), nX)
            for j in range(nX):
                ks = [lead[j]]
                if ndT > 1 and rng.random() < 0.6:
                    ks.append(rng.choice([k for k in range(ndT) if k != lead[j]]))
                ks.sort()
                ms = [rng.choice([1.0, 1.0, 0.5, -1.0, 2.0]) if k == lead[j] else rng.choice([0.5, 0.25, -0.5, 1.0])
                      for k in ks]
                c = rng.choice(OFFSETS)
                for k, m in zip(ks, ms):
                    X.M[j, k] = m
                X.c[j] = c
                links.append(ComponentLink([T.data.pixel_component_ids[k] for k in ks], X.data.pixel_component_ids[j],
                                           using=Comb(ms, c)))
                spec.append([ks, ms, c])
            descr[name] = {"shape": list(X.shape), "rows": spec}
            return X

        if mode == "axis":
            A = axis_source("A", T, dask=with_dask)
            B = axis_source("B", T, same_shape_as=A)
        elif mode == "chain":
            A = axis_source("A", T, dask=with_dask)
            B = axis_source("B", A)
        else:
            A = coupled_source("A", dask=with_dask)
            B = coupled_source("B")
    w.ds = {"T": T, "A": A, "B": B}
    for X in w.ds.values():
        make_states(rng, X, w)
    order = [T, A, B]
    rng.shuffle(order)
    w.dc = DataCollection([X.data for X in order])
    rng.shuffle(links)
    for l in links:
        w.dc.add_link(l)
    descr["dask"] = with_dask
    w.descr = descr
    return w


# ---------------------------------------------------------------- the oracle
def positions(bound):
    if isinstance(bound, tuple):
        lo, hi, n = bound
        if n == 1:
            return np.array([float(lo)])
        return np.array([float(lo) + k * (float(hi) - float(lo)) / (n - 1) for k in range(n)])
    return np.array([float(bound)])


def resample(full, dpos, shape, blank, eps=EPS):
    """All acceptable nearest-pixel buffers (one per way of resolving near-ties) and the mask of samples outside."""
    nD = len(shape)
    dpos = [np.clip(p, -1e15, 1e15) for p in dpos]
    ups = [np.floor(p + 0.5 + eps).astype(np.int64) for p in dpos]
    dns = [np.ceil(p - 0.5 - eps).astype(np.int64) for p in dpos]
    tie_axes = [j for j in range(nD) if np.any(ups[j] != dns[j])]
    variants = []
    outside0 = None
    for choice in itertools.product([0, 1], repeat=len(tie_axes)):
        idx = list(ups)
        for j, c in zip(tie_axes, choice):
            if c:
                idx[j] = dns[j]
        idx = np.broadcast_arrays(*idx)
        outside = np.zeros(idx[0].shape, dtype=bool)
        safe = []
        for j in range(nD):
            bad = (idx[j] < 0) | (idx[j] >= shape[j])
            outside |= bad
            safe.append(np.where(bad, 0, idx[j]))
        val = np.array(full[tuple(safe)], dtype=float)
        val[outside] = blank
        variants.append(val)
        if outside0 is None:
            outside0 = outside
    return variants, outside0


def cell_ok(got, variants):
    ok = np.zeros(got.shape, dtype=bool)
    for v in variants:
        ok |= (got == v) | (np.isnan(got) & np.isnan(v))
    return ok


def expected(world, req):
    D, G = world.ds[req["data"]], world.ds[req["target"]]
    bounds = req["bounds"]
    axes = [positions(b) for b in bounds]
    grid = np.meshgrid(*axes, indexing="ij")
    dpos = world.map(G, D, grid)
    if dpos is None:
        return {"kind": "unlinked"}
    if req["what"][0] == "att":
        full = D.arrays[req["what"][1]]
        blank = np.nan
    else:
        full = D.states[req["what"][1]][2](D.arrays).astype(float)
        blank = 0.0
    dpos = [np.broadcast_to(p, grid[0].shape) for p in dpos]
    variants, outside = resample(full, dpos, D.shape, blank, world.eps)
    drop = tuple(slice(None) if isinstance(b, tuple) else 0 for b in bounds)
    variants = [v[drop] for v in variants]
    outside = outside[drop]
    contrib = world.contributing(G, D)
    may_raise = (not req["broadcast"]) and (G is not D) and any(
        isinstance(b, tuple) and i not in contrib for i, b in enumerate(bounds))
    first_positive = bool(outside.size) and not outside.any() and all(float(np.min(p)) >= 0.6 for p in dpos)
    return {"kind": "array", "variants": variants, "outside": outside, "may_raise_incompatible": may_raise,
            "ties": len(variants) > 1, "first_index_positive": first_positive}


# ---------------------------------------------------------------- requests
def rand_scalar(rng, n):
    r = rng.random()
    if r < 0.35:
        return rng.randrange(n)
    if r < 0.5:
        return float(rng.randrange(n))
    if r < 0.53:
        return np.int64(rng.randrange(n))
    if r < 0.56:
        return np.float64(rng.randrange(n))
    if r < 0.78:
        return rng.choice([-1, n, n + 1, -2.0, float(n) + 3.0])
    if r < 0.9:
        return rng.randrange(-1, n) + 0.5
    return rng.randrange(n) + rng.choice([0.25, -0.25, 0.4])


def rand_range(rng, n):
    if rng.random() < 0.3:
        return (0, n - 1, n)
    lo = rng.choice([-1.5, -1.0, -0.5, 0.0, 0.0, 0.0, 0.25, 1.0, float(n - 1), float(n + 1)])
    span = rng.randint(0, n + 1)
    hi = lo + span
    steps = span + 1 if rng.random() < 0.6 else rng.randint(1, 6)
    if rng.random() < 0.1:
        lo, hi = hi, lo
    if rng.random() < 0.3 and float(lo).is_integer() and float(hi).is_integer():
        lo, hi = int(lo), int(hi)
    return (lo, hi, steps)


def rand_bound(rng, n, p_scalar=0.4):
    return rand_scalar(rng, n) if rng.random() < p_scalar else rand_range(rng, n)


def inside_range(rng, n):
    """A range whose samples all fall strictly inside a source axis of length n >= 3 (first index >= 1)."""
    lo = rng.randint(1, n - 2)
    hi = rng.randint(lo, n - 2)
    return (lo, hi, hi - lo + 1) if rng.random() < 0.7 else (float(lo), float(hi), rng.randint(1, 5))


def axis_to_source(world, G, D, i):
    """(a, b, n): the D axis that follows dimension i of G, as position = a * g + b; None when there is no such axis."""
    if G is D:
        return 1.0, 0.0, D.shape[i]
    if G is world.ds["T"] and D.axis is not None and world.mode in ("axis", "chain"):
        for j, (k, a, b) in enumerate(D.axis):
            if k == i:
                return a, b, D.shape[j]
    return None


def to_target(bound, a, b):
    if isinstance(bound, tuple):
        return ((bound[0] - b) / a, (bound[1] - b) / a, bound[2])
    return (float(bound) - b) / a


def gen_bound(rng, world, G, D, i, want=None):
    """A bound for dimension i of G: generic, or aimed at the source (drawn in the source's index space and mapped back
    through the known link - this is what reaches far-away / strictly-inside positions)."""
    n = G.shape[i]
    m = axis_to_source(world, G, D, i)
    scalar = (rng.random() < 0.4) if want is None else (want == "scalar")
    if m is not None:
        a, b, ns = m
        far = abs(b) > 1e3 or abs(a) > 100 or abs(a) < 0.01
        if D.dask and ns >= 3 and not scalar and rng.random() < 0.7:
            return to_target(inside_range(rng, ns), a, b)
        if far and rng.random() < 0.85 or ((a, b) != (1.0, 0.0) and rng.random() < 0.2):
            src = rand_scalar(rng, ns) if scalar else rand_range(rng, ns)
            return to_target(src, a, b)
    return rand_scalar(rng, n) if scalar else rand_range(rng, n)


def rand_what(rng, D):
    if rng.random() < 0.55:
        return ("att", rng.choice(D.atts))
    return ("state", rng.randrange(len(D.states)))


def fresh_request(rng, world):
    dname = rng.choice(["A", "A", "B", "B", "T"])
    r = rng.random()
    if r < 0.6:
        tname = "T"
    elif r < 0.75:
        tname = dname
    else:
        tname = rng.choice(["A", "B", "T"])
    D, G = world.ds[dname], world.ds[tname]
    return {"data": dname, "target": tname, "bounds": [gen_bound(rng, world, G, D, i) for i in range(G.ndim)],
            "what": rand_what(rng, D), "broadcast": rng.random() < 0.75}


def same_scalar_class(a, b):
    return (not isinstance(a, tuple)) and (not isinstance(b, tuple)) and float(a) == float(b)


def mutate_request(rng, world, prev):
    """One-aspect change of the previous request; returns (request, step kind)."""
    req = dict(prev)
    req["bounds"] = list(prev["bounds"])
    D, G = world.ds[req["data"]], world.ds[req["target"]]
    contrib = world.contributing(G, D)
    scal = [i for i, b in enumerate(req["bounds"]) if not isinstance(b, tuple)]
    rang = [i for i, b in enumerate(req["bounds"]) if isinstance(b, tuple)]
    for _ in range(8):
        kind = rng.choice(["scalar", "scalar", "scalar", "scalar_free", "scalar_free", "range", "range", "to_range",
                           "to_scalar", "attribute", "attribute", "state", "state", "att_state", "data", "target",
                           "broadcast"])
        if kind == "scalar" and scal:
            i = rng.choice(scal)
            new = gen_bound(rng, world, G, D, i, "scalar")
            if same_scalar_class(new, req["bounds"][i]):
                continue
            req["bounds"][i] = new
            return req, ("scalar_contributing" if i in contrib else "scalar_noncontributing")
        if kind == "scalar_free":
            free = [i for i in scal if i not in contrib]
            if not free:
                continue
            i = rng.choice(free)
            new = gen_bound(rng, world, G, D, i, "scalar")
            if same_scalar_class(new, req["bounds"][i]):
                continue
            req["bounds"][i] = new
            return req, "scalar_noncontributing"
        if kind == "range" and rang:
            i = rng.choice(rang)
            new = gen_bound(rng, world, G, D, i, "range")
            if new == req["bounds"][i]:
                continue
            req["bounds"][i] = new
            return req, ("range_contributing" if i in contrib else "range_noncontributing")
        if kind == "to_range" and scal:
            i = rng.choice(scal)
            req["bounds"][i] = gen_bound(rng, world, G, D, i, "range")
            return req, "scalar_to_range"
        if kind == "to_scalar" and rang:
            i = rng.choice(rang)
            req["bounds"][i] = gen_bound(rng, world, G, D, i, "scalar")
            return req, "range_to_scalar"
        if kind == "attribute" and req["what"][0] == "att":
            new = rng.choice(D.atts)
            if new == req["what"][1]:
                continue
            req["what"] = ("att", new)
            return req, "attribute"
        if kind == "state" and req["what"][0] == "state":
            new = rng.randrange(len(D.states))
            if new == req["what"][1]:
                continue
            twin = D.states[new][0].startswith("gt") and D.states[req["what"][1]][0].startswith("gt")
            req["what"] = ("state", new)
            return req, ("state_equal_twin" if twin else "state")
        if kind == "att_state":
            req["what"] = ("state", rng.randrange(len(D.states))) if req["what"][0] == "att" else ("att", rng.choice(D.atts))
            return req, "attribute_vs_mask"
        if kind == "data":
            others = [n for n in ("A", "B", "T") if n != req["data"]]
            new = rng.choice(others)
            if req["target"] == req["data"]:
                continue
            req["data"] = new
            N = world.ds[new]
            if req["what"][0] == "state" and req["what"][1] >= len(N.states):
                req["what"] = ("state", rng.randrange(len(N.states)))
            if req["what"][0] == "att":
                if req["what"][1] not in N.atts:
                    req["what"] = ("att", "w")
            return req, ("data_same_shape" if N.shape == D.shape else "data")
        if kind == "target":
            others = [n for n in ("A", "B", "T") if n != req["target"] and world.ds[n].ndim == G.ndim]
            if not others:
                continue
            req["target"] = rng.choice(others)
            return req, "target"
        if kind == "broadcast":
            req["broadcast"] = not req["broadcast"]
            return req, "broadcast"
    return fresh_request(rng, world), "fresh"


def describe_bound(b):
    if isinstance(b, tuple):
        return [float(b[0]), float(b[1]), int(b[2])]
    return [type(b).__name__, float(b)]


def describe_request(world, req):
    D = world.ds[req["data"]]
    what = list(req["what"])
    if what[0] == "state":
        what.append(D.states[what[1]][0])
    return {"data": req["data"], "target": req["target"], "bounds": [describe_bound(b) for b in req["bounds"]],
            "what": what, "broadcast": req["broadcast"]}


def bound_class(b, n):
    if isinstance(b, tuple):
        lo, hi = min(b[0], b[1]), max(b[0], b[1])
        if hi < -0.5 or lo > n - 0.5:
            return "range_wholly_outside"
        if lo < -0.5 or hi > n - 0.5:
            return "range_partly_outside"
        return "range_inside"
    if b < -0.5 or b > n - 0.5:
        return "scalar_outside"
    return "scalar_inside"


# ---------------------------------------------------------------- execution and comparison
def execute(world, req, cache_id, self_target_as_none):
    D, G = world.ds[req["data"]], world.ds[req["target"]]
    kw = {"broadcast": req["broadcast"]}
    if not (G is D and self_target_as_none):
        kw["target_data"] = G.data
    if req["what"][0] == "att":
        kw["target_cid"] = D.data.id[req["what"][1]]
    else:
        kw["subset_state"] = D.states[req["what"][1]][1]
    if cache_id is not None:
        kw["cache_id"] = cache_id
    try:
        out = D.data.compute_fixed_resolution_buffer(list(req["bounds"]), **kw)
    except Exception as e:   # classified by judge()
        return {"kind": "exc", "exc": e}
    return {"kind": "array", "array": out}


def np_scalar_vs_range(req, residents):
    """Structural trigger of a known mechanism: under this id a numpy scalar bound meets a (min, max, n) tuple at the
    same position of a request that may still be resident in the caches."""
    for old in residents:
        if old is None or len(old["bounds"]) != len(req["bounds"]):
            continue
        for a, b in zip(old["bounds"], req["bounds"]):
            if (isinstance(a, np.generic) and isinstance(b, tuple)) or (isinstance(b, np.generic) and isinstance(a, tuple)):
                return True
    return False


def base_sig(world, req, cached, step):
    D = world.ds[req["data"]]
    dask_path = D.dask and (req["what"][0] == "state" or req["what"][1] == "dk")
    selection = None
    if req["what"][0] == "state":
        selection = "backward_slices" if "backward" in D.states[req["what"][1]][0] else "other"
    return {"request": "attribute" if req["what"][0] == "att" else "mask", "cached": cached, "link_mode": world.mode,
            "selection": selection, "links_changed_under_id": bool(getattr(world, "links_changed", False)),
            "dask_path": bool(dask_path), "self_target": req["data"] == req["target"],
            "after": step if cached else None}


def judge(ctx, world, req, exp, out, cached, step, clash=False):
    """Compare one real outcome with the oracle.  Returns True when it was a value comparison that passed."""
    tag = "cached" if cached else "uncached"
    sig = base_sig(world, req, cached, step)
    detail = lambda **kw: dict(world=world.descr, request=describe_request(world, req), step=step, **kw)
    if exp["kind"] == "unlinked":
        if out["kind"] == "exc":
            ctx.count("out_of_domain_unlinked_%s%s" % (exc_name(out["exc"]), "_numpy_scalar_vs_range_under_id" if (cached and clash) else ""))
        else:
            ctx.count("oracle_model_says_unlinked_but_array_returned")
        return False
    if out["kind"] == "exc":
        e = out["exc"]
        if exp["may_raise_incompatible"] and isinstance(e, IncompatibleDataException):
            ctx.count("documented_broadcast_false_exception_%s" % tag)
            return False
        sig.update(kind="exception", exc=exc_name(e), numpy_scalar_vs_range_under_id=bool(cached and clash),
                   broadcast_false=not req["broadcast"], unlinked_claim=isinstance(e, IncompatibleAttribute))
        ctx.violation(sig, detail(error=repr(e)[:300]))
        return False
    try:
        got = np.asarray(out["array"]).astype(float)
    except Exception as e:
        sig.update(kind="result_not_numeric", exc=exc_name(e))
        ctx.violation(sig, detail(error=repr(e)[:300]))
        return False
    v0 = exp["variants"][0]
    nontrivial = bool((~exp["outside"]).any())
    ctx.evaluation([world.descr, describe_request(world, req), cached], nontrivial)
    ctx.count("compared_%s" % tag)
    ctx.count("compared_%s_%s" % (sig["request"], world.mode))
    if exp["may_raise_incompatible"]:
        ctx.count("broadcast_false_noncontributing_range_returned_array")
    if not cached:
        o = exp["outside"]
        ctx.count("samples_%s" % ("all_outside" if o.all() else ("partly_outside" if o.any() else "all_inside")))
        if any(abs(float(x)) > 1e4 for b in req["bounds"] for x in (b[:2] if isinstance(b, tuple) else (b,))):
            ctx.count("requests_with_bounds_beyond_1e4")
        if sig["dask_path"] and exp["first_index_positive"]:
            ctx.count("dask_requests_strictly_inside_first_index_positive")
        if max(world.ds[req["data"]].shape) >= 20:
            ctx.count("requests_on_sources_of_20_or_more_per_axis")
    if got.shape != v0.shape:
        sig.update(kind="shape_mismatch", got_ndim=got.ndim, expected_ndim=v0.ndim)
        ctx.violation(sig, detail(got_shape=list(got.shape), expected_shape=list(v0.shape)))
        return False
    ok = cell_ok(got, exp["variants"])
    if exp["ties"]:
        ctx.count("comparisons_with_tie_samples")
    if ok.all():
        return True
    bad = ~ok
    where_out = bool((bad & exp["outside"]).any())
    where_in = bool((bad & ~exp["outside"]).any())
    sig.update(kind="value_mismatch",
               where="outside_not_blank" if (where_out and not where_in) else ("inside_wrong" if not where_out else "both"))
    ctx.violation(sig, detail(got=got, expected=v0, outside=exp["outside"]))
    return False


def same_result(a, b):
    if a["kind"] != b["kind"]:
        return False
    if a["kind"] == "exc":
        return type(a["exc"]) is type(b["exc"])
    try:
        x, y = np.asarray(a["array"]), np.asarray(b["array"])
        if x.shape != y.shape:
            return False
        return bool(np.array_equal(x.astype(float), y.astype(float), equal_nan=True))
    except Exception:
        return False


def cache_probe(cache_id):
    """Evidence only: identity of the cached array before a call (private module state; never deciding)."""
    try:
        from glue.core import fixed_resolution_buffer as m
        return m.ARRAY_CACHE.get(cache_id, {}).get("array", None)
    except Exception:
        return None


RUN_KINDS = ["attribute", "scalar", "scalar", "broadcast", "state", "nudge", "type_only"]
FAULTS = ["nsteps_zero", "both_arguments", "neither_argument", "short_bounds", "foreign_attribute"]


def copy_req(req):
    out = dict(req)
    out["bounds"] = list(req["bounds"])
    return out


def same_value_other_type(rng, b):
    v = float(b)
    cands = [float(v), np.float64(v), np.float32(v) if float(np.float32(v)) == v else float(v)]
    if v.is_integer() and abs(v) < 2 ** 31:
        cands += [int(v), np.int64(int(v)), np.int32(int(v))]
    cands = [c for c in cands if type(c) is not type(b)]
    return rng.choice(cands) if cands else None


def forced_mutation(rng, world, prev, kind, memo):
    """One step of a run: only the named aspect of the previous request changes (None when that is impossible)."""
    req = copy_req(prev)
    D, G = world.ds[req["data"]], world.ds[req["target"]]
    contrib = world.contributing(G, D)
    scal = [i for i, b in enumerate(req["bounds"]) if not isinstance(b, tuple)]
    if kind == "attribute":
        if req["what"][0] != "att":
            return None
        req["what"] = ("att", rng.choice([x for x in D.atts if x != req["what"][1]]))
        return req, "attribute"
    if kind == "state":
        if req["what"][0] != "state" or len(D.states) < 2:
            return None
        if rng.random() < 0.3 and len(D.states) < 20:
            # an equal-looking but new selection object that lives only for this request chain
            t = rng.choice(sorted(D.arrays["w"].ravel().tolist()))
            D.states.append(("fresh_object", D.data.id["w"] > t, lambda a, t=t: a["w"] > t))
            req["what"] = ("state", len(D.states) - 1)
            return req, "state_fresh_object"
        req["what"] = ("state", rng.choice([k for k in range(len(D.states)) if k != req["what"][1]]))
        return req, "state"
    if kind == "broadcast":
        req["broadcast"] = not req["broadcast"]
        return req, "broadcast"
    if not scal:
        return None
    i = memo.setdefault("dim", rng.choice(scal))
    if i not in scal:
        return None
    if kind == "scalar":
        new = gen_bound(rng, world, G, D, i, "scalar")
        if same_scalar_class(new, req["bounds"][i]):
            return None
        req["bounds"][i] = new
        return req, ("scalar_contributing" if i in contrib else "scalar_noncontributing")
    if kind == "type_only":
        new = same_value_other_type(rng, req["bounds"][i])
        if new is None:
            return None
        req["bounds"][i] = new
        return req, "scalar_same_value_other_type"
    if kind == "nudge":
        # two bounds that agree to ~1e-6 of a pixel (relative 1e-9 .. 1e-15 of the bound) but straddle a pixel boundary
        m = axis_to_source(world, G, D, i) or (1.0, 0.0, G.shape[i])
        a, b, ns = m
        edge = memo.setdefault("edge", rng.randrange(-1, ns) + 0.5)
        delta = max(1e-6, 200 * world.eps)
        side = memo["side"] = -memo.get("side", 1)
        req["bounds"][i] = (edge + side * delta - b) / a
        return req, ("nudge_across_pixel_edge_contributing" if i in contrib else "nudge_noncontributing")
    return None


def fault_call(ctx, world, prev, cache_id, kind):
    """A call that must fail, made under the cache id: whatever it leaves behind must not matter afterwards."""
    D, G = world.ds[prev["data"]], world.ds[prev["target"]]
    bounds = list(prev["bounds"])
    kw = {"target_data": G.data, "broadcast": prev["broadcast"], "cache_id": cache_id}
    if prev["what"][0] == "att":
        kw["target_cid"] = D.data.id[prev["what"][1]]
    else:
        kw["subset_state"] = D.states[prev["what"][1]][1]
    if kind == "nsteps_zero":
        i = ctx.rng.randrange(len(bounds))
        bounds[i] = (0.0, 1.0, 0)
    elif kind == "both_arguments":
        kw["target_cid"] = D.data.id["w"]
        kw["subset_state"] = D.states[0][1]
    elif kind == "neither_argument":
        kw.pop("target_cid", None)
        kw.pop("subset_state", None)
    elif kind == "short_bounds":
        bounds = bounds[:-1]
    elif kind == "foreign_attribute":
        other = [X for X in world.ds.values() if X is not D][0]
        kw.pop("subset_state", None)
        kw["target_cid"] = other.data.id["w"]       # a main component of another dataset: not derivable through pixel links
    try:
        D.data.compute_fixed_resolution_buffer(bounds, **kw)
        ctx.count("fault_call_%s_returned_normally" % kind)
    except Exception as e:
        ctx.count("fault_call_%s_%s" % (kind, exc_name(e)))
    ctx.count("fault_calls")


def change_links(ctx, world):
    """Replace the links of one source by a different map (atomically with set_links or one by one)."""
    rng = ctx.rng
    cands = [X for X in (world.ds["A"], world.ds["B"]) if getattr(X, "links", None) and X.parent == "T"]
    if world.mode != "axis" or not cands:
        return None
    X = rng.choice(cands)
    T = world.ds["T"]
    new_links, new_axis = [], []
    for j, (k, a, b) in enumerate(X.axis):
        a2 = rng.choice([s_ for s_ in (1.0, 2.0, 0.5, -1.0) if s_ != a] or [2.0])
        b2 = rng.choice([0.0, 1.0, -1.0, float(X.shape[j] - 1)])
        new_axis.append((k, a2, b2))
        new_links.append(LinkTwoWay(T.data.pixel_component_ids[k], X.data.pixel_component_ids[j], Lin(a2, b2), LinInv(a2, b2)))
    try:
        if rng.random() < 0.5:
            keep = [l for l in world.dc.external_links if not any(l is o for o in X.links)]
            world.dc.set_links(keep + new_links)
            how = "set_links"
        else:
            for l in X.links:
                world.dc.remove_link(l)
            for l in new_links:
                world.dc.add_link(l)
            how = "remove_add"
    except Exception as e:
        ctx.count("link_change_failed_%s" % exc_name(e))
        return None
    X.links = new_links
    X.axis = new_axis
    for j, (k, a, b) in enumerate(new_axis):
        X.M[j, :] = 0
        X.M[j, k] = a
        X.c[j] = b
    X.aligned = {}
    world.links_changed = True
    world.descr = dict(world.descr, links_changed=[X.name, how, [[k, a, b] for k, a, b in new_axis]])
    ctx.count("link_changes_%s" % how)
    return X


def run_history(ctx, world, case_tag, resident):
    rng = ctx.rng
    ids = ["c16:%s:0" % case_tag, ("c16", case_tag, 1)]
    last = {}
    past = []
    nsteps = rng.randint(6, 20)
    ctx.count("histories")
    ctx.count("worlds_%s" % world.mode)
    if world.descr.get("dask"):
        ctx.count("worlds_with_dask_component")
    if world.descr.get("big"):
        ctx.count("worlds_big")
    if world.descr.get("far_axes"):
        ctx.count("worlds_with_far_axes")
    if world.descr.get("world_unit", 1.0) != 1.0 or world.descr.get("world_origin", 0.0) != 0.0:
        ctx.count("worlds_world_mode_rescaled_units")
    for X in world.ds.values():
        for name in getattr(X, "layouts", []):
            ctx.count("component_layout_%s" % name)
    run = None
    step_no = 0
    attribute_only_tail = False
    if world.ds["T"].ndim >= 2 and rng.random() < (0.7 if world.mode == "world" else 0.15):
        # slice walk: under one id, a scalar slice index is stepped on each dimension of the reference in turn while the
        # other dimensions stay ranged (what an image viewer does when the user drags a slider, then changes the axes)
        T = world.ds["T"]
        dname = rng.choice(["A", "B", "A", "B", "T"])
        D = world.ds[dname]
        what = rand_what(rng, D)
        ctx.count("slice_walks")
        ctx.count("slice_walks_%s" % world.mode)
        if world.mode == "world":
            ctx.count("slice_walks_reference_matrix_%s" % world.descr.get("reference_matrix_kind"))
        dims = list(range(T.ndim))
        if rng.random() < 0.3:
            rng.shuffle(dims)
        for i in dims:
            n = T.shape[i]
            start = rng.randrange(n)
            vals = [start, (start + 1) % n, (start + 2) % n][:rng.randint(2, 3)]
            if rng.random() < 0.3:
                vals.append(vals[0])
            if rng.random() < 0.3 and D is not T:
                # step towards where the source actually is
                m = [gen_bound(rng, world, T, D, i, "scalar") for _ in range(2)]
                vals = vals[:1] + m + vals[1:]
            for v in vals:
                bounds = [(0, T.shape[k] - 1, T.shape[k]) if rng.random() < 0.7 else rand_range(rng, T.shape[k])
                          for k in range(T.ndim)]
                bounds[i] = v
                req = {"data": dname, "target": "T", "bounds": bounds, "what": what, "broadcast": True}
                prev = last.get(0)
                if prev is not None and prev["data"] == dname and prev["target"] == "T":
                    # keep the ranges of the previous request on the dimensions that stay ranged: only the slice moves
                    for k in range(T.ndim):
                        if k != i and isinstance(prev["bounds"][k], tuple):
                            req["bounds"][k] = prev["bounds"][k]
                step = "slice_walk_step_dim%d" % min(i, 2) if prev is not None else "first"
                do_step(ctx, world, ids, 0, req, step, prev, resident, step_no)
                ctx.count("slice_walk_requests")
                last[0] = req
                past.append(req)
                step_no += 1
            if rng.random() < 0.3:
                what = rand_what(rng, D)
    while step_no < nsteps:
        slot = 0 if rng.random() < 0.7 else 1
        req = None
        if run is not None:
            slot = run["slot"]
            prev = last.get(slot)
            if run["left"] == 0:
                req, step = copy_req(run["origin"]), "return_to_run_origin"
                ctx.count("runs_completed_%s" % run["kind"])
                run = None
            else:
                out = forced_mutation(rng, world, prev, run["kind"], run["memo"])
                if out is None:
                    run = None
                else:
                    req, step = out
                    run["left"] -= 1
        prev = last.get(slot)
        if req is None:
            r = rng.random()
            if prev is not None and r < 0.12 and not attribute_only_tail:
                # start a run: three to five consecutive requests under one id in which only one aspect changes,
                # then back to the request the run started from
                kind = rng.choice(RUN_KINDS)
                out = forced_mutation(rng, world, prev, kind, {})
                if out is not None:
                    run = {"kind": kind, "left": rng.randint(2, 4), "slot": slot, "origin": prev, "memo": {}}
                    out = forced_mutation(rng, world, prev, kind, run["memo"])
                if out is not None:
                    req, step = out
                    ctx.count("runs_started_%s" % kind)
                else:
                    run = None
            if req is None:
                if prev is None or r < 0.22:
                    req, step = fresh_request(rng, world), "fresh"
                elif r < 0.32 and past:
                    req, step = copy_req(rng.choice(past)), "replay_earlier"
                elif r < 0.38:
                    req, step = copy_req(prev), "repeat_last"
                else:
                    req, step = mutate_request(rng, world, prev)
        if prev is None:
            step = "first"
        if attribute_only_tail and req["what"][0] != "att":
            req["what"] = ("att", "w")
        if prev is not None and run is None and rng.random() < 0.06:
            fault_call(ctx, world, prev, ids[slot], rng.choice(FAULTS))
            step = step + "_after_failed_call" if step in ("repeat_last", "attribute", "scalar_contributing") else step
        do_step(ctx, world, ids, slot, req, step, prev, resident, step_no)
        last[slot] = req
        past.append(req)
        step_no += 1
        if step_no == nsteps - 2 and not attribute_only_tail and rng.random() < 0.25:
            # the last two requests follow a change of the links (data values untouched): repeat what is cached
            changed = change_links(ctx, world)
            if changed is not None:
                attribute_only_tail = True
                run = None
                for sl in sorted(last):
                    if last[sl]["what"][0] == "att":
                        do_step(ctx, world, ids, sl, copy_req(last[sl]), "repeat_after_links_changed", last[sl], resident, step_no)
    if rng.random() < 0.002:
        ctx.sample({"world": world.descr, "last_request": describe_request(world, past[-1])})


def do_step(ctx, world, ids, slot, req, step, prev, resident, step_no):
    rng = ctx.rng
    D, G = world.ds[req["data"]], world.ds[req["target"]]
    for b, n in zip(req["bounds"], G.shape):
        ctx.count("bound_%s" % bound_class(b, n))
    ctx.count("step_%s" % step)
    ctx.count("what_%s" % (req["what"][1] if req["what"][0] == "att" else "mask_" + D.states[req["what"][1]][0]))
    exp = expected(world, req)
    none_target = rng.random() < 0.5
    order = rng.random() < 0.5
    before = cache_probe(ids[slot])
    if order:
        unc = execute(world, req, None, none_target)
        cac = execute(world, req, ids[slot], none_target)
    else:
        cac = execute(world, req, ids[slot], none_target)
        unc = execute(world, req, None, none_target)
    if cac["kind"] == "array" and before is not None and cac["array"] is before:
        ctx.count("evidence_array_cache_hits")
    ctx.event(step_no, slot, step, describe_request(world, req), unc["kind"], cac["kind"])
    clash = np_scalar_vs_range(req, resident.get(slot, []))
    if clash:
        ctx.count("requests_with_numpy_scalar_vs_range_under_id")
    judge(ctx, world, req, exp, unc, False, step)
    judge(ctx, world, req, exp, cac, True, step, clash)
    # the second half of the statement, directly: the id never changes the outcome
    ctx.count("cached_vs_uncached_pairs")
    if exp["kind"] == "array" and unc["kind"] == "array":
        ctx.count("cached_vs_uncached_pairs_linked")
        if step in ("scalar_noncontributing",) and prev is not None:
            ctx.count("wildcard_eligible_scalar_only_changes")
        if step == "scalar_contributing":
            ctx.count("relevant_scalar_only_changes")
    if not same_result(unc, cac):
        sig = {"kind": "cache_changes_result" if (unc["kind"] == cac["kind"] == "array") else "cache_changes_outcome",
               "request": "attribute" if req["what"][0] == "att" else "mask", "after": step,
               "link_mode": world.mode, "linked": exp["kind"] == "array",
               "numpy_scalar_vs_range_under_id": clash, "links_changed_under_id": bool(getattr(world, "links_changed", False)),
               "exc": exc_name(cac["exc"]) if cac["kind"] == "exc" else None}
        ctx.violation(sig, {"world": world.descr, "request": describe_request(world, req),
                            "previous_under_id": describe_request(world, prev) if prev else None,
                            "uncached": unc.get("array", repr(unc.get("exc"))),
                            "cached": cac.get("array", repr(cac.get("exc")))})
    # requests that may still be resident in the caches under this id (a superset): the last one that returned an
    # array with the id (array cache) and every request since the (data, target) pair under the id last changed
    # (pixel-cache entries are per source axis and survive failed and partly translated requests)
    res = resident.setdefault(slot, [None])
    pair = (id(world), req["data"], req["target"])
    if cac["kind"] == "array":
        res[0] = req
    if resident.get(("pair", slot)) != pair:
        resident[("pair", slot)] = pair
        del res[1:]
    res.append(req)


# ---------------------------------------------------------------- viewer workload
AGG = {"nanmean": np.nanmean, "nanmax": np.nanmax, "nanmin": np.nanmin, "nansum": np.nansum, "mean": np.mean,
       "max": np.max}


def rand_nonempty_slice(rng, n):
    r = rng.random()
    if r < 0.35:
        return slice(None)
    a = rng.randrange(n)
    b = rng.randint(a + 1, n)
    st = rng.choice([None, 1, 1, 2, 3])
    return slice(a, b, st)


def viewer_expected(world, vs, layer_kind, X, what, query):
    """The plane [y, x] an image viewer must show, from the state's public attributes."""
    R = world.by_data[id(vs.reference_data)]
    xa, ya = vs.x_att.axis, vs.y_att.axis
    slices = vs.slices
    pos = []
    agg = {}
    for i in range(R.ndim):
        if i == xa or i == ya:
            q = query[1] if i == xa else query[0]
            if isinstance(q, slice):
                pos.append(np.array(list(range(*q.indices(R.shape[i]))), dtype=float))
            else:
                pos.append(positions(q))
        else:
            s = slices[i]
            if hasattr(s, "function"):
                pos.append(np.array(list(range(*s.slice.indices(R.shape[i]))), dtype=float))
                agg[i] = s.function
            else:
                pos.append(np.array([float(s)]))
    grid = np.meshgrid(*pos, indexing="ij")
    dpos = world.map(R, X, grid)
    if dpos is None:
        return {"kind": "unlinked"}
    if what[0] == "att":
        full, blank = X.arrays[what[1]], np.nan
    else:
        full, blank = what[2](X.arrays).astype(float), 0.0
    dpos = [np.broadcast_to(p, grid[0].shape) for p in dpos]
    variants, outside = resample(full, dpos, X.shape, blank, world.eps)
    tie = np.zeros(grid[0].shape, dtype=bool)
    for v in variants[1:]:
        tie |= ~((v == variants[0]) | (np.isnan(v) & np.isnan(variants[0])))
    arr = variants[0]
    labels = list(range(R.ndim))
    # reduce: scalar dims are dropped, aggregated dims reduced (highest first, as independent reductions)
    for i in reversed(range(R.ndim)):
        if i == xa or i == ya:
            continue
        ax = labels.index(i)
        if i in agg:
            arr = agg[i](arr, axis=ax)
            tie = tie.any(axis=ax)
            outside = outside.all(axis=ax)
        else:
            arr = np.take(arr, 0, axis=ax)
            tie = np.take(tie, 0, axis=ax)
            outside = np.take(outside, 0, axis=ax)
        labels.pop(ax)
    perm = (labels.index(ya), labels.index(xa))
    arr, tie, outside = np.transpose(arr, perm), np.transpose(tie, perm), np.transpose(outside, perm)
    contrib = world.contributing(R, X)
    may_raise = (R is not X) and any(len(pos[i]) >= 1 and (i in (xa, ya) or i in agg) and i not in contrib
                                     for i in range(R.ndim))
    return {"kind": "array", "array": np.asarray(arr, dtype=float), "tie": tie, "outside": outside,
            "may_raise_incompatible": may_raise, "aggregated": bool(agg)}


def run_viewer(ctx, case_tag):
    from glue.viewers.image.state import AggregateSlice, ImageLayerState, ImageSubsetLayerState, ImageViewerState
    rng = ctx.rng
    world = build_world(rng, viewer=True)
    world.by_data = {id(X.data): X for X in world.ds.values()}
    T, A, B = world.ds["T"], world.ds["A"], world.ds["B"]
    vs = ImageViewerState()
    layers = []      # (layer state, kind, DS, subset or None)
    for X in (T, A, B):
        ls = ImageLayerState(viewer_state=vs, layer=X.data)
        vs.layers.append(ls)
        layers.append([ls, "data", X, None])
    sub_state_idx = {}
    for X in (A, B):
        k = rng.randrange(len(X.states))
        sg = world.dc.new_subset_group(subset_state=X.states[k][1], label="s" + X.name)
        subset = [s for s in X.data.subsets if s.label == "s" + X.name][0]
        # the group applies the *same state object* to every dataset; evaluate it only on its own dataset
        ls = ImageSubsetLayerState(viewer_state=vs, layer=subset)
        vs.layers.append(ls)
        layers.append([ls, "subset", X, subset])
        sub_state_idx[X.name] = k
    ctx.count("viewer_histories")
    ctx.count("viewer_worlds_%s" % world.mode)
    nsteps = rng.randint(8, 16)
    def query_layer(L, kind, step_no, reentrant=False):
        ls, lkind, X, subset = L
        R = world.by_data[id(vs.reference_data)]
        xa, ya = vs.x_att.axis, vs.y_att.axis
        qk = rng.choice(["none", "none", "view", "view1", "bounds"])
        if qk == "none":
            kwargs, query = {}, [slice(None), slice(None)]
        elif qk == "view":
            query = [rand_nonempty_slice(rng, R.shape[ya]), rand_nonempty_slice(rng, R.shape[xa])]
            kwargs = {"view": list(query)}
        elif qk == "view1":
            query = [rand_nonempty_slice(rng, R.shape[ya]), slice(None)]
            kwargs = {"view": [query[0]]}
        else:
            query = [rand_range(rng, R.shape[ya]), rand_range(rng, R.shape[xa])]
            kwargs = {"bounds": list(query)}
        if lkind == "data":
            aname = ls.attribute.label
            what = ("att", aname)
        else:
            k = sub_state_idx[X.name]
            what = ("state", k, X.states[k][2])
        exp = viewer_expected(world, vs, lkind, X, what, query)
        try:
            got = ls.get_sliced_data(**kwargs)
            out = {"kind": "array", "array": got}
        except Exception as e:
            out = {"kind": "exc", "exc": e}
        agg_names = [getattr(s.function, "__name__", "?") if hasattr(s, "function") else None for s in vs.slices]
        descr = {"reference": R.name, "x_axis": xa, "y_axis": ya,
                 "slices": [[s.slice.start, s.slice.stop, a] if a else int(s) for s, a in zip(vs.slices, agg_names)],
                 "layer": [lkind, X.name, list(what[:2])], "query": [qk, [describe_q(q) for q in query]]}
        ctx.event(step_no, kind, descr, out["kind"])
        sel = None
        if lkind == "subset":
            sel = "backward_slices" if "backward" in X.states[what[1]][0] else "other"
        sig = {"via": "get_sliced_data", "layer": lkind, "query": qk, "link_mode": world.mode, "after": kind, "reentrant": reentrant,
               "request": "attribute" if lkind == "data" else "mask", "selection": sel,
               "dask_path": bool(X.dask and lkind == "subset"),
               "aggregated": bool(exp.get("aggregated")), "transposed": ya > xa,
               "reference_is_layer_data": R is X}
        if exp["kind"] == "unlinked":
            if out["kind"] == "exc":
                ctx.count("viewer_out_of_domain_unlinked_%s" % exc_name(out["exc"]))
            else:
                ctx.count("oracle_model_says_unlinked_but_array_returned")
            return
        if out["kind"] == "exc":
            if exp["may_raise_incompatible"] and isinstance(out["exc"], IncompatibleDataException):
                ctx.count("viewer_documented_incompatible_exception")
                return
            if reentrant:
                ctx.count("viewer_reentrant_read_raised_%s" % exc_name(out["exc"]))   # transient state: tallied only
                return
            sig.update(kind="exception", exc=exc_name(out["exc"]))
            ctx.violation(sig, {"world": world.descr, "state": descr, "error": repr(out["exc"])[:300]})
            return
        got = np.asarray(out["array"]).astype(float)
        e = exp["array"]
        nontrivial = bool((~exp["outside"]).any())
        ctx.evaluation([world.descr, descr], nontrivial)
        ctx.count("viewer_planes_compared")
        ctx.count("viewer_planes_%s_%s" % (lkind, qk))
        if lkind == "subset":
            ctx.count("viewer_subset_planes_%s" % X.states[what[1]][0])
        if exp["aggregated"]:
            ctx.count("viewer_planes_aggregated")
        if ya > xa:
            ctx.count("viewer_planes_transposed")
        if got.shape != e.shape:
            sig.update(kind="shape_mismatch", transposed_shape_matches=got.shape == e.shape[::-1])
            ctx.violation(sig, {"world": world.descr, "state": descr, "got_shape": list(got.shape),
                                "expected_shape": list(e.shape)})
            return
        if exp["aggregated"]:
            ok = np.isclose(got, e, rtol=1e-9, atol=1e-12, equal_nan=True) | ((got == e))
        else:
            ok = (got == e) | (np.isnan(got) & np.isnan(e))
        ok |= exp["tie"]
        if exp["tie"].any():
            ctx.count("viewer_planes_with_tie_samples_excluded")
        if not ok.all():
            bad = ~ok
            where_out = bool((bad & exp["outside"]).any())
            where_in = bool((bad & ~exp["outside"]).any())
            sig.update(kind="value_mismatch", where="outside_not_blank" if (where_out and not where_in)
                       else ("inside_wrong" if not where_out else "both"))
            ctx.violation(sig, {"world": world.descr, "state": descr, "got": got, "expected": e})

    # re-entrancy: a listener that reads a layer's plane while the viewer state is being changed
    reent = {"depth": 0, "kind": "?", "step": -1}

    def on_change(*args):
        if reent["depth"] > 0:
            return
        reent["depth"] += 1
        try:
            R_ = world.by_data.get(id(vs.reference_data))
            sl = vs.slices
            consistent = (R_ is not None and vs.x_att is not None and vs.y_att is not None and
                          vs.x_att.axis != vs.y_att.axis and len(sl) == R_.ndim and
                          vs.x_att in R_.data.pixel_component_ids and vs.y_att in R_.data.pixel_component_ids and
                          all(hasattr(x, "function") or 0 <= x < n for x, n in zip(sl, R_.shape)))
            if not consistent:
                ctx.count("viewer_reentrant_reads_skipped_transient_state")
                return
            ctx.count("viewer_reentrant_reads")
            query_layer(layers[rng.randrange(len(layers))], reent["kind"], reent["step"], reentrant=True)
        finally:
            reent["depth"] -= 1
    for name in ("slices", "x_att", "y_att"):
        vs.add_callback(name, on_change)
    for L in layers:
        if L[1] == "data":
            L[0].add_callback("attribute", on_change)
    for step_no in range(nsteps):
        R = world.by_data[id(vs.reference_data)]
        kind = rng.choice(["slices", "slices", "slices", "aggregate", "xatt", "yatt", "attribute", "subset_state",
                           "reference", "query_only", "query_only"])
        reent["kind"], reent["step"] = kind, step_no
        try:
            if kind in ("slices", "aggregate"):
                new = []
                for i in range(R.ndim):
                    n = R.shape[i]
                    if kind == "aggregate" and i not in (vs.x_att.axis, vs.y_att.axis):
                        a = rng.randrange(n)
                        b = rng.randint(a + 1, n)
                        fname = rng.choice(sorted(AGG))
                        new.append(AggregateSlice(slice(a, b), (a + b) // 2, AGG[fname]))
                    else:
                        new.append(rng.randrange(n))
                vs.slices = tuple(new)
            elif kind == "xatt":
                vs.x_att = rng.choice(R.data.pixel_component_ids)
            elif kind == "yatt":
                vs.y_att = rng.choice(R.data.pixel_component_ids)
            elif kind == "attribute":
                L = rng.choice([l for l in layers if l[1] == "data"])
                L[0].attribute = L[2].data.id[rng.choice(L[2].atts)]
            elif kind == "subset_state":
                L = rng.choice([l for l in layers if l[1] == "subset"])
                k = rng.randrange(len(L[2].states))
                L[3].subset_state = L[2].states[k][1]
                sub_state_idx[L[2].name] = k
            elif kind == "reference":
                cands = [X for X in (T, A, B) if X.ndim >= 2 and X is not R]
                if cands:
                    vs.reference_data = rng.choice(cands).data
        except Exception as e:
            # state changes themselves are C18's subject; a failure here ends the history (tallied)
            ctx.count("viewer_step_failed_%s_%s" % (kind, exc_name(e)))
            return
        ctx.count("viewer_step_%s" % kind)
        R = world.by_data[id(vs.reference_data)]
        if vs.x_att is None or vs.y_att is None or vs.x_att.axis == vs.y_att.axis:
            ctx.count("viewer_state_without_two_axes")
            continue
        xa, ya = vs.x_att.axis, vs.y_att.axis
        # one query per layer
        for L in layers:
            query_layer(L, kind, step_no)


def describe_q(q):
    if isinstance(q, slice):
        return "slice(%r,%r,%r)" % (q.start, q.stop, q.step)
    return describe_bound(q)


# ---------------------------------------------------------------- driver interface
def cases(tier, seed):
    import random
    allc = [["hist", i] for i in range(N_BLOCKS[tier])] + [["viewer", i] for i in range(N_VIEWER[tier])]
    random.Random(16).shuffle(allc)      # fixed order: spreads both workloads evenly over the shards
    for c in allc:
        yield c


def run_case(ctx, case):
    if case[0] == "hist":
        # the two ids are shared by all worlds of the block: earlier worlds' datasets stay "requested before"
        resident = {}
        for k in range(WORLDS_PER_BLOCK):
            world = build_world(ctx.rng)
            run_history(ctx, world, "h%d" % case[1], resident)
    elif case[0] == "viewer":
        run_viewer(ctx, "v%d" % case[1])
    else:
        raise ValueError(case)


def floors(counters, tier):
    out = []
    c = counters.get
    if c("cached_vs_uncached_pairs_linked", 0) < 300:
        out.append("fewer than 300 (cached, uncached) request pairs compared")
    if c("compared_cached", 0) < 300 or c("compared_uncached", 0) < 300:
        out.append("fewer than 300 buffers compared with the brute-force resampling")
    if c("wildcard_eligible_scalar_only_changes", 0) < 15:
        out.append("fewer than 15 requests repeating the previous one with only a wildcard-eligible scalar bound changed")
    if c("relevant_scalar_only_changes", 0) < 15:
        out.append("fewer than 15 requests repeating the previous one with only a relevant scalar bound changed")
    for k in ("worlds_axis", "worlds_chain", "worlds_coupled", "worlds_world"):
        if c(k, 0) < 10:
            out.append("fewer than 10 %s" % k)
    for k in ("bound_scalar_inside", "bound_scalar_outside", "bound_range_inside", "bound_range_partly_outside",
              "bound_range_wholly_outside"):
        if c(k, 0) < 30:
            out.append("fewer than 30 %s" % k)
    for k in ("step_attribute", "step_state", "step_data", "step_target", "step_replay_earlier", "step_attribute_vs_mask"):
        if c(k, 0) < 10:
            out.append("fewer than 10 history steps of kind %s" % k)
    for k in ("what_mask_slice_backward", "what_mask_pixelstate_backward"):
        if c(k, 0) < 30:
            out.append("fewer than 30 mask requests with %s" % k)
    if c("what_mask_slice_backward_on_aligned_permuted", 0) + c("what_mask_slice_backward_on_aligned_same_order", 0) < 8:
        out.append("fewer than 8 mask requests with a backward slice state defined on a pixel-aligned dataset")
    if sum(v for k, v in counters.items() if k.startswith("viewer_subset_planes_") and "backward" in k) < 10:
        out.append("fewer than 10 subset-layer planes with a backward slice state")
    if c("viewer_planes_compared", 0) < 100:
        out.append("fewer than 100 get_sliced_data planes compared")
    for k in ("viewer_planes_aggregated", "viewer_planes_transposed", "viewer_planes_subset_none",
              "viewer_planes_data_bounds"):
        if c(k, 0) < 5:
            out.append("fewer than 5 %s" % k)
    # adversarial widening round: classes that must actually have been exercised
    need = {"runs_completed_attribute": 4, "runs_completed_scalar": 4, "runs_completed_broadcast": 4, "runs_completed_state": 3,
            "step_nudge_across_pixel_edge_contributing": 8, "step_scalar_same_value_other_type": 8, "fault_calls": 20,
            "worlds_with_far_axes": 5, "worlds_big": 3, "worlds_world_mode_rescaled_units": 4,
            "dask_requests_strictly_inside_first_index_positive": 8, "requests_with_bounds_beyond_1e4": 30,
            "component_layout_fortran": 10, "component_layout_strided": 10, "component_layout_reversed": 10,
            "what_u8": 8, "what_f4": 8, "what_be": 8, "what_bc": 8, "what_mask_pixel_of_linked_master": 15,
            "what_mask_selects_nothing": 8, "what_mask_selects_all": 8, "viewer_reentrant_reads": 10,
            "samples_all_inside": 100, "samples_partly_outside": 100}
    for k, n in sorted(need.items()):
        if c(k, 0) < n:
            out.append("fewer than %d %s" % (n, k))
    for k in ("coupled_triangular", "permuted", "full", "coupled_symmetric"):
        if c("slice_walks_reference_matrix_%s" % k, 0) < 4:
            out.append("fewer than 4 slice walks over a world-linked reference with a %s coordinate matrix" % k)
    if c("slice_walk_requests", 0) < 200:
        out.append("fewer than 200 slice-walk requests")
    if c("link_changes_set_links", 0) + c("link_changes_remove_add", 0) < 4:
        out.append("fewer than 4 histories ending with a change of the links")
    if c("oracle_model_says_unlinked_but_array_returned", 0) > 0:
        out.append("the oracle's link model disagrees with glue about which datasets are linked (harness defect)")
    return out
