"""C08 - region containment is geometrically exact and equivariant under move / rotate / copy / save-restore.

Shape: parameter sweep + short histories, compared with an independent reference geometry
(`vf/lib_C08_geom.py`, plain numpy/math, no glue).  One *instance* = one region built from a
JSON descriptor, followed by a short random history of move_to / rotate_to / rotate_by / copy /
save-restore / to_polygon steps.  After construction and after every step the live region's
`contains` (or `contains3d`) is called on a fresh presentation of a point set (1-3-d arrays,
Fortran / strided / reversed / stride-0 views, scalars, 0-d, empty, integer lattice) and compared
point-wise with the reference evaluated at the inverse-transformed points.  Points in the boundary
band (the statement's exception) are excluded and counted.  The reported centre is compared with
the requested one after every move / rotate.
"""
import math

import numpy as np

import glue.core.roi as R
from glue.core.roi import (RectangularROI, EllipticalROI, CircularROI, CircularAnnulusROI, PolygonalROI,
                           RangeROI, XRangeROI, YRangeROI, CategoricalROI, Projected3dROI)
from glue.core.state import GlueSerializer, GlueUnSerializer

from vf import lib_C08_geom as G

ID = "C08"
LEVEL = "exploration"
BUDGET_S = {"quick": 38.0, "thorough": 560.0}
RULE = ("a case is a block of region instances of one class (rectangle, ellipse, circle, annulus, polygon, x/y range, "
        "categorical, projected 3-d); each instance = descriptor drawn from class-specific recipes (theta exactly at / "
        "within 1e-12..1e-6 of multiples of pi/2 / general; thin, tiny, degenerate shapes; convex, concave, "
        "self-intersecting, lattice, comb, closed/open polygons with python or numpy vertices; the whole configuration "
        "also at coordinate magnitudes 1e-6 and 1e6; 3-d projection matrices with w = 1, constant w = s in {2, 0.5, -3, 1e-3}, "
        "whole matrix times s, full perspective, one perspective term with s != 1) + a history of 2-5 "
        "move/rotate/copy/restore/to_polygon steps, each followed by a contains() comparison on a random "
        "presentation of ~250 points (lattice, random, boundary +- k*tol, far). evaluation = one contains call "
        "compared with the reference; non-trivial = it had compared points both inside and outside; distinct = "
        "distinct (class, variant, theta class, step kinds so far, presentation, chunking) fingerprints.")
ASSUMPTIONS = ["boundary band margin in full: 1e-8 x largest half-extent + 1e-12 x largest |coordinate| of the region, times (1 + number of "
               "transformations); float32 points or float32 region parameters: + 1e-6 x (extent + |coordinates|), because glue then "
               "computes in single precision",
               "the reference geometry in vf/lib_C08_geom.py (rotate the point into the shape frame; radius; even-odd "
               "crossing number, cross-checked against exact rational arithmetic on samples; explicit homogeneous "
               "projection) is the specification",
               "to_polygon of curved shapes: "
               "additionally 1e-3 x extent (100-vertex discretisation, sagitta 5e-4 r); points in the band are not compared",
               "point sets are numeric ndarrays (float64, float32, big-endian, int8..int64, uint8..uint64; x and y of equal shape) or "
               "python scalars; lists, object arrays, mismatched x/y shapes and non-finite coordinates are outside the stated domain",
               "projected points whose rounding-error estimate (1e-14 x sum of |terms| / |w|) exceeds the band margin are not compared",
               "contains3d / CategoricalROI.contains are documented for arrays only: 0-d inputs are not generated for them",
               "rotate_to on a polygon is interpreted relative to the polygon's public `theta` attribute (reset to 0 by "
               "save/restore, which stores vertices only)",
               "a copy is only required to contain the same points; aliasing between a copy and its original is not examined"]
ANCHORS = ["glue.core.roi:RectangularROI.contains", "glue.core.roi:EllipticalROI.contains", "glue.core.roi:EllipticalROI.bounds",
           "glue.core.roi:CircularROI.contains", "glue.core.roi:CircularAnnulusROI.contains", "glue.core.roi:RangeROI.contains",
           "glue.core.roi:PolygonalROI.contains", "glue.core.roi:PolygonalROI.rotate_to", "glue.core.roi:PolygonalROI.move_to",
           "glue.core.roi:PolygonalROI.centroid", "glue.core.roi:RectangularROI.to_polygon", "glue.core.roi:RectangularROI.move_to",
           "glue.core.roi:Projected3dROI.contains3d", "glue.core.roi:CategoricalROI.contains",
           "glue.utils.geometry:points_inside_poly"]

KINDS = ["rect", "ellipse", "circle", "annulus", "polygon", "range", "categorical", "proj3d"]
CLASSNAME = {"rect": "RectangularROI", "ellipse": "EllipticalROI", "circle": "CircularROI", "annulus": "CircularAnnulusROI",
             "polygon": "PolygonalROI", "range": "RangeROI", "categorical": "CategoricalROI", "proj3d": "Projected3dROI"}
BLOCKS = {"quick": {"rect": 36, "ellipse": 36, "circle": 14, "annulus": 14, "polygon": 48, "range": 14, "categorical": 30, "proj3d": 22},
          "thorough": {"rect": 800, "ellipse": 800, "circle": 250, "annulus": 250, "polygon": 900, "range": 250,
                       "categorical": 150, "proj3d": 400}}
PER_BLOCK = 8
TOLF = 1e-8            # relative to the largest half-extent (float32-sized errors, 6e-8, must not hide in the band)
TOLA = 1e-12           # relative to the largest |coordinate| (rounding of x - xc)
TOL32 = 1e-6           # float32 points or float32 region parameters: glue computes in single precision
POLY_MUL = 1e-3

CHUNK = [None]          # substituted n_max for glue.core.roi.iterate_chunks (None = the real constant)
CHUNK_SEEN = [0]


class Abort(Exception):
    """The instance stops after its first violation (no cascades)."""


# ---------------------------------------------------------------- set-up: chunk-shrink injection
def setup(ctx):
    orig = R.iterate_chunks
    if getattr(orig, "_vf_wrapped", False):
        return

    def iterate_chunks(shape, chunk_shape=None, n_max=None):
        if CHUNK[0] is not None and n_max is not None:
            n_max = CHUNK[0]
        for s in orig(shape, chunk_shape=chunk_shape, n_max=n_max):
            CHUNK_SEEN[0] += 1
            yield s
    iterate_chunks._vf_wrapped = True
    R.iterate_chunks = iterate_chunks
    # every Roi subclass present in the module is either covered by a recipe or tallied
    covered = set(CLASSNAME.values()) | {"XRangeROI", "YRangeROI", "Roi"}
    for name in dir(R):
        obj = getattr(R, name)
        if isinstance(obj, type) and issubclass(obj, R.Roi) and name not in covered and ctx.shard == 0:
            ctx.count("roi_class_without_recipe:" + name)


# ---------------------------------------------------------------- recipes
def theta_recipe(rng):
    r = rng.random()
    k = rng.randrange(-4, 9)
    base = k * math.pi / 2
    if r < 0.08:
        return 0.0, "zero", "exact_multiple_of_pi"
    if r < 0.33:
        if k % 2 == 0:
            return base, "exact_k_pi", "exact_multiple_of_pi"
        return base, "exact_odd_quarter", "exact_odd_quarter_turn"
    if r < 0.63:
        eps = rng.choice([1e-12, 1e-10, 1e-8, 1e-6])
        sgn = rng.choice([-1.0, 1.0])
        return base + sgn * eps, "near_%s_%s" % ("even" if k % 2 == 0 else "odd", "%g" % eps), "near_quarter_turn"
    return rng.uniform(-7.0, 7.0), "general", "general"


def theta_group_of(theta):
    """Class of an angle by its distance to the nearest multiple of pi/2 (workload-side label only)."""
    k = round(theta / (math.pi / 2))
    d = abs(theta - k * math.pi / 2)
    if d < 1e-13:
        return "exact_multiple_of_pi" if k % 2 == 0 else "exact_odd_quarter_turn"
    if d < 2e-6:
        return "near_quarter_turn"
    return "general"


def _c(rng):
    return round(rng.uniform(-4.0, 4.0), 3)


def gen_rect(rng):
    variant = rng.choice(["general", "general", "general", "thin", "tiny", "square", "int_params", "zero_width", "origin"])
    theta, tcls, tgroup = theta_recipe(rng)
    cx, cy = _c(rng), _c(rng)
    w, h = rng.uniform(0.3, 4.0), rng.uniform(0.3, 4.0)
    if variant == "thin":
        if rng.random() < 0.5:
            w = h * 1e-3
        else:
            h = w * 1e-3
    elif variant == "tiny":
        w, h = w * 1e-3, h * 1e-3
    elif variant == "square":
        h = w
    elif variant == "zero_width":
        w = 0.0
    if variant == "origin":
        # falsy parameter values: a corner at (0, 0) (xmin = 0.0, ymin = 0 ...)
        d = {"k": "rect", "xmin": 0.0, "xmax": w, "ymin": 0.0, "ymax": h, "theta": theta}
    elif variant == "int_params":
        x0, y0 = rng.randint(-4, 2), rng.randint(-4, 2)
        d = {"k": "rect", "xmin": x0, "xmax": x0 + rng.randint(1, 5), "ymin": y0, "ymax": y0 + rng.randint(1, 5), "theta": theta}
    else:
        d = {"k": "rect", "xmin": cx - w / 2, "xmax": cx + w / 2, "ymin": cy - h / 2, "ymax": cy + h / 2, "theta": theta}
    return d, {"variant": variant, "theta_class": tcls, "theta_group": tgroup}


def gen_ellipse(rng):
    variant = rng.choice(["general", "general", "general", "thin", "tiny", "equal_radii", "int_params", "origin"])
    theta, tcls, tgroup = theta_recipe(rng)
    rx, ry = rng.uniform(0.3, 3.0), rng.uniform(0.3, 3.0)
    if variant == "thin":
        if rng.random() < 0.5:
            rx = ry * 1e-2
        else:
            ry = rx * 1e-2
    elif variant == "tiny":
        rx, ry = rx * 1e-3, ry * 1e-3
    elif variant == "equal_radii":
        ry = rx
    if variant == "int_params":
        d = {"k": "ellipse", "xc": rng.randint(-3, 3), "yc": rng.randint(-3, 3), "rx": rng.randint(1, 4), "ry": rng.randint(1, 4),
             "theta": theta}
    else:
        d = {"k": "ellipse", "xc": _c(rng), "yc": _c(rng), "rx": rx, "ry": ry, "theta": theta}
        if variant == "origin":
            d["xc"], d["yc"] = 0.0, 0.0
    return d, {"variant": variant, "theta_class": tcls, "theta_group": tgroup}


def gen_circle(rng):
    variant = rng.choice(["general", "general", "tiny", "large", "int_params", "origin"])
    r = rng.uniform(0.2, 3.0)
    if variant == "tiny":
        r *= 1e-3
    elif variant == "large":
        r *= 10
    if variant == "int_params":
        d = {"k": "circle", "xc": rng.randint(-3, 3), "yc": rng.randint(-3, 3), "r": rng.randint(1, 4)}
    else:
        d = {"k": "circle", "xc": _c(rng), "yc": _c(rng), "r": r}
        if variant == "origin":
            d["xc"], d["yc"] = 0.0, 0.0
    return d, {"variant": variant, "theta_class": "none", "theta_group": "none"}


def gen_annulus(rng):
    variant = rng.choice(["general", "general", "thin_ring", "tiny", "int_params", "small_hole", "origin"])
    ri = rng.uniform(0.2, 2.0)
    ro = ri + rng.uniform(0.2, 2.0)
    if variant == "thin_ring":
        ro = ri * (1 + 1e-3)
    elif variant == "tiny":
        ri, ro = ri * 1e-3, ro * 1e-3
    elif variant == "small_hole":
        ri = ro * 1e-3
    if variant == "int_params":
        a = rng.randint(1, 3)
        d = {"k": "annulus", "xc": rng.randint(-3, 3), "yc": rng.randint(-3, 3), "ri": a, "ro": a + rng.randint(1, 3)}
    else:
        d = {"k": "annulus", "xc": _c(rng), "yc": _c(rng), "ri": ri, "ro": ro}
        if variant == "origin":
            d["xc"], d["yc"] = 0.0, 0.0
    return d, {"variant": variant, "theta_class": "none", "theta_group": "none"}


LATTICE_TEMPLATES = [
    ([0, 3, 3, 0], [0, 0, 2, 2]),                                   # rectangle
    ([0, 3, 3, 1, 1, 0], [0, 0, 1, 1, 3, 3]),                       # L
    ([0, 4, 4, 3, 3, 1, 1, 0], [0, 0, 3, 3, 1, 1, 3, 3]),           # U
    ([0, 2, 4, 2], [2, 0, 2, 4]),                                   # diamond
    ([0, 1, 1, 2, 2, 3, 3, 0], [0, 0, 1, 1, 2, 2, 3, 3]),           # staircase
    ([0, 4, 0, 4], [0, 0, 3, 3]),                                   # bow-tie (self-intersecting, signed area 0)
    ([0, 4, 2], [0, 0, 3]),                                         # triangle
]


def gen_polygon(rng):
    variant = rng.choice(["convex", "convex", "concave_star", "concave_star", "self_intersecting", "lattice", "lattice",
                          "comb", "degenerate", "thin", "tiny", "dup_vertex"])
    cx, cy = _c(rng), _c(rng)
    a, b = rng.uniform(0.5, 3.0), rng.uniform(0.5, 3.0)
    if variant in ("convex", "thin", "tiny", "dup_vertex"):
        m = rng.randint(3, 8)
        ang = sorted(rng.uniform(0, 2 * math.pi) for _ in range(m))
        vx = [cx + a * math.cos(t) for t in ang]
        vy = [cy + b * math.sin(t) for t in ang]
        if variant == "thin":
            vy = [cy + (y - cy) * 1e-3 for y in vy]
        elif variant == "tiny":
            vx = [cx + (x - cx) * 1e-3 for x in vx]
            vy = [cy + (y - cy) * 1e-3 for y in vy]
        elif variant == "dup_vertex":
            i = rng.randrange(m)
            vx.insert(i, vx[i])
            vy.insert(i, vy[i])
    elif variant == "concave_star":
        m = rng.randint(5, 11)
        ang = sorted(rng.uniform(0, 2 * math.pi) for _ in range(m))
        vx, vy = [], []
        for i, t in enumerate(ang):
            f = 1.0 if i % 2 == 0 else rng.uniform(0.15, 0.6)
            vx.append(cx + a * f * math.cos(t))
            vy.append(cy + b * f * math.sin(t))
    elif variant == "self_intersecting":
        m = rng.randint(4, 7)
        vx = [cx + rng.uniform(-a, a) for _ in range(m)]
        vy = [cy + rng.uniform(-b, b) for _ in range(m)]
    elif variant == "lattice":
        tx, ty = LATTICE_TEMPLATES[rng.randrange(len(LATTICE_TEMPLATES))]
        ox, oy = rng.randint(-4, 1), rng.randint(-4, 1)
        s = rng.choice([1, 1, 2])
        vx = [float(ox + s * x) for x in tx]
        vy = [float(oy + s * y) for y in ty]
        if rng.random() < 0.3:
            vx, vy = vy, vx
    elif variant == "comb":
        teeth = rng.randint(2, 5)
        vx, vy = [cx], [cy]
        for i in range(teeth):
            x0 = cx + i * 1.0
            vx += [x0 + 0.25, x0 + 0.5, x0 + 0.75]
            vy += [cy + b + 1.0, cy + 0.4, cy + b + 1.0]
        vx += [cx + teeth * 1.0]
        vy += [cy]
    else:  # degenerate
        sub = rng.choice(["one", "two", "collinear"])
        if sub == "one":
            vx, vy = [cx], [cy]
        elif sub == "two":
            vx, vy = [cx, cx + a], [cy, cy + b]
        else:
            vx, vy = [float(round(cx)), float(round(cx)) + 1, float(round(cx)) + 3], [float(round(cy)), float(round(cy)) + 1, float(round(cy)) + 3]
    if rng.random() < 0.5:
        vx, vy = vx[::-1], vy[::-1]
    closed = rng.random() < 0.4 and len(vx) >= 3
    if closed:
        vx, vy = vx + [vx[0]], vy + [vy[0]]
    d = {"k": "polygon", "vx": [float(v) for v in vx], "vy": [float(v) for v in vy]}
    return d, {"variant": variant, "closed": closed, "vertex_input": rng.choice(["python", "python", "numpy", "numpy", "tuple"]),
               "signed_area_class": signed_area_class(d), "theta_class": "none", "theta_group": "none"}


def gen_range(rng):
    variant = rng.choice(["general", "general", "reversed", "tiny", "int_params", "origin"])
    lo = 0.0 if variant == "origin" else _c(rng)
    hi = lo + rng.uniform(0.2, 4.0)
    if variant == "reversed":
        lo, hi = hi, lo
    elif variant == "tiny":
        hi = lo + 1e-3
    elif variant == "int_params":
        lo = rng.randint(-4, 2)
        hi = lo + rng.randint(1, 4)
    ori = rng.choice(["x", "y"])
    cls = rng.choice(["XRangeROI" if ori == "x" else "YRangeROI", "RangeROI"])
    return {"k": "range", "ori": ori, "lo": lo, "hi": hi, "cls": cls}, {"variant": variant, "theta_class": "none", "theta_group": "none"}


GEN2D = {"rect": gen_rect, "ellipse": gen_ellipse, "circle": gen_circle, "annulus": gen_annulus, "polygon": gen_polygon,
         "range": gen_range}


PARAM_KEYS = ("xmin", "xmax", "ymin", "ymax", "theta", "xc", "yc", "rx", "ry", "r", "ri", "ro", "lo", "hi")
PARAM_CONV = {"python_float": float, "python_int": int, "np_float64": np.float64, "np_float32": np.float32, "np_int64": np.int64}


def choose_param_type(rng, desc, meta):
    """Type of the numbers handed to the constructor.  float32 rounds: the descriptor is replaced by what the region
    really is made of."""
    if desc["k"] == "polygon":
        meta["param_type"] = "vertices_" + meta["vertex_input"]
        return desc
    if meta["variant"] == "int_params":
        meta["param_type"] = rng.choice(["python_int", "python_int", "np_int64"])
        return desc
    meta["param_type"] = rng.choice(["python_float", "python_float", "python_float", "np_float64", "np_float32"])
    if meta.get("offset_class", "none") != "none" and meta["param_type"] == "np_float32":
        meta["param_type"] = "np_float64"            # single precision cannot hold extent 1 at offset 1e8
    if meta["param_type"] == "np_float32":
        desc = dict(desc)
        for q in PARAM_KEYS:
            if q in desc:
                desc[q] = float(np.float32(desc[q]))
        if desc["k"] == "rect" and (desc["xmax"] < desc["xmin"] or desc["ymax"] < desc["ymin"]):
            meta["param_type"] = "python_float"
    return desc


def build2d(desc, meta):
    k = desc["k"]
    ptype = meta.get("param_type", "python_float")
    conv = PARAM_CONV.get(ptype, float)
    c = lambda q: (desc[q] if ptype == "python_int" and not isinstance(desc[q], int) else conv(desc[q]))
    theta = None
    if k in ("rect", "ellipse"):
        theta = desc["theta"] if ptype in ("python_int", "np_int64") else conv(desc["theta"])
        if meta.get("theta_none"):
            theta = None                         # documented: None means 0
    if k == "rect":
        return RectangularROI(c("xmin"), c("xmax"), c("ymin"), c("ymax"), theta)
    if k == "ellipse":
        return EllipticalROI(c("xc"), c("yc"), c("rx"), c("ry"), theta)
    if k == "circle":
        return CircularROI(c("xc"), c("yc"), c("r"))
    if k == "annulus":
        return CircularAnnulusROI(c("xc"), c("yc"), c("ri"), c("ro"))
    if k == "polygon":
        if meta.get("vertex_input") == "numpy":
            return PolygonalROI(np.array(desc["vx"]), np.array(desc["vy"]))
        if meta.get("vertex_input") == "tuple":
            return PolygonalROI(tuple(desc["vx"]), tuple(desc["vy"]))
        return PolygonalROI(list(desc["vx"]), list(desc["vy"]))
    if k == "range":
        if desc["cls"] == "XRangeROI":
            return XRangeROI(c("lo"), c("hi"))
        if desc["cls"] == "YRangeROI":
            return YRangeROI(c("lo"), c("hi"))
        return RangeROI(desc["ori"], c("lo"), c("hi"))
    raise ValueError(k)


# ---------------------------------------------------------------- the live instance and its model
def rot(px, py, dtheta, c):
    co, si = math.cos(dtheta), math.sin(dtheta)
    dx, dy = px - c[0], py - c[1]
    return c[0] + co * dx - si * dy, c[1] + si * dx + co * dy


class Live:
    def __init__(self, kind, desc, meta, roi):
        self.kind, self.desc, self.meta, self.roi = kind, desc, meta, roi
        self.chain = []                    # ("move", dx, dy) | ("rot", dtheta, (cx, cy))
        self.ops = []                      # step kinds so far
        self.last_op = "construct"
        self.scale = G.scale_of(desc)
        self.f = float(meta.get("f", 1.0))                      # similarity factor of the magnitude class (1e-6 | 1 | 1e6)
        self.mag = max(G.magnitude_of(desc), 1e-3 * self.f)
        self.add = TOLF * self.scale + TOLA * self.mag
        if meta.get("param_type") == "np_float32":
            self.add += TOL32 * (self.scale + self.mag)
        self.model_theta = float(desc.get("theta", 0.0))
        c = G.centre_of(desc)
        self.model_centre = None if c is None else tuple(float(v) for v in c)
        self.pool = None

    @property
    def cls(self):
        return type(self.roi).__name__

    def bump_mag(self, m):
        """The region is about to be placed at coordinates of size m: rounding of its parameters grows accordingly."""
        if m > self.mag:
            self.add += TOLA * (m - self.mag) * (1.0 if self.meta.get("param_type") != "np_float32" else TOL32 / TOLA)
            self.mag = m

    def forward(self, x, y):
        for op in self.chain:
            if op[0] == "move":
                x, y = x + op[1], y + op[2]
            else:
                x, y = rot(x, y, op[1], op[2])
        return x, y

    def inverse(self, x, y):
        for op in reversed(self.chain):
            if op[0] == "move":
                x, y = x - op[1], y - op[2]
            else:
                x, y = rot(x, y, -op[1], op[2])
        return x, y

    def struct(self):
        """Structural features of the live object for signatures."""
        s = {"roi": CLASSNAME[self.kind], "shape": self.kind, "variant": self.meta["variant"], "magnitude": self.meta.get("magnitude", "1"),
             "param_type": self.meta.get("param_type", "python_float"), "offset_class": self.meta.get("offset_class", "none")}
        # what the live object holds now (a restored region has Python numbers whatever it was built from)
        inner = getattr(self.roi, "roi_2d", self.roi)
        for att in ("xmin", "xc", "min"):
            v = getattr(inner, att, None)
            if v is not None and self.kind != "polygon":
                s["param_type"] = ("np_" + type(v).__name__) if isinstance(v, np.generic) else ("python_" + type(v).__name__)
                break
        if s["param_type"] in ("np_float32", "np_int64"):
            s["numpy_non_float64_parameters"] = True
        if self.kind in ("rect", "ellipse"):
            s["theta_group"] = theta_group_of(self.model_theta)
        if self.kind == "polygon":
            s["polygon_closed"] = bool(self.meta["closed"])
            s["signed_area_class"] = self.meta["signed_area_class"]
            try:
                vx = self.roi.vx
                s["vertex_scalar"] = "numpy" if type(vx[0]).__module__ == "numpy" else "python"
                s["first_last_same_x"] = bool(vx[0] == vx[-1])
            except Exception:
                s["vertex_scalar"] = "unknown"
        return s


def guarded(ctx, live, opname, fn, extra=None):
    """Run a monitored glue call; an exception is a violation (the statement quantifies over all these inputs)."""
    try:
        return fn()
    except Abort:
        raise
    except Exception as exc:
        sig = {"kind": "exception", "exc": type(exc).__name__, "op": opname}
        sig.update(live.struct())
        if extra:
            sig.update(extra)
        ctx.violation(sig, {"desc": live.desc, "meta": live.meta, "history": live.ops, "chain": live.chain, "error": repr(exc)[:300]})
        raise Abort()


# ---------------------------------------------------------------- point sets
def base_pool(rng, desc, add, f=1.0):
    """Points in the frame of the original descriptor: frame-uniform, bbox lattice, random, boundary +- k*tol, far."""
    k = desc["k"]
    xs, ys = [], []
    x0, x1, y0, y1 = G.bbox_of(desc)
    w, h = max(x1 - x0, 1e-4 * f), max(y1 - y0, 1e-4 * f)
    pad = 0.3
    # shape-frame sampling keeps about 40 % of the points inside however thin the shape is
    if k in ("rect", "ellipse", "circle", "annulus"):
        if k == "rect":
            cx, cy = G.centre_of(desc)
            hu, hv, th = (desc["xmax"] - desc["xmin"]) / 2.0, (desc["ymax"] - desc["ymin"]) / 2.0, desc["theta"]
        elif k == "ellipse":
            cx, cy, hu, hv, th = desc["xc"], desc["yc"], desc["rx"], desc["ry"], desc["theta"]
        else:
            r = desc["r"] if k == "circle" else desc["ro"]
            cx, cy, hu, hv, th = desc["xc"], desc["yc"], r, r, 0.0
        hu, hv = max(hu, 1e-6 * f), max(hv, 1e-6 * f)
        c, s = math.cos(th), math.sin(th)
        for _ in range(110):
            u, v = rng.uniform(-1.35, 1.35) * hu, rng.uniform(-1.35, 1.35) * hv
            xs.append(cx + c * u - s * v)
            ys.append(cy + s * u + c * v)
    elif k == "polygon" and len(desc["vx"]) >= 3:
        vx, vy = desc["vx"], desc["vy"]
        for _ in range(70):
            i, j, l = (rng.randrange(len(vx)) for _ in range(3))
            a, b = rng.random(), rng.random()
            if a + b > 1:
                a, b = 1 - a, 1 - b
            xs.append(vx[i] + a * (vx[j] - vx[i]) + b * (vx[l] - vx[i]))
            ys.append(vy[i] + a * (vy[j] - vy[i]) + b * (vy[l] - vy[i]))
    g = 8
    for i in range(g):
        for j in range(g):
            xs.append(x0 - pad * w + (1 + 2 * pad) * w * i / (g - 1))
            ys.append(y0 - pad * h + (1 + 2 * pad) * h * j / (g - 1))
    for _ in range(50):
        xs.append(rng.uniform(x0 - pad * w, x1 + pad * w))
        ys.append(rng.uniform(y0 - pad * h, y1 + pad * h))
    for _ in range(10):
        xs.append(rng.uniform(-40, 40) * f)
        ys.append(rng.uniform(-40, 40) * f)
    for (bx, by, nx, ny) in G.boundary_points(desc, 36, rng):
        kk = rng.choice([-1000.0, -30.0, -3.0, -0.1, 0.0, 0.1, 3.0, 30.0, 1000.0])
        xs.append(bx + nx * kk * add)
        ys.append(by + ny * kk * add)
    return np.array(xs, dtype=float), np.array(ys, dtype=float)


PRESENTATIONS = ["flat", "flat", "2d", "3d", "fortran", "strided", "reversed", "broadcast", "scalar", "zero_d", "empty",
                 "int_lattice", "readonly", "single", "broadcast_scalar", "transposed_3d", "float32", "bigendian", "int_dtypes"]
INT_DTYPES = ["i1", "i2", "<i4", "<i8", "u1", "u2", "<u4", "<u8", ">i4"]


def present(rng, X, Y, kind, centre_hint):
    """Returns a list of (x, y) argument pairs for the chosen presentation (one pair except for scalars)."""
    n = len(X)
    if kind == "flat":
        return [(X.copy(), Y.copy())]
    if kind == "readonly":
        a, b = X.copy(), Y.copy()
        a.setflags(write=False)
        b.setflags(write=False)
        return [(a, b)]
    if kind == "2d":
        a = rng.choice([2, 3, 5, 7])
        b = n // a
        return [(X[:a * b].reshape(a, b).copy(), Y[:a * b].reshape(a, b).copy())]
    if kind == "3d":
        a, b = rng.choice([(2, 3), (3, 4), (2, 2)])
        c = n // (a * b)
        m = a * b * c
        return [(X[:m].reshape(a, b, c).copy(), Y[:m].reshape(a, b, c).copy())]
    if kind == "fortran":
        a = rng.choice([3, 4, 6])
        b = n // a
        return [(X[:a * b].reshape(b, a).copy().T, Y[:a * b].reshape(b, a).copy().T)]
    if kind == "strided":
        st = rng.choice([2, 3])
        bx, by = np.full(n * st, 7.5), np.full(n * st, -7.5)
        bx[::st], by[::st] = X, Y
        return [(bx[::st], by[::st])]
    if kind == "reversed":
        return [(X[::-1].copy()[::-1], Y[::-1].copy()[::-1])]
    if kind == "broadcast":
        a, b = rng.randint(5, 14), rng.randint(5, 14)
        ix = [rng.randrange(n) for _ in range(b)]
        iy = [rng.randrange(n) for _ in range(a)]
        xs, ys = X[ix].copy(), Y[iy].copy()
        return [(np.broadcast_to(xs[None, :], (a, b)), np.broadcast_to(ys[:, None], (a, b)))]
    if kind == "scalar":
        out = []
        for _ in range(4):
            i = rng.randrange(n)
            out.append((float(X[i]), float(Y[i])))
        return out
    if kind == "zero_d":
        out = []
        for _ in range(3):
            i = rng.randrange(n)
            out.append((np.array(X[i]), np.array(Y[i])))
        return out
    if kind == "empty":
        shp = rng.choice([(0,), (0, 3), (2, 0)])
        return [(np.zeros(shp), np.zeros(shp))]
    if kind == "single":
        i = rng.randrange(n)
        return [(X[i:i + 1].copy(), Y[i:i + 1].copy())]
    if kind == "broadcast_scalar":
        # x is one number broadcast to the shape (every stride 0), y varies
        a, b = rng.randint(3, 9), rng.randint(3, 9)
        i = rng.randrange(n)
        ys = Y[[rng.randrange(n) for _ in range(a * b)]].reshape(a, b).copy()
        return [(np.broadcast_to(X[i], (a, b)), ys)]
    if kind == "transposed_3d":
        a, b = rng.choice([(2, 3), (3, 4), (2, 5)])
        c = n // (a * b)
        m = a * b * c
        return [(X[:m].reshape(a, b, c).copy().transpose(2, 0, 1), Y[:m].reshape(a, b, c).copy().transpose(2, 0, 1))]
    if kind == "float32":
        return [(X.astype("<f4"), Y.astype("<f4"))]
    if kind == "bigendian":
        return [(X.astype(">f8"), Y.astype(">f8"))]
    if kind == "int_dtypes":
        cx, cy = centre_hint
        dt = np.dtype(rng.choice(INT_DTYPES))
        lo = 0 if dt.kind == "u" else -120
        cxi, cyi = min(max(int(round(cx)), lo + 6), 120), min(max(int(round(cy)), lo + 6), 120)
        gx, gy = np.meshgrid(np.arange(cxi - 6, cxi + 7), np.arange(cyi - 6, cyi + 7))
        return [(gx.astype(dt), gy.astype(dt))]
    if kind == "int_lattice":
        cx, cy = centre_hint
        ax = np.arange(int(round(cx)) - 6, int(round(cx)) + 7)
        ay = np.arange(int(round(cy)) - 6, int(round(cy)) + 7)
        gx, gy = np.meshgrid(ax, ay)
        if rng.random() < 0.5:
            return [(gx.copy(), gy.copy())]
        return [(gx.ravel().copy(), gy.ravel().copy())]
    raise ValueError(kind)


# ---------------------------------------------------------------- comparison
def compare(ctx, live, res, x, y, op, presentation, mul=0.0, extra_band=None, extra_sig=None, fp_extra=None):
    xb, yb = np.broadcast_arrays(np.asarray(x, dtype=float), np.asarray(y, dtype=float))
    got = np.asarray(res)
    base = {"op": op, "presentation": presentation}
    base.update(live.struct())
    if extra_sig:
        base.update(extra_sig)
    detail = lambda **kw: dict({"desc": live.desc, "meta": live.meta, "history": live.ops, "chain": live.chain}, **kw)
    if got.shape != xb.shape:
        ctx.violation(dict(base, kind="result_shape_mismatch"), detail(got_shape=list(got.shape), want_shape=list(xb.shape)))
        raise Abort()
    if got.dtype.kind != "b":
        ctx.violation(dict(base, kind="result_not_boolean", dtype_kind=got.dtype.kind), detail(dtype=str(got.dtype)))
        raise Abort()
    ox, oy = live.inverse(xb, yb)
    add = live.add * (1.0 + len(live.chain))
    if presentation == "float32" and xb.size:
        # single-precision points: glue evaluates x - xc etc. in float32 (6e-8 relative to the coordinates)
        add += TOL32 * (live.scale + float(np.abs(xb).max()) + float(np.abs(yb).max()))
    inside, band = G.classify(live.desc, ox, oy, mul=mul, add=add)
    if extra_band is not None:
        band = band | extra_band(ox, oy)
    cmp_ = ~band
    ncmp = int(cmp_.sum())
    nin = int((inside & cmp_).sum())
    ctx.count("points_compared", ncmp)
    ctx.count("points_compared_inside", nin)
    ctx.count("points_in_boundary_band_excluded", int(band.sum()))
    ctx.count("comparisons:" + getattr(live, "count_as", CLASSNAME[live.kind]))
    ctx.count("comparisons_op:" + op)
    ctx.count("comparisons_shape_op:%s:%s" % (live.kind, op))
    ctx.count("comparisons_presentation:" + presentation)
    ctx.count("comparisons_magnitude:" + live.meta.get("magnitude", "1"))
    if live.kind in ("rect", "ellipse"):
        ctx.count("comparisons_theta:%s:%s" % (live.kind, theta_group_of(live.model_theta)))
        ctx.count("theta_class_at_construction:" + live.meta["theta_class"])
    fp = [live.kind, live.meta["variant"], live.meta.get("theta_class"), live.meta.get("closed"), list(live.ops), presentation, fp_extra,
          theta_group_of(live.model_theta) if live.kind in ("rect", "ellipse") else None, live.meta.get("magnitude", "1"),
          live.meta.get("offset_class", "none")]
    ctx.evaluation(fp, nontrivial=(0 < nin < ncmp))
    bad = (got != inside) & cmp_
    if bad.any():
        missing = bool((bad & inside).any())
        extra = bool((bad & ~inside).any())
        idx = np.argwhere(bad)[:5]
        pts = [[float(xb[tuple(i)]), float(yb[tuple(i)])] for i in idx]
        ctx.violation(dict(base, kind="contains_mismatch", direction="both" if (missing and extra) else ("missing" if missing else "extra")),
                      detail(points=pts, expected=[bool(inside[tuple(i)]) for i in idx], n_bad=int(bad.sum()), n_compared=ncmp,
                             roi_vars={k: v for k, v in vars(live.roi).items() if k != "roi_2d"}))
        raise Abort()
    return got


def fraction_crosscheck(ctx, live):
    """Harness self-check: float crossing number == exact rational crossing number outside the band."""
    d = live.desc
    X, Y = live.pool
    idx = [ctx.rng.randrange(len(X)) for _ in range(10)]
    inside, band = G.classify(d, X[idx], Y[idx], add=live.add)
    for j, i in enumerate(idx):
        if band[j]:
            continue
        ex = G.poly_inside_exact(X[i], Y[i], d["vx"], d["vy"])
        ctx.count("reference_polygon_points_crosschecked_exactly")
        if ex != bool(inside[j]):
            raise AssertionError("reference polygon oracle disagrees with exact arithmetic: %r %r %r" % (d, X[i], Y[i]))


FULL_PRESENTATIONS = ["flat", "2d", "3d", "fortran", "strided", "reversed", "broadcast", "readonly", "transposed_3d", "float32", "bigendian"]


def check_contains(ctx, live, op, presentation=None):
    rng = ctx.rng
    if presentation is None:
        # after a step that changes the region the whole pool is always presented (a scalar or empty presentation
        # would let a wrong transformation pass); the small presentations are used at construction and after copies
        presentation = rng.choice(PRESENTATIONS if op in ("construct", "copy", "restore") else FULL_PRESENTATIONS)
    X, Y = live.forward(*live.pool)
    bb = G.bbox_of(live.desc)
    hint = live.forward(np.array([(bb[0] + bb[1]) / 2.0]), np.array([(bb[2] + bb[3]) / 2.0]))
    args = present(rng, X, Y, presentation, (float(hint[0][0]), float(hint[1][0])))
    for (x, y) in args:
        extra_sig = {}
        if presentation == "int_dtypes":
            dt = np.asarray(x).dtype
            extra_sig = {"points_dtype": dt.str.lstrip("<>|"),
                         "points_dtype_class": "narrow_or_unsigned_integer" if (dt.kind == "u" or dt.itemsize == 1) else "signed_integer"}
            ctx.count("points_dtype:" + extra_sig["points_dtype"])
        res = guarded(ctx, live, "contains", lambda: live.roi.contains(x, y), dict(extra_sig, presentation=presentation, after=op))
        compare(ctx, live, res, x, y, op, presentation, extra_sig=extra_sig or None)


# ---------------------------------------------------------------- steps
def polygon_centre(ctx, live, roi, inner=None):
    """center() of a polygon (or of a 3-d region around one) before a step.  The statement does not say where the
    centre of a polygon is, but it has to be a point of the plane that belongs to the polygon: finite and within 1e4
    extents of the vertices (a centroid of a polygon whose |signed area| >= 1e-4 extent^2 cannot be farther)."""
    c = guarded(ctx, live, "center", lambda: roi.center())
    c = (float(c[0]), float(c[1]))
    if live.kind == "polygon":
        inner = live if inner is None else inner
        vx, vy = inner.forward(np.array(live.desc["vx"]), np.array(live.desc["vy"]))
        ext = max(vx.max() - vx.min(), vy.max() - vy.min(), 1e-3 * inner.f)
        ok = (math.isfinite(c[0]) and math.isfinite(c[1]) and vx.min() - 1e4 * ext <= c[0] <= vx.max() + 1e4 * ext and
              vy.min() - 1e4 * ext <= c[1] <= vy.max() + 1e4 * ext)
        ctx.count("polygon_centre_plausibility_checks")
        if not ok:
            sig = {"kind": "centre_mismatch", "check": "centre_far_from_region", "op": live.ops[-1] if live.ops else "construct"}
            sig.update(live.struct())
            ctx.violation(sig, {"desc": live.desc, "meta": live.meta, "history": live.ops, "chain": live.chain, "reported_centre": list(c),
                                "vertices_now": [vx.tolist(), vy.tolist()]})
            raise Abort()
    return c


def centre_tol(live, *vals):
    if live.meta.get("param_type") == "np_float32":
        return TOL32 * (live.mag + live.scale + sum(abs(v) for v in vals))
    # relative to the extent, plus a few ulps of the coordinates involved (offset >> extent: 1e8 -> 2e-3, far below the
    # distance between centroid and vertex mean of an unevenly sampled polygon of extent 1)
    return 1e-9 * live.scale + 1e-11 * (live.mag + sum(abs(v) for v in vals)) + getattr(live, "centre_slack", 0.0)


def check_centre(ctx, live, op):
    """Reported centre == the centre the model expects (requested target after a move; unchanged by a rotation)."""
    if live.model_centre is None:
        return
    got = guarded(ctx, live, "center", lambda: live.roi.center())
    got = (got,) if live.kind == "range" else tuple(got)
    ctx.count("centre_comparisons")
    ctx.count("centre_comparisons_op:" + op)
    want = live.model_centre
    ok = len(got) == len(want) and all(abs(float(g) - w) <= centre_tol(live, w) for g, w in zip(got, want))
    if not ok:
        sig = {"kind": "centre_mismatch", "check": "centre_after_step", "op": op}
        sig.update(live.struct())
        ctx.violation(sig, {"desc": live.desc, "meta": live.meta, "history": live.ops, "got": [float(g) for g in got], "want": list(want)})
        raise Abort()


def signed_area_class(desc):
    """zero: the signed area is exactly 0 in rational arithmetic (collinear vertices, symmetric bow-tie, < 3 vertices);
    near_zero: 0 < |A| < 1e-2 scale^2 - the centroid (a quotient by A) is ill-conditioned; regular otherwise."""
    from fractions import Fraction
    vx, vy = desc["vx"], desc["vy"]
    n = len(vx)
    a = Fraction(0)
    for i in range(n):
        j = (i + 1) % n
        a += Fraction(vx[i]) * Fraction(vy[j]) - Fraction(vx[j]) * Fraction(vy[i])
    if a == 0:
        return "zero"
    if abs(float(a)) / 2.0 < 1e-2 * G.scale_of(desc) ** 2:
        return "near_zero"
    return "regular"


def polygon_centre_usable(live):
    """Polygons whose signed area is tiny but not zero have a numerically meaningless centroid: no move / rotate."""
    return live.kind != "polygon" or live.meta["signed_area_class"] != "near_zero"


def step_move(ctx, live, target=None):
    rng = ctx.rng
    if live.kind == "range":
        c0 = float(guarded(ctx, live, "center", lambda: live.roi.center()))
        t = round(rng.uniform(-6, 6), 3) * live.f if target is None else target[0]
        live.bump_mag(abs(t))
        guarded(ctx, live, "move_to", lambda: live.roi.move_to(t))
        d = t - c0
        live.chain.append(("move", d, 0.0) if live.desc["ori"] == "x" else ("move", 0.0, d))
        live.model_centre = (t,)
    else:
        c0 = polygon_centre(ctx, live, live.roi)
        tx, ty = round(rng.uniform(-6, 6), 3) * live.f, round(rng.uniform(-6, 6), 3) * live.f
        if rng.random() < 0.15:
            tx = c0[0]                          # pure vertical move
        elif rng.random() < 0.15:
            ty = c0[1]
        if target is not None:
            tx, ty = target
        live.bump_mag(max(abs(tx), abs(ty)))
        guarded(ctx, live, "move_to", lambda: live.roi.move_to(tx, ty))
        live.chain.append(("move", tx - c0[0], ty - c0[1]))
        live.model_centre = (tx, ty)
    live.ops.append("move_to")
    ctx.count("steps:move_to")
    check_centre(ctx, live, "move_to")
    check_contains(ctx, live, "move_to")


def step_rotate(ctx, live, how=None, theta2=None):
    rng = ctx.rng
    fixed = theta2
    theta2, tcls, tgroup = theta_recipe(rng)
    if fixed is not None:
        theta2, tcls = fixed, "repeated"
    how = rng.choice(["rotate_to", "rotate_to", "rotate_by"]) if how is None else how
    explicit = None
    c0 = polygon_centre(ctx, live, live.roi)
    if how == "rotate_by":
        dtheta = theta2
        guarded(ctx, live, "rotate_by", lambda: live.roi.rotate_by(dtheta))
    else:
        cur = float(live.roi.theta) if live.kind == "polygon" else live.model_theta
        if live.kind == "polygon" and fixed is None and rng.random() < 0.35:
            # (cur, cur + 1e-10, cur + 1e-12: "unchanged" or nearly so - a skipped rotation is then within the band)
            theta2 = cur + rng.choice([math.pi, -math.pi, 2 * math.pi, 3 * math.pi, math.pi / 2, math.pi + 1e-10, 0.0, 1e-10, 1e-12, -1e-8])
            tcls = "half_turn_family"
        if fixed is None and rng.random() < 0.06:
            theta2, tcls = None, "none_means_zero"            # documented: rotate_to(None) == rotate_to(0)
        dtheta = (0.0 if theta2 is None else theta2) - cur
        if live.kind == "polygon" and theta2 is not None and rng.random() < 0.25:
            explicit = (round(rng.uniform(-3, 3), 2) * live.f, round(rng.uniform(-3, 3), 2) * live.f)
            guarded(ctx, live, "rotate_to", lambda: live.roi.rotate_to(theta2, center=explicit))
        else:
            guarded(ctx, live, "rotate_to", lambda: live.roi.rotate_to(theta2))
    centre = explicit if explicit is not None else c0
    if live.kind == "polygon":
        # PolygonalROI.rotate_to leaves the vertices alone when the change of angle is within 1e-9 rad of a full turn; the
        # region may then be off by (that angle) x (distance from the centre of rotation), which for a far explicit centre
        # and a tiny polygon exceeds the relative margin: the margin is widened by exactly that amount (and counted)
        resid = abs(((dtheta + math.pi) % (2 * math.pi)) - math.pi)
        if 0.0 < resid <= 1.000001e-9:
            vx, vy = live.forward(np.array(live.desc["vx"]), np.array(live.desc["vy"]))
            slack = resid * float(max(np.hypot(vx - centre[0], vy - centre[1]).max(), math.hypot(c0[0] - centre[0], c0[1] - centre[1])))
            live.add += slack
            live.centre_slack = getattr(live, "centre_slack", 0.0) + slack
            ctx.count("polygon_rotations_within_snap_angle_margin_widened")
    live.chain.append(("rot", dtheta, centre))
    live.model_theta = live.model_theta + dtheta
    if live.model_centre is not None or live.kind == "polygon":
        live.model_centre = rot(c0[0], c0[1], dtheta, centre) if explicit is not None else c0
    live.ops.append(how if explicit is None else "rotate_to_about")
    ctx.count("steps:" + how)
    ctx.count("rotation_amount_class:" + tcls)
    opname = how if explicit is None else "rotate_to_about"
    # (the centre of a polygon is only defined by the code itself; a rotation about it must leave it in place)
    check_centre(ctx, live, opname)
    check_contains(ctx, live, opname)


def step_copy(ctx, live):
    new = guarded(ctx, live, "copy", lambda: live.roi.copy())
    if type(new) is not type(live.roi):
        ctx.violation(dict(live.struct(), kind="copy_changes_class", op="copy"), {"got": type(new).__name__})
        raise Abort()
    live.roi = new
    live.ops.append("copy")
    ctx.count("steps:copy")
    check_contains(ctx, live, "copy")


def step_restore(ctx, live):
    new = guarded(ctx, live, "restore", lambda: GlueUnSerializer.loads(GlueSerializer(live.roi).dumps()).object("__main__"))
    if type(new) is not type(live.roi):
        ctx.violation(dict(live.struct(), kind="restore_changes_class", op="restore"), {"got": type(new).__name__})
        raise Abort()
    live.roi = new
    live.ops.append("restore")
    ctx.count("steps:restore")
    check_contains(ctx, live, "restore")


def step_to_polygon(ctx, live):
    rng = ctx.rng
    if live.kind == "range" and live.desc["lo"] > live.desc["hi"]:
        # a range with min > max contains nothing, its to_polygon() is the strip between the two values; min > max is not
        # a region in the sense of the statement, so the pair is not compared
        ctx.count("reversed_range_to_polygon_not_compared")
        return
    vx, vy = guarded(ctx, live, "to_polygon", lambda: live.roi.to_polygon())
    mul = POLY_MUL if live.kind in ("ellipse", "circle", "annulus") else 0.0
    poly = guarded(ctx, live, "to_polygon", lambda: PolygonalROI(vx, vy))
    X, Y = live.forward(*live.pool)
    presentation = rng.choice(["flat", "2d", "broadcast", "strided"])
    (x, y), = present(rng, X, Y, presentation, (0.0, 0.0))
    res = guarded(ctx, live, "to_polygon", lambda: poly.contains(x, y), {"presentation": presentation})
    extra = None
    if live.kind == "annulus":
        extra = lambda ox, oy: G.annulus_seam_band(live.desc, ox, oy, live.add * 10)
    ctx.count("steps:to_polygon")
    compare(ctx, live, res, x, y, "to_polygon", presentation, mul=mul, extra_band=extra)


def step_fault(ctx, live):
    """Calls that must fail (text where numbers are expected, a missing coordinate), followed by a valid call on the same
    object: whatever the failure left behind must not matter."""
    raised = 0
    for bad in (lambda: live.roi.contains(np.array(["a", "b"]), np.array(["c", "d"])),
                lambda: live.roi.move_to(1.0 * live.f, None) if live.kind in ("rect", "polygon") else live.roi.contains(None, None),
                lambda: live.roi.move_to(None) if live.kind == "range" else live.roi.contains(np.zeros(3), np.zeros((2, 2, 2)))):
        try:
            bad()
            ctx.count("fault_calls_that_did_not_raise")
        except Exception:
            raised += 1
    ctx.count("fault_calls_raised", raised)
    live.ops.append("fault")
    ctx.count("steps:fault")
    if live.model_centre is not None and live.kind != "polygon":
        check_centre(ctx, live, "fault")
    check_contains(ctx, live, "fault")


STEPS = {"rect": ["move", "rotate", "copy", "restore", "to_polygon"],
         "ellipse": ["move", "rotate", "copy", "restore", "to_polygon"],
         "circle": ["move", "copy", "restore", "to_polygon"],
         "annulus": ["move", "copy", "restore", "to_polygon"],
         "polygon": ["move", "rotate", "rotate", "copy", "restore", "to_polygon", "move"],
         "range": ["move", "copy", "restore", "to_polygon"]}
STEP_FN = {"move": step_move, "rotate": step_rotate, "copy": step_copy, "restore": step_restore, "to_polygon": step_to_polygon}


def run_instance_2d(ctx, kind):
    rng = ctx.rng
    desc, meta = GEN2D[kind](rng)
    # magnitude classes: the whole configuration (region, points, move targets) under the similarity p -> f p
    meta["magnitude"], meta["f"] = "1", 1.0
    if meta["variant"] != "int_params" and rng.random() < 0.3:
        meta["magnitude"], meta["f"] = rng.choice([("1e-10", 1e-10), ("1e-6", 1e-6), ("1e6", 1e6), ("1e12", 1e12)])
        desc = G.scaled(desc, meta["f"])
        if kind == "polygon":
            meta["signed_area_class"] = signed_area_class(desc)
    # offset >> extent: a region of ordinary extent centred 1e4 .. 1e8 away from the origin, moved near the origin and back
    # ("far_start"), or an ordinary region moved that far away and back ("near_start")
    meta["offset_class"] = "none"
    if meta["magnitude"] == "1" and meta["variant"] not in ("int_params", "tiny") and rng.random() < (0.25 if kind == "polygon" else 0.12):
        meta["offset_class"] = rng.choice(["far_start", "near_start"])
        meta["offset"] = [rng.choice([-1.0, 1.0, 0.0, 1.0]) * 10.0 ** rng.randint(4, 8), rng.choice([-1.0, 1.0, 1.0]) * 10.0 ** rng.randint(4, 8)]
        if meta["offset_class"] == "far_start":
            desc = G.translated(desc, meta["offset"][0], meta["offset"][1])
            if kind == "polygon":
                meta["signed_area_class"] = signed_area_class(desc)
        ctx.count("offset_class_instances")
        ctx.count("offset_class:" + meta["offset_class"])
    desc = choose_param_type(rng, desc, meta)
    if kind in ("rect", "ellipse") and desc["theta"] == 0.0 and rng.random() < 0.5:
        meta["theta_none"] = True
        ctx.count("constructed_with_theta_none")
    live = Live(kind, desc, meta, None)
    live.roi = guarded(ctx, live, "construct", lambda: build2d(desc, meta))
    live.pool = base_pool(rng, desc, live.add, live.f)
    ctx.count("magnitude:" + meta["magnitude"])
    ctx.count("param_type:" + meta["param_type"])
    ctx.count("instances:" + CLASSNAME[kind])
    ctx.count("variant:%s:%s" % (kind, meta["variant"]))
    if kind == "polygon":
        fraction_crosscheck(ctx, live)
        ctx.count("polygon_closed" if meta["closed"] else "polygon_open")
        ctx.count("polygon_signed_area:" + meta["signed_area_class"])
    # construction: two different presentations of the same point pool
    check_contains(ctx, live, "construct")
    check_contains(ctx, live, "construct")
    steps = [rng.choice(STEPS[kind]) for _ in range(rng.randint(2, 5))]
    if kind in ("rect", "ellipse", "polygon", "circle") and rng.random() < 0.15:
        # long histories of nothing but moves and rotations, the same step twice, there and back again
        pool_ = ["move", "rotate", "move_twice", "rotate_twice"] if kind != "circle" else ["move", "move_twice"]
        steps = [rng.choice(pool_) for _ in range(rng.randint(6, 12))] + ["back_to_start"]
        ctx.count("long_move_rotate_histories")
    if rng.random() < 0.12:
        steps.insert(rng.randrange(len(steps) + 1), "fault")
    if meta["offset_class"] != "none":
        steps = ["offset_go"] + [rng.choice(STEPS[kind]) for _ in range(rng.randint(0, 2))] + ["offset_return"] + \
                [rng.choice(STEPS[kind]) for _ in range(rng.randint(0, 1))]
    start_centre = None
    usable = polygon_centre_usable(live)
    if not usable:
        ctx.count("polygon_near_zero_signed_area_move_rotate_skipped")
    if usable and "back_to_start" in steps:
        c = polygon_centre(ctx, live, live.roi)
        start_centre, start_theta = c, (float(live.roi.theta) if kind == "polygon" else live.model_theta)
    for s in steps:
        if s in ("move", "rotate", "move_twice", "rotate_twice", "back_to_start") and not usable:
            continue
        if s == "restore" and live.kind == "polygon":
            live.model_theta = 0.0
        if s == "move_twice":
            t = (round(rng.uniform(-6, 6), 3) * live.f, round(rng.uniform(-6, 6), 3) * live.f)
            step_move(ctx, live, target=t)
            step_move(ctx, live, target=t)
            ctx.count("steps_repeated_identically")
        elif s == "rotate_twice":
            a = round(rng.uniform(-3, 3), 2)
            step_rotate(ctx, live, how="rotate_to", theta2=a)
            step_rotate(ctx, live, how="rotate_to", theta2=a)
            ctx.count("steps_repeated_identically")
        elif s == "back_to_start":
            if kind != "circle":
                step_rotate(ctx, live, how="rotate_to", theta2=start_theta if start_theta != 0 else 1e-300)
            step_move(ctx, live, target=start_centre)
            ctx.count("histories_returned_to_start")
        elif s == "offset_go":
            if not usable:
                continue
            home = polygon_centre(ctx, live, live.roi) if kind != "range" else (float(guarded(ctx, live, "center", lambda: live.roi.center())),)
            if meta["offset_class"] == "far_start":
                away = tuple(round(rng.uniform(-3, 3), 2) for _ in home)
            else:
                away = tuple(o + round(rng.uniform(-3, 3), 2) for o in (meta["offset"] if kind != "range" else meta["offset"][1:]))
            step_move(ctx, live, target=away)
        elif s == "offset_return":
            if not usable:
                continue
            step_move(ctx, live, target=home)
            ctx.count("offset_class_round_trips_completed")
        elif s == "fault":
            step_fault(ctx, live)
        else:
            STEP_FN[s](ctx, live)
    if rng.random() < 0.01:
        ctx.sample({"desc": desc, "meta": meta, "history": live.ops})


# ---------------------------------------------------------------- categorical
def run_instance_categorical(ctx):
    rng = ctx.rng
    family = rng.choice(["strings", "prefix_strings", "prefix_strings", "ints", "int_categories_float_values", "float_categories_int_values"])
    container = rng.choice(["list", "ndarray", "object_ndarray"])
    if family == "strings":
        universe, extra = rng.choice([["a", "b", "c", "dd", "e", "zz", ""], ["x1", "x10", "x2", "Y", "y"]]), ["zzz", "A", "~"]
    elif family == "prefix_strings":
        # labels of different lengths sharing prefixes; the region is mostly built from the short ones, so its category
        # array is narrower than the tested values ('a' must not select 'ab' / 'abc', 'm1' must not select 'm10')
        universe, extra = ["a", "ab", "abc", "b", "ba", "m1", "m10", "m2", "m20"], ["abcd", "m", "m100", "bab"]
    elif family == "ints":
        universe, extra = [3, 1, 7, 10, -2], [99, -50, 4]
    elif family == "int_categories_float_values":
        universe, extra = [1, 2, 3, 10, -2], [1.5, 2.25, 0.99, 3.0000001, -2.5, 10.0, 2.0]     # 1 must not select 1.5
    else:
        universe, extra = [1.5, 2.0, 3.25, -0.5], [1, 2, 3, 0, -1]                              # 2.0 selects 2, 1.5 selects nothing
    k = rng.choice([0, 1, 2, 3, len(universe)])
    if family == "prefix_strings" and rng.random() < 0.6:
        cats = rng.choice([["a"], ["m1", "m2"], ["a", "b"], ["m1"], ["b", "a", "m2"], ["ab", "m10"]])
        k = len(cats)
    else:
        cats = [rng.choice(universe) for _ in range(k)]      # unsorted, possibly duplicated on input
    variant = "empty" if k == 0 else family
    if not cats:
        roi = CategoricalROI([])
    elif container == "list":
        roi = CategoricalROI(list(cats))
    elif container == "ndarray":
        roi = CategoricalROI(np.array(cats))
    else:
        roi = CategoricalROI(np.array(cats, dtype=object))
    ctx.count("categorical_container:" + container)
    values_as_object = family in ("strings", "prefix_strings") and rng.random() < 0.3
    ctx.count("instances:CategoricalROI")
    ctx.count("variant:categorical:" + variant)
    member = set(cats)
    hist = []
    for step in range(rng.randint(2, 4)):
        pres = rng.choice(["flat", "2d", "3d", "strided", "broadcast", "component", "empty", "jittered_data", "jittered_component",
                           "jitter_on_then_off", "jittered_view", "jittered_2d"])
        n = rng.randint(1, 30)
        pool_ = universe + extra
        if family == "int_categories_float_values":
            pool_ = [float(v) for v in pool_]
        labels = np.array([rng.choice(pool_) for _ in range(24)], dtype=object if values_as_object else None)
        if family in ("strings", "prefix_strings") and cats and max(len(str(c)) for c in cats) < max(len(str(v)) for v in labels.ravel()):
            ctx.count("categorical_values_wider_than_categories")
        if values_as_object:
            ctx.count("categorical_values_object_array")
        if pres == "flat":
            x = labels[:n]
        elif pres == "2d":
            x = labels.reshape(4, 6)
        elif pres == "3d":
            x = labels.reshape(2, 3, 4)
        elif pres == "strided":
            x = labels[::2]
        elif pres == "broadcast":
            x = np.broadcast_to(labels[:6][None, :], (3, 6))
        elif pres == "empty":
            x = labels[:0]
        elif pres == "component":
            from glue.core.component import CategoricalComponent
            x = CategoricalComponent(labels)
        else:
            # display jitter (+-0.5 on the codes) must not matter: membership is by label
            from glue.core.component import CategoricalComponent
            src = labels.reshape(4, 6) if pres == "jittered_2d" else labels
            if pres == "jitter_on_then_off":
                comp = CategoricalComponent(src)
                comp.jitter("uniform")
                comp.codes
                comp.jitter(None)
            else:
                comp = CategoricalComponent(src, jitter="uniform")
                comp.codes
            x = comp if pres == "jittered_component" else (comp.data[::2] if pres == "jittered_view" else comp.data)
            ctx.count("categorical_jittered_inputs")
        sig = {"roi": "CategoricalROI", "variant": variant, "presentation": pres, "op": hist[-1] if hist else "construct",
               "categories_container": container}
        try:
            res = np.asarray(roi.contains(x, None))
        except Exception as exc:
            ctx.violation(dict(sig, kind="exception", exc=type(exc).__name__), {"cats": cats, "labels": labels.tolist(), "error": repr(exc)[:200]})
            return
        ref_in = {"component": labels, "jittered_component": labels, "jittered_2d": labels.reshape(4, 6)}.get(pres)
        if ref_in is None:
            ref_in = np.asarray(x).view(np.ndarray)
        want = np.array([(v.item() if hasattr(v, "item") else v) in member for v in ref_in.ravel()], dtype=bool).reshape(ref_in.shape)
        ctx.count("comparisons:CategoricalROI")
        ctx.count("comparisons_op:" + sig["op"])
        ctx.count("points_compared", int(want.size))
        ctx.count("points_compared_inside", int(want.sum()))
        ctx.evaluation(["categorical", variant, k, container, values_as_object, pres, list(hist)], nontrivial=bool(want.any() and not want.all()))
        if res.shape != want.shape or res.dtype.kind != "b" or not np.array_equal(res, want):
            ctx.violation(dict(sig, kind="contains_mismatch"), {"cats": cats, "labels": ref_in.tolist(), "got": res.tolist(), "want": want.tolist()})
            return
        nxt = rng.choice(["copy", "restore", "none"])
        try:
            if nxt == "copy":
                roi = roi.copy()
            elif nxt == "restore":
                roi = GlueUnSerializer.loads(GlueSerializer(roi).dumps()).object("__main__")
        except Exception as exc:
            ctx.violation({"kind": "exception", "exc": type(exc).__name__, "roi": "CategoricalROI", "variant": variant, "op": nxt},
                          {"cats": cats, "error": repr(exc)[:200]})
            return
        if nxt != "none":
            hist.append(nxt)
            ctx.count("steps:" + nxt)


def run_instance_categorical_large(ctx):
    """Scale class: 40-200 categories (strings sharing prefixes, or floats) against 300-2000 tested values in which member and
    non-member values each repeat many times; bulk answers vs true membership and vs one-at-a-time answers."""
    rng = ctx.rng
    family = rng.choice(["large_strings", "large_floats"])
    ncat = rng.randint(40, 200)
    if family == "large_strings":
        universe = ["k%d" % i for i in range(2 * ncat)]           # k1 / k10 / k100 share prefixes
    else:
        universe = [round(0.25 * i - 7.0, 2) for i in range(2 * ncat)]
    rng.shuffle(universe)
    cats, outsiders = universe[:ncat], universe[ncat:]
    container = rng.choice(["list", "ndarray", "object_ndarray"])
    roi = CategoricalROI(list(cats) if container == "list" else np.array(cats, dtype=object if container == "object_ndarray" else None))
    member = set(cats)
    ctx.count("instances:CategoricalROI")
    ctx.count("variant:categorical:" + family)
    for step in range(2):
        n = rng.randint(300, 2000)
        # few distinct values, each repeated many times: some members, some non-members (also values outside the universe)
        few = rng.sample(cats, rng.randint(2, 12)) + rng.sample(outsiders, rng.randint(2, 12)) + \
            (["k", "zz9", "k00"] if family == "large_strings" else [1e9, -0.125, 0.126])
        values = np.array([rng.choice(few) for _ in range(n)])
        pres = rng.choice(["flat", "2d", "strided", "jittered_component"])
        if pres == "flat":
            x = values
        elif pres == "2d":
            a = rng.choice([3, 7, 10])
            x = values[:(n // a) * a].reshape(a, n // a)
        elif pres == "strided":
            x = values[::rng.choice([2, 3])]
        else:
            from glue.core.component import CategoricalComponent
            x = CategoricalComponent(values, jitter="uniform")
        sig = {"roi": "CategoricalROI", "variant": family, "presentation": pres, "op": "construct" if step == 0 else "restore",
               "categories_container": container}
        try:
            res = np.asarray(roi.contains(x, None))
            ref_in = values if pres == "jittered_component" else np.asarray(x)
            idx = [rng.randrange(ref_in.size) for _ in range(12)]
            single = [bool(np.asarray(roi.contains(ref_in.ravel()[i:i + 1], None))[0]) for i in idx]
        except Exception as exc:
            ctx.violation(dict(sig, kind="exception", exc=type(exc).__name__), {"ncat": ncat, "error": repr(exc)[:200]})
            return
        want = np.array([v.item() in member for v in ref_in.ravel()], dtype=bool).reshape(ref_in.shape)
        ctx.count("comparisons:CategoricalROI")
        ctx.count("comparisons_op:" + sig["op"])
        ctx.count("categorical_large_comparisons")
        ctx.count("categorical_large_values_compared", int(want.size))
        ctx.count("points_compared", int(want.size))
        ctx.count("points_compared_inside", int(want.sum()))
        ctx.evaluation(["categorical_large", family, ncat // 20, container, pres, step], nontrivial=bool(want.any() and not want.all()))
        if res.shape != want.shape or res.dtype.kind != "b" or not np.array_equal(res, want):
            bad = np.argwhere(res != want)[:5] if res.shape == want.shape else []
            ctx.violation(dict(sig, kind="contains_mismatch", answers="bulk"),
                          {"ncat": ncat, "n": int(want.size), "first_bad_values": [str(ref_in[tuple(b)]) for b in bad],
                           "expected": [bool(want[tuple(b)]) for b in bad], "n_bad": int((res != want).sum()) if res.shape == want.shape else -1})
            return
        if single != [bool(want.ravel()[i]) for i in idx]:
            ctx.violation(dict(sig, kind="contains_mismatch", answers="one_at_a_time"), {"ncat": ncat})
            return
        try:
            roi = GlueUnSerializer.loads(GlueSerializer(roi).dumps()).object("__main__")
        except Exception as exc:
            ctx.violation(dict(sig, kind="exception", exc=type(exc).__name__, op="restore"), {"ncat": ncat, "error": repr(exc)[:200]})
            return


# ---------------------------------------------------------------- projected 3-d
MATRIX_KINDS = ["identity", "orthographic", "perspective", "affine_w_scaled", "affine_all_scaled", "perspective_one_term_w_scaled"]


def gen_matrix(rng):
    """4x4 projection matrices.  Homogeneous w after projection: constant 1 (identity, orthographic), constant s != 1
    (bottom row (0,0,0,s), s in {2, 0.5, -3, 1e-3}: affine_w_scaled; the whole affine matrix times s: affine_all_scaled),
    varying (perspective: three perspective terms; perspective_one_term_w_scaled: one term and s != 1, also negative)."""
    kind = rng.choice(MATRIX_KINDS)
    if kind == "identity":
        return np.eye(4), kind
    a, b, c = (rng.uniform(0, 2 * math.pi) for _ in range(3))
    rx = np.array([[1, 0, 0], [0, math.cos(a), -math.sin(a)], [0, math.sin(a), math.cos(a)]])
    ry = np.array([[math.cos(b), 0, math.sin(b)], [0, 1, 0], [-math.sin(b), 0, math.cos(b)]])
    rz = np.array([[math.cos(c), -math.sin(c), 0], [math.sin(c), math.cos(c), 0], [0, 0, 1]])
    m = np.eye(4)
    m[:3, :3] = (rx @ ry @ rz) * rng.choice([0.5, 1.0, 2.0])
    m[:3, 3] = [rng.uniform(-2, 2) for _ in range(3)]
    s = rng.choice([2.0, 0.5, -3.0, 1e-3, 1e12])
    if kind == "affine_all_scaled":
        # (a tiny w alone, with O(1) affine terms, makes the screen coordinates a difference of O(1) numbers of size 1e-10:
        # inherently ill-conditioned; the tiny factor is only used where it multiplies the whole matrix)
        s = rng.choice([2.0, 0.5, -3.0, 1e-3, 1e-10, 1e12])
    if kind == "perspective":
        m[3, :3] = [rng.uniform(-0.08, 0.08), rng.uniform(-0.08, 0.08), rng.uniform(-0.15, 0.15)]
        m[3, 3] = rng.choice([1.0, 2.0, 0.5])
    elif kind == "affine_w_scaled":
        m[3, 3] = s
    elif kind == "affine_all_scaled":
        m = m * s
    elif kind == "perspective_one_term_w_scaled":
        m[3, rng.randrange(3)] = rng.choice([-0.1, 0.05, 0.12]) * abs(s)
        m[3, 3] = s
    return m, kind


def project(m, x, y, z):
    sx = m[0, 0] * x + m[0, 1] * y + m[0, 2] * z + m[0, 3]
    sy = m[1, 0] * x + m[1, 1] * y + m[1, 2] * z + m[1, 3]
    sw = m[3, 0] * x + m[3, 1] * y + m[3, 2] * z + m[3, 3]
    with np.errstate(all="ignore"):
        return sx / sw, sy / sw, sw


def run_instance_proj3d(ctx, big=False):
    rng = ctx.rng
    ikind = rng.choice(["rect", "ellipse", "circle", "polygon", "annulus"])
    desc, meta = GEN2D[ikind](rng)
    while meta["variant"] in ("tiny", "thin", "zero_width", "degenerate"):
        desc, meta = GEN2D[ikind](rng)
    m, mkind = gen_matrix(rng)
    live = Live(ikind, desc, meta, None)
    inner = build2d(desc, meta)
    live.roi = inner
    roi3 = Projected3dROI(inner, m)
    live.pool = base_pool(rng, desc, live.add)
    ctx.count("instances:Projected3dROI")
    ctx.count("variant:proj3d:%s:%s" % (mkind, ikind))
    meta["magnitude"], meta["f"] = "1", 1.0
    minv = np.linalg.inv(m)
    nsteps = 1 if big else rng.randint(2, 4)
    hist = []
    for step in range(nsteps):
        SX, SY = live.forward(*live.pool)
        if big:
            reps = 1200000 // len(SX) + 1
            SX = np.tile(SX, reps)[:1200000] + ctx.nprng.uniform(-0.3, 0.3, 1200000) * live.scale
            SY = np.tile(SY, reps)[:1200000] + ctx.nprng.uniform(-0.3, 0.3, 1200000) * live.scale
        n = len(SX)
        w = ctx.nprng.uniform(0.5, 2.0, n)
        sz = ctx.nprng.uniform(-1.0, 1.0, n)
        sh = np.array([SX * w, SY * w, sz * w, w])
        wh = minv @ sh
        with np.errstate(all="ignore"):
            WX, WY, WZ = wh[0] / wh[3], wh[1] / wh[3], wh[2] / wh[3]
        ok = np.isfinite(WX) & np.isfinite(WY) & np.isfinite(WZ) & (np.abs(WX) < 1e6) & (np.abs(WY) < 1e6) & (np.abs(WZ) < 1e6)
        WX, WY, WZ = WX[ok], WY[ok], WZ[ok]
        n = len(WX)
        pres = "flat" if big else rng.choice(["flat", "2d", "3d", "strided", "broadcast_rows", "empty", "fortran"])
        if big and rng.random() < 0.5:
            pres = "2d"
        if pres == "flat":
            args = (WX, WY, WZ)
        elif pres == "2d":
            a = rng.choice([2, 3, 5]) if not big else 1000
            b = n // a
            args = tuple(v[:a * b].reshape(a, b).copy() for v in (WX, WY, WZ))
        elif pres == "3d":
            a, b = 2, 3
            c = n // 6
            args = tuple(v[:6 * c].reshape(a, b, c).copy() for v in (WX, WY, WZ))
        elif pres == "fortran":
            a = 4
            b = n // a
            args = tuple(v[:a * b].reshape(b, a).copy().T for v in (WX, WY, WZ))
        elif pres == "strided":
            args = tuple(np.repeat(v, 2)[::2] for v in (WX, WY, WZ))
        elif pres == "broadcast_rows":
            args = tuple(np.broadcast_to(v[None, :], (3, n)) for v in (WX, WY, WZ))
        else:
            args = tuple(np.zeros((0, 4)) for _ in range(3))
        size = int(np.broadcast(*args).size)
        settings = [None] if big else [None, rng.choice([1, 3, 7]), rng.choice([16, 50, 101]), max(1, size + rng.choice([-1, 0, 1]))]
        for nmax in settings:
            CHUNK[0] = nmax
            CHUNK_SEEN[0] = 0
            sig_extra = {"projection": mkind, "chunking": "real_constant" if nmax is None else "shrunk", "presentation": pres,
                         "after": hist[-1] if hist else "construct"}
            try:
                res = guarded(ctx, _P3(live, roi3), "contains3d", lambda: roi3.contains3d(*args), sig_extra)
            finally:
                CHUNK[0] = None
            if CHUNK_SEEN[0] > 1:
                ctx.count("contains3d_calls_with_several_chunks")
            ctx.count("contains3d_calls")
            ctx.count("contains3d_calls_projection:" + mkind)
            xb, yb, zb = np.broadcast_arrays(*[np.asarray(a_, dtype=float) for a_ in args])
            px, py, pw = project(m, xb, yb, zb)
            wmag = abs(m[3, 0]) * np.abs(xb) + abs(m[3, 1]) * np.abs(yb) + abs(m[3, 2]) * np.abs(zb) + abs(m[3, 3])
            bad_w = np.abs(pw) < 1e-6 * wmag
            # conditioning: the projected coordinate is (sum of terms) / w; its rounding error is ~1e-16 x (sum of |terms|) / |w|.
            # Points whose error estimate (x100) exceeds the band margin are not compared.
            with np.errstate(all="ignore"):
                numx = abs(m[0, 0]) * np.abs(xb) + abs(m[0, 1]) * np.abs(yb) + abs(m[0, 2]) * np.abs(zb) + abs(m[0, 3])
                numy = abs(m[1, 0]) * np.abs(xb) + abs(m[1, 1]) * np.abs(yb) + abs(m[1, 2]) * np.abs(zb) + abs(m[1, 3])
                err = 1e-14 * (np.maximum(numx, numy) + (np.abs(px) + np.abs(py)) * wmag) / np.abs(pw)
            ill = ~bad_w & ~(err <= live.add * 20)
            ctx.count("proj3d_points_excluded_ill_conditioned", int(ill.sum()))
            bad_w = bad_w | ill
            ctx.count("proj3d_points_excluded_near_zero_w", int(bad_w.sum()))
            px = np.where(bad_w, 0.0, px)
            py = np.where(bad_w, 0.0, py)
            old_add = live.add
            live.add = old_add * 20
            try:
                compare(ctx, _P3(live, roi3), res, px, py, hist[-1] if hist else "construct", pres,
                        extra_band=lambda ox, oy: bad_w, extra_sig={"projection": mkind, "chunking": sig_extra["chunking"], "call": "contains3d"},
                        fp_extra=["proj3d", mkind, sig_extra["chunking"]])
            finally:
                live.add = old_add
        if big:
            ctx.count("contains3d_million_point_cases")
            break
        # history on the 3-d object (forwarded to the 2-d region)
        nxt = rng.choice(["move", "copy", "restore", "rotate" if ikind in ("rect", "ellipse", "polygon") else "move"])
        if nxt in ("move", "rotate") and not polygon_centre_usable(live):
            continue
        p3 = _P3(live, roi3)
        if nxt == "move":
            c0 = polygon_centre(ctx, p3, roi3, inner=live)
            tx, ty = round(rng.uniform(-4, 4), 2), round(rng.uniform(-4, 4), 2)
            guarded(ctx, p3, "move_to", lambda: roi3.move_to(tx, ty))
            live.chain.append(("move", tx - float(c0[0]), ty - float(c0[1])))
            hist.append("move_to")
        elif nxt == "rotate":
            c0 = polygon_centre(ctx, p3, roi3, inner=live)
            cur = float(roi3.roi_2d.theta) if ikind == "polygon" else live.model_theta
            theta2 = theta_recipe(rng)[0]
            guarded(ctx, p3, "rotate_to", lambda: roi3.rotate_to(theta2))
            live.chain.append(("rot", theta2 - cur, (float(c0[0]), float(c0[1]))))
            live.model_theta = theta2
            hist.append("rotate_to")
        elif nxt == "copy":
            roi3 = guarded(ctx, p3, "copy", lambda: roi3.copy())
            hist.append("copy")
        else:
            roi3 = guarded(ctx, p3, "restore", lambda: GlueUnSerializer.loads(GlueSerializer(roi3).dumps()).object("__main__"))
            if ikind == "polygon":
                live.model_theta = 0.0
            hist.append("restore")
        live.roi = roi3.roi_2d
        live.ops.append("p3:" + hist[-1])
        ctx.count("steps:proj3d_" + hist[-1])


class _P3:
    """Live wrapper whose signatures name the 3-d class."""

    def __init__(self, live, roi3):
        self._l = live
        self.roi = roi3
        self.desc, self.meta, self.ops, self.chain, self.kind = live.desc, live.meta, live.ops, live.chain, live.kind
        self.count_as = "Projected3dROI"

    @property
    def model_theta(self):
        return self._l.model_theta

    @property
    def add(self):
        return self._l.add

    def inverse(self, x, y):
        return self._l.inverse(x, y)

    def struct(self):
        s = self._l.struct()
        s["inner_roi"] = s["roi"]
        s["roi"] = "Projected3dROI"
        return s


# ---------------------------------------------------------------- driver
def cases(tier, seed):
    nb = BLOCKS[tier]
    top = max(nb.values())
    if tier == "thorough":
        for i in range(6):
            yield ["big3d", i]
    for b in range(top):
        for kind in KINDS:
            if b < nb[kind]:
                yield ["blk", kind, b]


def run_case(ctx, case):
    if case[0] == "big3d":
        try:
            run_instance_proj3d(ctx, big=True)
        except Abort:
            pass
        return
    _, kind, b = case
    for i_ in range(PER_BLOCK):
        try:
            if kind == "categorical" and i_ % 4 == 3:
                run_instance_categorical_large(ctx)
            elif kind == "categorical":
                run_instance_categorical(ctx)
            elif kind == "proj3d":
                run_instance_proj3d(ctx)
            else:
                run_instance_2d(ctx, kind)
        except Abort:
            ctx.count("instances_stopped_at_first_violation")
    ctx.count("blocks:" + kind)


def floors(counters, tier):
    out = []
    g = counters.get
    for k in KINDS:
        need = 100 if k not in ("categorical",) else 60
        if g("comparisons:" + CLASSNAME[k], 0) < need:
            out.append("fewer than %d contains comparisons for %s" % (need, CLASSNAME[k]))
    for k in ("rect", "ellipse"):
        for grp in ("exact_multiple_of_pi", "exact_odd_quarter_turn", "near_quarter_turn", "general"):
            if g("comparisons_theta:%s:%s" % (k, grp), 0) < 60:
                out.append("fewer than 60 comparisons for %s with theta class %s" % (k, grp))
    for op in ("construct", "move_to", "rotate_to", "rotate_by", "copy", "restore", "to_polygon"):
        if g("comparisons_op:" + op, 0) < 60:
            out.append("fewer than 60 comparisons after %s" % op)
    for p in set(PRESENTATIONS):
        if g("comparisons_presentation:" + p, 0) < 60:
            out.append("fewer than 60 comparisons with presentation %s" % p)
    if g("centre_comparisons", 0) < 400:
        out.append("fewer than 400 centre comparisons")
    if g("contains3d_calls_with_several_chunks", 0) < 200:
        out.append("fewer than 200 contains3d calls evaluated in several chunks")
    for k, op, need in (("polygon", "rotate_to", 40), ("polygon", "move_to", 60), ("rect", "rotate_to", 40), ("ellipse", "rotate_to", 40),
                        ("rect", "move_to", 40), ("ellipse", "move_to", 40), ("circle", "move_to", 40), ("annulus", "move_to", 40),
                        ("range", "move_to", 40)):
        if g("comparisons_shape_op:%s:%s" % (k, op), 0) < need:
            out.append("fewer than %d comparisons after %s on %s" % (need, op, k))
    for fam in ("strings", "prefix_strings", "ints", "int_categories_float_values", "float_categories_int_values"):
        if g("variant:categorical:" + fam, 0) < 8:
            out.append("fewer than 8 CategoricalROI instances of family %s" % fam)
    if g("categorical_large_comparisons", 0) < 30 or g("categorical_large_values_compared", 0) < 30000:
        out.append("fewer than 30 comparisons / 30000 values for CategoricalROI with 40-200 categories")
    if g("categorical_jittered_inputs", 0) < 60:
        out.append("fewer than 60 CategoricalROI comparisons on jittered categorical arrays")
    if g("offset_class_instances", 0) < 22 or g("offset_class_round_trips_completed", 0) < 15:
        out.append("fewer than 22 regions with offset >> extent or fewer than 15 completed round trips")
    if g("categorical_values_wider_than_categories", 0) < 80:
        out.append("fewer than 80 CategoricalROI comparisons with tested labels wider than the region's category array")
    for k, need in (("long_move_rotate_histories", 25), ("steps_repeated_identically", 40), ("histories_returned_to_start", 15),
                    ("steps:fault", 40), ("fault_calls_raised", 60), ("constructed_with_theta_none", 6),
                    ("comparisons_presentation:int_dtypes", 50),
                    ("rotation_amount_class:none_means_zero", 8)):
        if g(k, 0) < need:
            out.append("fewer than %d %s" % (need, k))
    for pt in ("python_float", "python_int", "np_float64", "np_float32", "np_int64", "vertices_python", "vertices_numpy", "vertices_tuple"):
        if g("param_type:" + pt, 0) < (6 if pt == "np_int64" else 15):
            out.append("too few regions built with parameter type %s" % pt)
    for mk in MATRIX_KINDS:
        if g("contains3d_calls_projection:" + mk, 0) < 40:
            out.append("fewer than 40 contains3d comparisons with projection class %s" % mk)
    for mg in ("1e-10", "1e-6", "1", "1e6", "1e12"):
        if g("comparisons_magnitude:" + mg, 0) < 100:
            out.append("fewer than 100 comparisons at coordinate magnitude %s" % mg)
    if g("polygon_closed", 0) < 25 or g("polygon_open", 0) < 25:
        out.append("fewer than 25 closed or open polygons")
    pc, pi = g("points_compared", 0), g("points_compared_inside", 0)
    if pc < 400000:
        out.append("fewer than 400000 points compared")
    if pc and pi < 0.10 * pc:
        out.append("fewer than 10 % of the compared points are inside their region")
    if tier == "thorough" and g("contains3d_million_point_cases", 0) < 2:
        out.append("fewer than 2 million-point contains3d cases with the real chunk constant")
    return out
