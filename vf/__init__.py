"""Runtime-monitoring harness for the glue-core properties (see /verif/DESIGN.md)."""
import os
import sys

VERIF_ROOT = os.path.dirname(os.path.dirname(os.path.abspath(__file__)))
REPO = os.environ.get("VERIF_GLUE_PATH", "/repo")
GUARD = "GLUE_VERIF"


def add_deps():
    """Make icontract/deal (installed from the offline wheelhouse into
    /verif/.deps) importable, *after* the interpreter's own packages."""
    d = os.path.join(VERIF_ROOT, ".deps")
    if os.path.isdir(d) and d not in sys.path:
        sys.path.append(d)
    return os.path.isdir(d)
