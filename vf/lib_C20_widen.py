"""C20 - adversarial widening classes (see notes/C20.md, "Adversarial widening round").

Classes that the plain small-bound enumeration in vf/props/C20.py cannot reach: very long arrays for combine_slices
and iterate_chunks (exact arithmetic oracles), dtype / byte-order / width variants, large arrays with duplicates and
call histories for categorical_ndarray / unique / index_lookup, fault sequences.  Every function reports through ctx
exactly like the enumeration blocks do.
"""
import itertools
import math

import numpy as np

from glue.utils.array import (categorical_ndarray, combine_slices, find_chunk_shape, index_lookup, iterate_chunks,
                              unique)

# ---------------------------------------------------------------- combine_slices on very long arrays
LARGE_LENGTHS = [10 ** 6, 10 ** 9 + 7, 2 ** 31 - 1, 2 ** 31, 2 ** 40 + 3, 2 ** 53 + 1, 2 ** 62]
LARGE_STEPS = [None, 1, 2, 3, 7, 101]      # combine_slices itself scans up to step1 candidates: keep steps moderate


def large_ends(L):
    return [None, 0, 7, L // 2, L - 8, L, L + 5, -1, -9, -L]


def expected_positions(s1, s2, L):
    """range of the positions i (within range(L)[s1]) whose element is also chosen by s2 - solved as a linear
    congruence, no enumeration."""
    v = range(*s1.indices(L))
    c = range(*s2.indices(L))
    if len(v) == 0 or len(c) == 0:
        return range(0)
    a, b = v.step, c.step
    g = math.gcd(a, b)
    diff = c.start - v.start
    if diff % g:
        return range(0)
    m = b // g
    # v.start + i*a == c.start (mod b)  <=>  i*(a/g) == diff/g (mod m)
    i0 = ((diff // g) * pow(a // g, -1, m)) % m if m > 1 else 0
    # first index whose value is >= c.start
    lo = max(0, -((v.start - c.start) // a))
    if i0 < lo:
        i0 += ((lo - i0 + m - 1) // m) * m
    # indices with value < c.stop and inside the view
    hi = min(len(v), max(0, -((v.start - c.stop) // a)))
    if i0 >= hi:
        return range(0)
    return range(i0, hi, m)


def run_cs_large(ctx, k):
    L = LARGE_LENGTHS[k]
    ends = large_ends(L)
    slices = [slice(b, e, st) for b in ends for e in ends for st in LARGE_STEPS]
    # every slice as slice1 against a rotating third of the slices as slice2 (all pairs in the thorough tier)
    stride = 1 if ctx.tier != "quick" else 7
    n = 0
    for i, s1 in enumerate(slices):
        nv = len(range(*s1.indices(L)))
        for s2 in slices[i % stride::stride]:
            exp = expected_positions(s1, s2, L)
            if len(exp) < 2:
                # combine_slices scans the whole overlap for a second common element: with fewer than two of them the
                # call is O(overlap / step2) - on these lengths minutes to years.  Exactness is not at stake; skipped.
                b1_, e1_, _ = s1.indices(L)
                b2_, e2_, st2_ = s2.indices(L)
                if (min(e1_, e2_) - max(b1_, b2_)) // st2_ > 20000:
                    ctx.count("observed_combine_slices_linear_scan_skipped")
                    continue
            n += 1
            try:
                comb = combine_slices(s1, s2, L)
                got = range(nv)[comb]
            except Exception as exc:
                ctx.violation({"helper": "combine_slices", "kind": "exception", "exc": type(exc).__name__,
                               "length_class": "large", "length_at_least_2**53": L >= 2 ** 53},
                              {"length": L, "slice1": s1, "slice2": s2, "error": repr(exc)})
                continue
            if got != exp or not isinstance(comb, slice):
                ctx.violation({"helper": "combine_slices", "kind": "wrong_positions", "length_class": "large",
                               "length_at_least_2**53": L >= 2 ** 53, "step1_gt1": (s1.step or 1) > 1,
                               "step2_gt1": (s2.step or 1) > 1,
                               "expected_count": "0" if not len(exp) else ("1" if len(exp) == 1 else "many")},
                              {"length": L, "slice1": s1, "slice2": s2, "combined": comb, "got": repr(got),
                               "expected": repr(exp)})
        ctx.evaluation(["csl", L, repr(s1)], nv > 0, n=max(1, len(slices[i % stride::stride])))
    ctx.count("combine_slices_large_length_pairs", n)


def selfcheck_expected_positions():
    """The congruence oracle against brute force on small lengths (run once per worker; a disagreement is a harness bug)."""
    for L in (0, 5, 9):
        ends = [None, 1, L, L + 2, -3]
        for b1, e1, b2, e2 in itertools.product(ends, repeat=4):
            for st1, st2 in itertools.product((None, 1, 2, 3, 5), repeat=2):
                s1, s2 = slice(b1, e1, st1), slice(b2, e2, st2)
                v = list(range(*s1.indices(L)))
                c = set(range(*s2.indices(L)))
                brute = [i for i, x in enumerate(v) if x in c]
                if list(expected_positions(s1, s2, L)) != brute:
                    raise AssertionError("oracle self-check failed for %r %r %d" % (s1, s2, L))


# ---------------------------------------------------------------- iterate_chunks on large shapes
LARGE_SHAPES = [(10 ** 6,), (10 ** 5, 7), (3, 10 ** 5), (1000, 1000), (64, 64, 64), (2, 3, 10 ** 5), (10 ** 4, 1, 50),
                (7, 1, 1, 10 ** 4)]


def check_partition(ctx, shape, chunks, limit, mode, detail):
    """chunks: list of tuples of slices.  Exact partition test by arithmetic: grid-aligned starts, extents reaching
    the next grid line or the end, distinct, volumes adding up."""
    nd = len(shape)
    size = int(np.prod(shape, dtype=object)) if nd else 1
    sig = None
    ext = [0] * nd
    for ch in chunks:
        if not (isinstance(ch, tuple) and len(ch) == nd and all(isinstance(s, slice) for s in ch)):
            sig = "not_a_tuple_of_slices"
            break
        for i, s in enumerate(ch):
            ext[i] = max(ext[i], min(s.stop, shape[i]) - s.start)
    if sig is None:
        vol = 0
        seen = set()
        for ch in chunks:
            v = 1
            for i, s in enumerate(ch):
                stop = min(s.stop, shape[i])
                if s.start < 0 or s.start >= shape[i] or s.step not in (None, 1) or s.start % ext[i] != 0 \
                        or stop != min(s.start + ext[i], shape[i]):
                    sig = "chunk_off_grid_or_out_of_bounds"
                v *= stop - s.start
            if mode == "n_max" and v > limit:
                sig = "chunk_over_limit"
            if mode == "chunk_shape" and any(e > c for e, c in zip(ext, limit)):
                sig = "chunk_over_limit"
            key = tuple(s.start for s in ch)
            if key in seen:
                sig = "element_repeated"
            seen.add(key)
            vol += v
        if sig is None and vol != size:
            sig = "element_missed" if vol < size else "element_repeated"
    if sig:
        d = dict(detail)
        d["first_chunks"] = [repr(c) for c in chunks[:4]]
        ctx.violation({"helper": "iterate_chunks", "mode": mode, "kind": sig, "ndim": nd, "shape_class": "large"}, d)


def run_chunks_large(ctx, k):
    shape = LARGE_SHAPES[k]
    size = int(np.prod(shape, dtype=object))
    cap = 6000        # chunks per call
    limits = sorted({size // 5000 + 1, size // 997 + 1, size // 64, size // 7, size // 2, size - 1, size, size + 1,
                     10 ** 12, 2 ** 63 - 1, shape[-1], shape[-1] + 1, shape[-1] - 1} - {0})
    for n_max in limits + [np.int64(size // 11 + 1), np.int32(min(size // 13 + 1, 2 ** 31 - 1))]:
        for shp in (shape, tuple(np.int64(s) for s in shape), list(shape)):
            ctx.evaluation(["icl", list(shape), int(n_max), type(shp).__name__, type(n_max).__name__], n_max < size)
            ctx.count("iterate_chunks_large_shape_cases")
            try:
                cs = find_chunk_shape(shp, n_max)
                if not (len(cs) == len(shape) and all(1 <= c <= s for c, s in zip(cs, shape))
                        and int(np.prod([int(c) for c in cs], dtype=object)) <= n_max):
                    ctx.violation({"helper": "find_chunk_shape", "kind": "over_limit_or_misfit", "ndim": len(shape),
                                   "shape_class": "large"}, {"shape": shape, "n_max": int(n_max), "chunk_shape": cs})
                if int(np.prod([-(-int(s) // int(c)) for s, c in zip(shape, cs)], dtype=object)) > cap:
                    ctx.count("iterate_chunks_large_shape_skipped_too_many_chunks")
                    continue
                chunks = list(itertools.islice(iterate_chunks(shp, n_max=n_max), cap + 1))
            except Exception as exc:
                ctx.violation({"helper": "iterate_chunks", "mode": "n_max", "kind": "exception", "exc": type(exc).__name__,
                               "ndim": len(shape), "shape_class": "large", "numpy_integers": not isinstance(n_max, int)
                               or not isinstance(shp, tuple) or not isinstance(shp[0], int)},
                              {"shape": shape, "n_max": int(n_max), "error": repr(exc)})
                continue
            if len(chunks) > cap:
                ctx.violation({"helper": "iterate_chunks", "mode": "n_max", "kind": "too_many_chunks", "ndim": len(shape),
                               "shape_class": "large"}, {"shape": shape, "n_max": int(n_max)})
                continue
            check_partition(ctx, shape, chunks, int(n_max), "n_max", {"shape": shape, "n_max": int(n_max)})
    # explicit chunk shapes: one axis cut into 1, 3, 7 or 1000 pieces, the others whole or in halves
    for ax in range(len(shape)):
        for pieces in (1, 3, 7, 1000):
            for halves in (False, True):
                cs = [max(1, -(-s // 2)) if halves else s for s in shape]
                cs[ax] = max(1, -(-shape[ax] // pieces))
                ctx.evaluation(["icl", list(shape), "c", cs], True)
                ctx.count("iterate_chunks_large_shape_cases")
                try:
                    chunks = list(itertools.islice(iterate_chunks(shape, chunk_shape=cs), cap + 1))
                except Exception as exc:
                    ctx.violation({"helper": "iterate_chunks", "mode": "chunk_shape", "kind": "exception",
                                   "exc": type(exc).__name__, "ndim": len(shape), "shape_class": "large"},
                                  {"shape": shape, "chunk_shape": cs, "error": repr(exc)})
                    continue
                if len(chunks) > cap:
                    continue
                check_partition(ctx, shape, chunks, cs, "chunk_shape", {"shape": shape, "chunk_shape": cs})


def run_chunks_zero_dim(ctx):
    """A 0-d shape has one element: exactly one chunk, the empty tuple."""
    for kw in ({"n_max": 1}, {"n_max": 5}, {"chunk_shape": ()}):
        ctx.evaluation(["ic0", sorted(kw)], False)
        ctx.count("iterate_chunks_zero_dim_cases")
        try:
            chunks = list(iterate_chunks((), **kw))
            ok = chunks == [()]
        except Exception as exc:
            ctx.violation({"helper": "iterate_chunks", "kind": "exception", "exc": type(exc).__name__, "ndim": 0,
                           "mode": sorted(kw)[0]}, {"error": repr(exc)})
            continue
        if not ok:
            ctx.violation({"helper": "iterate_chunks", "kind": "zero_dim_not_one_empty_chunk", "ndim": 0,
                           "mode": sorted(kw)[0]}, {"chunks": repr(chunks)})
    if tuple(find_chunk_shape((), 3)) != ():
        ctx.violation({"helper": "find_chunk_shape", "kind": "zero_dim", "ndim": 0}, {})


# ---------------------------------------------------------------- fault sequences (a raising call, then valid ones)
def run_fault_sequences(ctx):
    for rep in range(3):
        ctx.evaluation(["fault", rep], False)
        ctx.count("fault_sequence_cases")
        raised = []
        for bad in (lambda: list(iterate_chunks((3, 4), chunk_shape=(4, 4))),
                    lambda: list(iterate_chunks((3, 4))),
                    lambda: list(iterate_chunks((3, 4), chunk_shape=(1, 1), n_max=2)),
                    lambda: list(iterate_chunks((3, 4), chunk_shape=(1,))),
                    lambda: combine_slices(slice(None, None, -1), slice(0, 3), 5),
                    lambda: combine_slices(slice(0, 3), slice(4, None, -2), 5)):
            try:
                bad()
                raised.append(False)
            except ValueError:
                raised.append(True)
            except Exception as exc:
                raised.append(type(exc).__name__)
            # valid calls right after the failing one
            cnt = np.zeros((3, 4), int)
            for sl in iterate_chunks((3, 4), n_max=5):
                cnt[sl] += 1
            ok = bool(np.all(cnt == 1)) and list(range(4)[combine_slices(slice(1, None), slice(0, 5, 2), 5)]) == [1, 3]
            if not ok:
                ctx.violation({"helper": "iterate_chunks/combine_slices", "kind": "wrong_after_a_raising_call"},
                              {"visit_counts": cnt})
        if raised != [True] * 6:
            # documented argument errors; not part of the statement, recorded only
            ctx.count("observed_invalid_arguments_not_rejected_with_ValueError")


# ---------------------------------------------------------------- categorical / unique: dtypes, widths, byte order
def _arr(values, dtype):
    return np.array(values, dtype=dtype)


DTYPE_ALPHABETS = {
    # name: (values, dtype, sortable)
    "str_shared_prefixes": (["a", "ab", "abc", "b"], "<U3", True),
    "str_width_1": (["a", "b", "c", ""], "<U1", True),
    "str_width_12": (["a", "ab", "", "abcdefghijkl"], "<U12", True),
    "str_big_endian": (["a", "b", "cc", ""], ">U2", True),
    "bytes": ([b"a", b"ab", b"", b"b"], "S2", True),
    "object_str": (["a", "b", "cc", ""], object, True),
    "bool": ([True, False], bool, True),
    "int8": ([-128, 127, 0, 5], "int8", True),
    "uint8": ([0, 255, 3, 200], "uint8", True),
    "int16": ([-32768, 32767, 0, -1], "int16", True),
    "uint64": ([0, 2 ** 64 - 1, 2 ** 63, 5], "uint64", True),
    "int64": ([-2 ** 63, 2 ** 63 - 1, 0, 1], "int64", True),
    "float32": ([1.0, 1.0000001, 1e-10, 1e12], "float32", True),
    "float_close": ([1.0, 1.000000001, 1e12, 1e12 * (1 + 1e-9)], "float64", True),
    "float_tiny_huge": ([1e-10, -1e-10, 1e12, 0.0], "float64", True),
    "int_big_endian": ([3, -1, 0, 7], ">i4", True),
    "float_big_endian": ([0.5, -2.0, 1e10, 3.25], ">f8", True),
    "object_int_float_equal": ([1, 1.0, 2, 2.5], object, True),
    "object_mixed_types": ([1, "a", 2.5, "b"], object, False),
}


def one_d_layouts(arr):
    out = [("c_contiguous", arr)]
    if arr.size >= 2:
        out.append(("reversed_view", arr[::-1]))
        out.append(("strided_view", np.repeat(arr, 2)[::2]))
    return out


def check_unique_and_categorical(ctx, arr, name, layout, sortable, size_class, as_categorical=True):
    vals = arr.ravel().tolist()
    feats = {"alphabet": name, "layout": layout, "ndim": arr.ndim, "size_class": size_class,
             "byte_order": "big_endian_numeric" if (arr.dtype.byteorder == ">" and arr.dtype.kind in "iuf") else "native"}
    exp = sorted(set(vals)) if sortable else None
    nontrivial = len(set(map(repr, vals))) >= 2
    wit = {"dtype": str(arr.dtype), "values": vals[:40], "shape": arr.shape, "strides": arr.strides}
    ctx.evaluation(["uniq+", name, layout, size_class, vals[:12], list(arr.shape)], nontrivial)
    ctx.count("unique_dtype_cases")
    ctx.count("unique_alphabet_%s" % name)
    try:
        U, I = unique(arr)
        cats = np.asarray(U).tolist()
        ok_unique = all(cats.count(c) == 1 or not sortable for c in cats)
        ok_sorted = (cats == exp) if sortable else (len(cats) == len({repr(c) for c in cats}))
        ok_back = I.shape == arr.shape and bool(np.all(np.asarray(U, dtype=object)[I] == arr.astype(object)))
    except Exception as exc:
        sig = {"helper": "unique", "kind": "exception", "exc": type(exc).__name__}
        sig.update(feats)
        ctx.violation(sig, dict(wit, error=repr(exc)))
    else:
        if not (ok_unique and ok_sorted and ok_back):
            sig = {"helper": "unique", "kind": "categories_not_sorted_unique" if not (ok_sorted and ok_unique) else
                   ("index_shape" if I.shape != arr.shape else "U[I]_differs")}
            sig.update(feats)
            ctx.violation(sig, dict(wit, U=U, I=I))
    if not as_categorical:
        return
    ctx.evaluation(["cat+", name, layout, size_class, vals[:12], list(arr.shape)], nontrivial)
    ctx.count("categorical_dtype_cases")
    for copy in (True, False):
        try:
            c = categorical_ndarray(arr, copy=copy)
            cats, codes = np.asarray(c.categories), np.asarray(c.codes)
            cl = cats.tolist()
            problem = None
            if sortable and cl != exp:
                problem = "categories_not_sorted_unique"
            elif codes.shape != arr.shape:
                problem = "codes_shape"
            elif codes.size and (not np.all(np.isfinite(codes)) or np.any(codes != np.round(codes)) or codes.min() < 0
                                 or codes.max() >= len(cl)):
                problem = "codes_not_valid_indices"
            elif not bool(np.all(cats.astype(object)[codes.astype(int)] == arr.astype(object))):
                problem = "categories[codes]_differs"
        except Exception as exc:
            sig = {"helper": "categorical_ndarray", "kind": "exception", "exc": type(exc).__name__, "copy": copy}
            sig.update(feats)
            ctx.violation(sig, dict(wit, error=repr(exc)))
            continue
        if problem:
            sig = {"helper": "categorical_ndarray", "kind": problem, "copy": copy}
            sig.update(feats)
            ctx.violation(sig, dict(wit, categories=cats, codes=codes))


def run_dtype_alphabet(ctx, name):
    values, dtype, sortable = DTYPE_ALPHABETS[name]
    # the empty array of this dtype (falsy input)
    check_unique_and_categorical(ctx, _arr([], dtype), name, "c_contiguous", sortable, "empty")
    ctx.count("unique_empty_array_cases")
    for n in (1, 2, 3):
        for combo in itertools.product(values, repeat=n):
            base = np.empty(n, dtype=dtype)
            for i, v in enumerate(combo):
                base[i] = v
            for layout, arr in one_d_layouts(base):
                check_unique_and_categorical(ctx, arr, name, layout, sortable, "small")
    # 2-d, both memory orders
    for combo in itertools.product(values, repeat=4):
        if combo[0] != values[0]:
            continue
        base = np.empty(4, dtype=dtype)
        for i, v in enumerate(combo):
            base[i] = v
        base = base.reshape(2, 2)
        for layout, arr in (("c_contiguous", base), ("transposed_view", base.T), ("fortran_copy", np.asfortranarray(base))):
            check_unique_and_categorical(ctx, arr, name, layout, sortable, "small")


def run_big_arrays(ctx, k):
    """Arrays long enough to leave the small-array code paths of numpy / pandas (>= 100 rows, many duplicates)."""
    rng = ctx.rng
    sizes = [100, 257, 1000] + ([5000, 20000] if ctx.tier != "quick" else [])
    for name in ("str_shared_prefixes", "int8", "float_close", "object_str", "uint64"):
        values, dtype, sortable = DTYPE_ALPHABETS[name]
        for n in sizes:
            pool = values if rng.random() < 0.5 else values[:rng.randint(1, len(values))]
            base = np.empty(n, dtype=dtype)
            for i in range(n):
                base[i] = rng.choice(pool)
            shapes = [(n,)]
            if n % 4 == 0:
                shapes.append((4, n // 4))
            for shape in shapes:
                a = base.reshape(shape)
                cands = [("c_contiguous", a), ("strided_view", np.repeat(a, 2, axis=0)[::2])]
                if a.ndim == 2:
                    cands += [("transposed_view", a.T), ("fortran_copy", np.asfortranarray(a))]
                else:
                    cands.append(("reversed_view", a[::-1]))
                for layout, arr in cands:
                    check_unique_and_categorical(ctx, arr, name, layout, sortable, "hundreds_or_more")
                    ctx.count("unique_big_array_cases")
            # index_lookup on many rows with duplicates, some values absent from the items
            items = list(values[:rng.randint(1, len(values))])
            rng.shuffle(items)
            check_index_lookup(ctx, base, np.array(items, dtype=dtype), name, "hundreds_or_more", "c_contiguous")
            check_index_lookup(ctx, np.repeat(base, 2)[::2], np.array(items, dtype=dtype), name, "hundreds_or_more",
                               "strided_view")


def check_index_lookup(ctx, data, items, name, size_class, layout):
    ctx.evaluation(["il+", name, size_class, layout, data.tolist()[:12], items.tolist()], len(data) >= 2)
    ctx.count("index_lookup_dtype_cases")
    dl, il = data.tolist(), items.tolist()
    try:
        res = np.asarray(index_lookup(data, items))
    except Exception as exc:
        ctx.violation({"helper": "index_lookup", "kind": "exception", "exc": type(exc).__name__, "alphabet": name,
                       "size_class": size_class, "layout": layout, "empty_data": len(dl) == 0},
                      {"data": dl[:40], "items": il, "error": repr(exc)})
        return
    kind = None
    if res.shape != (len(dl),):
        kind = "result_shape"
    else:
        for i, v in enumerate(dl):
            if v in il:
                if not (np.isfinite(res[i]) and res[i] == il.index(v)):
                    kind = "wrong_or_missing_index"
                    break
            elif np.isfinite(res[i]):
                kind = "index_for_absent_value"
                break
    if kind:
        ctx.violation({"helper": "index_lookup", "kind": kind, "alphabet": name, "size_class": size_class, "layout": layout},
                      {"data": dl[:40], "items": il, "result": res[:40]})


def run_index_lookup_variants(ctx):
    # widths differ between data and items; numeric items equal by value but of another dtype
    for d, it, name in ((np.array(["a", "b", "a"], dtype="<U1"), np.array(["b", "abc", "a"], dtype="<U3"), "width_1_vs_3"),
                        (np.array(["ab", "a", ""], dtype="<U2"), np.array(["a", ""], dtype="<U1"), "width_2_vs_1"),
                        (np.array([1, 2, 3, 2]), np.array([2.0, 1.0]), "int_data_float_items"),
                        (np.array([1.0, 2.0, 0.5]), np.array([2, 1]), "float_data_int_items"),
                        (np.array([3, 1], dtype="int8"), np.array([1, 3, 5], dtype="int64"), "int8_vs_int64"),
                        (np.array([], dtype="<U1"), np.array(["a"]), "empty_data"),
                        (np.array(["a", "b"]), np.array([], dtype="<U1"), "empty_items")):
        for layout, arr in one_d_layouts(d):
            check_index_lookup(ctx, arr, it, name, "small", layout)


# ---------------------------------------------------------------- categorical_ndarray: histories of calls
def _identity_holds(c, values):
    cats, codes = np.asarray(c.categories), np.asarray(c.codes)
    return (codes.shape == values.shape and bool(np.all(np.isfinite(codes)))
            and bool(np.all(cats[codes.astype(int)] == values)))


def run_categorical_histories(ctx):
    alphabet = ["a", "b", "cc", ""]
    for vals in itertools.product(alphabet, repeat=3):
        values = np.array(vals)
        wit = {"values": list(vals)}
        # -- same read twice; jitter on and off again
        ctx.evaluation(["cathist", "jitter", vals], len(set(vals)) >= 2)
        ctx.count("categorical_history_cases")
        try:
            c = categorical_ndarray(values)
            first = np.array(c.codes)
            again = np.array(c.codes)
            c.jitter("uniform")
            jit = np.array(c.codes)
            c.jitter(None)
            back = np.array(c.codes)
            ok = (np.array_equal(first, again) and np.array_equal(first, back) and bool(np.all(np.abs(jit - first) <= 0.5))
                  and _identity_holds(c, values))
        except Exception as exc:
            ctx.violation({"helper": "categorical_ndarray", "kind": "exception", "exc": type(exc).__name__,
                           "history": "codes_jitter_on_off"}, dict(wit, error=repr(exc)))
        else:
            if not ok:
                ctx.violation({"helper": "categorical_ndarray", "kind": "codes_change_across_reads",
                               "history": "codes_jitter_on_off"}, dict(wit, first=first, jittered=jit, back=back))
        # -- custom categories (reordered / with an unused entry), assigned before or after the first read of codes
        present = sorted(set(vals))
        for order_name, cats in (("reversed", present[::-1]), ("with_unused_entry", ["zz"] + present)):
            for when in ("before_first_read", "after_codes_were_read"):
                ctx.evaluation(["cathist", order_name, when, vals], len(present) >= 2)
                ctx.count("categorical_history_cases")
                ctx.count("categorical_history_assign_categories_%s" % when)
                try:
                    c = categorical_ndarray(values)
                    if when == "after_codes_were_read":
                        c.codes
                    c.categories = np.array(cats)
                    ok = _identity_holds(c, values) and np.asarray(c.categories).tolist() == cats
                except Exception as exc:
                    ctx.violation({"helper": "categorical_ndarray", "kind": "exception", "exc": type(exc).__name__,
                                   "history": "assign_categories_" + when}, dict(wit, categories=cats, error=repr(exc)))
                    continue
                if not ok:
                    ctx.violation({"helper": "categorical_ndarray", "kind": "categories[codes]_differs",
                                   "history": "assign_categories_" + when, "categories_order": order_name},
                                  dict(wit, categories=cats, codes=np.asarray(c.codes)))
        # -- views and copies taken after the codes were computed
        for name, take in (("slice_after_read", lambda c: c[1:]), ("reversed_after_read", lambda c: c[::-1]),
                           ("copy_after_read", lambda c: c.copy()), ("fancy_after_read", lambda c: c[[2, 0, 0]])):
            ctx.evaluation(["cathist", name, vals], len(present) >= 2)
            ctx.count("categorical_history_cases")
            try:
                c = categorical_ndarray(values)
                c.codes
                sub = take(c)
                ok = _identity_holds(sub, np.asarray(take(values)))
            except Exception as exc:
                ctx.violation({"helper": "categorical_ndarray", "kind": "exception", "exc": type(exc).__name__,
                               "history": name}, dict(wit, error=repr(exc)))
                continue
            if not ok:
                ctx.violation({"helper": "categorical_ndarray", "kind": "categories[codes]_differs", "history": name},
                              dict(wit, categories=np.asarray(sub.categories), codes=np.asarray(sub.codes)))
        # -- element assigned in place after the codes were read: numpy-level mutation behind the class's back;
        #    the cache cannot know (recorded, not deciding)
        c = categorical_ndarray(values)
        c.codes
        c[0] = alphabet[(alphabet.index(vals[0]) + 1) % 4]
        if not _identity_holds(c, np.asarray(c)):
            ctx.count("observed_codes_stale_after_in_place_element_assignment")
