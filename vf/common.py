"""Shared recipes and comparison helpers for the property drivers.

Everything random takes an explicit `random.Random` (ctx.rng) so that a case
is a deterministic function of (VERIF_SEED, property, case id).
"""
import numpy as np

from glue.core import Data, DataCollection
from glue.core.coordinates import AffineCoordinates, IdentityCoordinates

SPECIAL = [-2.0, -1.0, -0.5, 0.0, 0.5, 1.0, 2.0, 3.0, float("nan"), float("inf"), float("-inf")]


def rand_shape(rng, max_dim=3, max_len=5, min_len=1):
    nd = rng.randint(1, max_dim)
    return tuple(rng.randint(min_len, max_len) for _ in range(nd))


def rand_floats(rng, shape, special=True, p_special=0.3):
    n = int(np.prod(shape))
    vals = []
    for _ in range(n):
        if special and rng.random() < p_special:
            vals.append(rng.choice(SPECIAL))
        else:
            vals.append(round(rng.uniform(-3, 3), 3))
    return np.array(vals, dtype=float).reshape(shape)


def injective_floats(rng, shape, lo=-5.0, hi=5.0):
    """Distinct finite values (oracles can identify elements by value)."""
    n = int(np.prod(shape))
    vals = np.linspace(lo, hi, n) + np.array([rng.uniform(-0.01, 0.01) for _ in range(n)])
    perm = list(range(n))
    rng.shuffle(perm)
    return vals[perm].reshape(shape)


def rand_ints(rng, shape, lo=-3, hi=6):
    n = int(np.prod(shape))
    return np.array([rng.randint(lo, hi) for _ in range(n)], dtype=int).reshape(shape)


def rand_cats(rng, n, cats=("a", "b", "c", "dd")):
    return np.array([rng.choice(cats) for _ in range(n)])


AFFINE_KINDS = ["diagonal", "coupled_symmetric", "coupled_triangular", "permuted", "full"]


def affine_matrix(rng, nd, kind):
    """(nd+1)x(nd+1) well-conditioned affine matrix of the requested coupling pattern."""
    m = np.eye(nd + 1)
    lin = np.diag([rng.choice([0.5, 1.5, 2.0, 3.0, -2.0]) for _ in range(nd)]).astype(float)
    if kind == "coupled_symmetric" and nd > 1:
        i, j = rng.sample(range(nd), 2)
        lin[i, j] = lin[j, i] = 0.25
    elif kind == "coupled_triangular" and nd > 1:
        for i in range(nd):
            for j in range(i + 1, nd):
                if rng.random() < 0.7:
                    lin[i, j] = rng.choice([0.25, -0.5, 0.75])
        if not np.any(np.triu(lin, 1)):
            lin[0, nd - 1] = 0.5
    elif kind == "permuted" and nd > 1:
        perm = list(range(nd))
        while perm == list(range(nd)):
            rng.shuffle(perm)
        lin = lin[perm]
    elif kind == "full" and nd > 1:
        for i in range(nd):
            for j in range(nd):
                if i != j:
                    lin[i, j] = rng.choice([0.1, -0.2, 0.3])
    m[:nd, :nd] = lin
    m[:nd, nd] = [rng.choice([0.0, 1.0, -2.5, 10.0]) for _ in range(nd)]
    return m


def make_coords(rng, nd, kind):
    if kind is None or kind == "none":
        return None
    if kind == "identity":
        return IdentityCoordinates(n_dim=nd)
    return AffineCoordinates(affine_matrix(rng, nd, kind))


def make_data(rng, shape=None, label="d", coords="random", cat=True, derived=True, ints=True, max_dim=3, max_len=5):
    """A Data object with float (special values), injective float, int, (1-d only) categorical and derived
    components.  Returns (data, info) where info names the component kinds."""
    if shape is None:
        shape = rand_shape(rng, max_dim, max_len)
    nd = len(shape)
    if coords == "random":
        coords = rng.choice([None, None, "identity", "diagonal", "coupled_symmetric", "full"])
    cobj = make_coords(rng, nd, coords)
    kw = {}
    if cobj is not None:
        kw["coords"] = cobj
    d = Data(label=label, **kw)
    d.add_component(rand_floats(rng, shape), "v")
    d.add_component(injective_floats(rng, shape), "w")
    info = {"shape": list(shape), "coords": coords, "float": ["v", "w"], "int": [], "cat": [], "derived": []}
    if ints:
        d.add_component(rand_ints(rng, shape), "i")
        info["int"].append("i")
    if cat and nd == 1:
        d.add_component(rand_cats(rng, shape[0]), "c")
        info["cat"].append("c")
    if derived:
        d.add_component_link(d.id["w"] * 2 + d.id["v"], "der")
        info["derived"].append("der")
    return d, info


# ---------------------------------------------------------------- views
def rand_slice(rng, n, allow_empty=True):
    a = rng.randrange(0, n + 1)
    b = rng.randrange(0, n + 1)
    st = rng.choice([None, 1, 2, 3])
    s = rng.choice([slice(None), slice(a, b, st), slice(a, None, st), slice(None, b, st), slice(None, None, st)])
    if not allow_empty and len(range(*s.indices(n))) == 0:
        return slice(None)
    return s


VIEW_KINDS = ["none", "ellipsis", "bare_slice", "slice_tuple_full", "slice_tuple_short", "int_slice_mix", "all_int",
              "index_arrays", "bool_mask", "empty_slice"]


def make_view(rng, shape, kind):
    """A view of the requested kind from the supported domain (non-negative ints, positive steps)."""
    nd = len(shape)
    if kind == "none":
        return None
    if kind == "ellipsis":
        return Ellipsis
    if kind == "bare_slice":
        return rand_slice(rng, shape[0]) if nd == 1 else (rand_slice(rng, shape[0]),)
    if kind == "slice_tuple_full":
        return tuple(rand_slice(rng, s) for s in shape)
    if kind == "slice_tuple_short":
        k = rng.randint(1, nd)
        return tuple(rand_slice(rng, shape[i]) for i in range(k))
    if kind == "int_slice_mix":
        v = [rng.randrange(s) if rng.random() < 0.5 else rand_slice(rng, s) for s in shape]
        if all(isinstance(x, int) for x in v):
            v[rng.randrange(nd)] = slice(None)
        if not any(isinstance(x, int) for x in v):
            i = rng.randrange(nd)
            v[i] = rng.randrange(shape[i])
        return tuple(v)
    if kind == "all_int":
        return tuple(rng.randrange(s) for s in shape)
    if kind == "index_arrays":
        k = rng.randint(1, 6)
        return tuple(np.array([rng.randrange(s) for _ in range(k)]) for s in shape)
    if kind == "bool_mask":
        n = int(np.prod(shape))
        return np.array([rng.random() < 0.5 for _ in range(n)]).reshape(shape)
    if kind == "empty_slice":
        v = [rand_slice(rng, s) for s in shape]
        i = rng.randrange(nd)
        a = rng.randrange(0, shape[i] + 1)
        v[i] = slice(a, a)
        return tuple(v)
    raise ValueError(kind)


def apply_view(full, view):
    full = np.asarray(full)
    if view is None:
        return full
    return full[view]


def describe_view(view):
    if view is None or view is Ellipsis:
        return repr(view)
    if isinstance(view, np.ndarray):
        return "boolmask" + str(list(view.shape))
    if isinstance(view, slice):
        return "slice(%r,%r,%r)" % (view.start, view.stop, view.step)
    out = []
    for v in view:
        if isinstance(v, np.ndarray):
            out.append("idx" + str(v.tolist()))
        elif isinstance(v, slice):
            out.append("%s:%s:%s" % ("" if v.start is None else v.start, "" if v.stop is None else v.stop,
                                     "" if v.step is None else v.step))
        else:
            out.append(str(v))
    return "(" + ", ".join(out) + ")"


# ---------------------------------------------------------------- comparisons
def same_array(got, exp, rtol=0.0, atol=0.0):
    """Shape- and value-equality, NaN == NaN, inf == inf of the same sign, strings exact."""
    got = np.asarray(got)
    exp = np.asarray(exp)
    if got.shape != exp.shape:
        return False
    if got.dtype.kind in "fc" or exp.dtype.kind in "fc":
        try:
            g = got.astype(float)
            e = exp.astype(float)
        except (TypeError, ValueError):
            return False
        if rtol or atol:
            return bool(np.allclose(g, e, rtol=rtol, atol=atol, equal_nan=True))
        return bool(np.array_equal(g, e, equal_nan=True))
    return bool(np.array_equal(got, exp))


def exc_name(e):
    return type(e).__name__
