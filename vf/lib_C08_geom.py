"""Independent reference geometry for C08 / C09.

A region is a plain JSON-able *descriptor* (dict).  `classify(desc, x, y, mul, add)`
answers, for float64 point arrays, (inside, band):

  inside - the true geometric answer (open region; the answer for points in the band is not used)
  band   - True where the point is so close to the region's boundary that the statement makes no
           claim: the answer differs between the region grown and shrunk by the margin
           `extent * mul + add` (analytic shapes), or the distance to an edge is below that margin
           (polygons).

Nothing in here calls glue.  Polygons use the even-odd crossing number with a half-open rule in
float64 (exact for points outside the band, because the decisive quantity - the horizontal distance
to an edge - then exceeds the rounding error by many orders of magnitude); `poly_inside_exact`
is the same rule in `fractions.Fraction` and is used to cross-check the float version on samples.
"""
import math
from fractions import Fraction

import numpy as np


# ---------------------------------------------------------------- helpers
def _frame(x, y, xc, yc, theta):
    """Coordinates of the points in the frame of a shape centred at (xc, yc) and rotated by theta."""
    dx = x - xc
    dy = y - yc
    c, s = math.cos(theta), math.sin(theta)
    return c * dx + s * dy, -s * dx + c * dy


def _grow(a, mul, add, sign):
    return a * (1.0 + sign * mul) + sign * add


# ---------------------------------------------------------------- polygons
def poly_inside(px, py, vx, vy):
    """Even-odd rule, implicit closing edge, half-open in y."""
    px = np.asarray(px, dtype=float)
    py = np.asarray(py, dtype=float)
    inside = np.zeros(px.shape, dtype=bool)
    n = len(vx)
    with np.errstate(all="ignore"):
        for i in range(n):
            x1, y1 = float(vx[i]), float(vy[i])
            x2, y2 = float(vx[(i + 1) % n]), float(vy[(i + 1) % n])
            if y1 == y2:
                continue
            cond = (y1 > py) != (y2 > py)
            xint = x1 + (py - y1) * ((x2 - x1) / (y2 - y1))
            inside ^= cond & (px < xint)
    return inside


def poly_dist(px, py, vx, vy):
    """Distance of each point to the nearest edge (closing edge included)."""
    px = np.asarray(px, dtype=float)
    py = np.asarray(py, dtype=float)
    best = np.full(px.shape, np.inf)
    n = len(vx)
    with np.errstate(all="ignore"):
        for i in range(n):
            x1, y1 = float(vx[i]), float(vy[i])
            x2, y2 = float(vx[(i + 1) % n]), float(vy[(i + 1) % n])
            ex, ey = x2 - x1, y2 - y1
            L2 = ex * ex + ey * ey
            if L2 == 0.0:
                d = np.hypot(px - x1, py - y1)
            else:
                t = ((px - x1) * ex + (py - y1) * ey) / L2
                t = np.clip(t, 0.0, 1.0)
                d = np.hypot(px - (x1 + t * ex), py - (y1 + t * ey))
            best = np.minimum(best, d)
    return best


def poly_inside_exact(px, py, vx, vy):
    """One point, exact rational arithmetic, same rule as poly_inside."""
    px, py = Fraction(float(px)), Fraction(float(py))
    n = len(vx)
    inside = False
    for i in range(n):
        x1, y1 = Fraction(float(vx[i])), Fraction(float(vy[i]))
        x2, y2 = Fraction(float(vx[(i + 1) % n])), Fraction(float(vy[(i + 1) % n]))
        if y1 == y2:
            continue
        if (y1 > py) != (y2 > py):
            xint = x1 + (py - y1) * (x2 - x1) / (y2 - y1)
            if px < xint:
                inside = not inside
    return inside


def poly_signed_area(vx, vy):
    n = len(vx)
    a = 0.0
    for i in range(n):
        j = (i + 1) % n
        a += float(vx[i]) * float(vy[j]) - float(vx[j]) * float(vy[i])
    return 0.5 * a


# ---------------------------------------------------------------- descriptors
def scale_of(desc):
    k = desc["k"]
    if k == "rect":
        return max(abs(desc["xmax"] - desc["xmin"]), abs(desc["ymax"] - desc["ymin"])) / 2.0
    if k == "ellipse":
        return max(desc["rx"], desc["ry"])
    if k == "circle":
        return desc["r"]
    if k == "annulus":
        return desc["ro"]
    if k == "polygon":
        vx, vy = desc["vx"], desc["vy"]
        mag = max(max(abs(v) for v in vx), max(abs(v) for v in vy))
        return max(max(vx) - min(vx), max(vy) - min(vy), 1e-3 * mag, 1e-12) / 2.0
    if k == "range":
        return max(abs(desc["hi"] - desc["lo"]) / 2.0, 1e-3 * max(abs(desc["hi"]), abs(desc["lo"])), 1e-12)
    raise ValueError(k)


def magnitude_of(desc):
    """Largest absolute coordinate that the region's own description mentions (workload-side scale of rounding)."""
    k = desc["k"]
    if k == "polygon":
        return max(max(abs(v) for v in desc["vx"]), max(abs(v) for v in desc["vy"]))
    if k == "rect":
        return max(abs(desc[q]) for q in ("xmin", "xmax", "ymin", "ymax"))
    if k == "range":
        return max(abs(desc["lo"]), abs(desc["hi"]))
    return max(abs(desc["xc"]), abs(desc["yc"])) + scale_of(desc)


def scaled(desc, f):
    """The descriptor under the similarity p -> f * p."""
    d = dict(desc)
    for q in ("xmin", "xmax", "ymin", "ymax", "xc", "yc", "rx", "ry", "r", "ri", "ro", "lo", "hi"):
        if q in d:
            d[q] = d[q] * f
    for q in ("vx", "vy"):
        if q in d:
            d[q] = [v * f for v in d[q]]
    return d


def translated(desc, dx, dy):
    d = dict(desc)
    for q in ("xmin", "xmax", "xc"):
        if q in d:
            d[q] = d[q] + dx
    for q in ("ymin", "ymax", "yc"):
        if q in d:
            d[q] = d[q] + dy
    if "vx" in d:
        d["vx"], d["vy"] = [v + dx for v in d["vx"]], [v + dy for v in d["vy"]]
    if d["k"] == "range":
        o = dx if d["ori"] == "x" else dy
        d["lo"], d["hi"] = d["lo"] + o, d["hi"] + o
    return d


def centre_of(desc):
    """Geometric centre for the shapes where it is unambiguous (None for polygons)."""
    k = desc["k"]
    if k == "rect":
        return ((desc["xmin"] + desc["xmax"]) / 2.0, (desc["ymin"] + desc["ymax"]) / 2.0)
    if k in ("ellipse", "circle", "annulus"):
        return (desc["xc"], desc["yc"])
    if k == "range":
        return ((desc["lo"] + desc["hi"]) / 2.0,)
    return None


def bbox_of(desc):
    """A box (x0, x1, y0, y1) that encloses the region (used to place test points only)."""
    k = desc["k"]
    if k == "polygon":
        vx, vy = desc["vx"], desc["vy"]
        return min(vx), max(vx), min(vy), max(vy)
    if k == "range":
        lo, hi = min(desc["lo"], desc["hi"]), max(desc["lo"], desc["hi"])
        if desc["ori"] == "x":
            return lo, hi, -3.0, 3.0
        return -3.0, 3.0, lo, hi
    if k == "rect":
        cx, cy = centre_of(desc)
        r = math.hypot(desc["xmax"] - desc["xmin"], desc["ymax"] - desc["ymin"]) / 2.0
        return cx - r, cx + r, cy - r, cy + r
    cx, cy = centre_of(desc)
    r = scale_of(desc)
    return cx - r, cx + r, cy - r, cy + r


def classify(desc, x, y, mul=0.0, add=0.0):
    """(inside, band) for float arrays x, y of equal shape.  Non-finite points: outside, not in band."""
    x = np.asarray(x, dtype=float)
    y = np.asarray(y, dtype=float)
    finite = np.isfinite(x) & np.isfinite(y)
    with np.errstate(all="ignore"):
        inside, band = _classify(desc, np.where(finite, x, 0.0), np.where(finite, y, 0.0), mul, add)
    return inside & finite, band & finite


def _classify(desc, x, y, mul, add):
    k = desc["k"]
    if k == "rect" and desc["theta"] == 0:
        # unrotated: compare with the edges themselves (no centre, so edges of very different magnitude stay exact)
        gx = (desc["xmax"] - desc["xmin"]) / 2.0 * mul + add
        gy = (desc["ymax"] - desc["ymin"]) / 2.0 * mul + add
        box = lambda ex, ey: ((x > desc["xmin"] - ex) & (x < desc["xmax"] + ex) & (y > desc["ymin"] - ey) & (y < desc["ymax"] + ey))
        return box(0.0, 0.0), box(gx, gy) != box(-gx, -gy)
    if k == "rect":
        cx, cy = centre_of(desc)
        hw = (desc["xmax"] - desc["xmin"]) / 2.0
        hh = (desc["ymax"] - desc["ymin"]) / 2.0
        u, v = _frame(x, y, cx, cy, desc["theta"])
        au, av = np.abs(u), np.abs(v)
        inside = (au < hw) & (av < hh)
        plus = (au < _grow(hw, mul, add, 1)) & (av < _grow(hh, mul, add, 1))
        minus = (au < _grow(hw, mul, add, -1)) & (av < _grow(hh, mul, add, -1))
        return inside, plus != minus
    if k == "ellipse":
        u, v = _frame(x, y, desc["xc"], desc["yc"], desc["theta"])

        def ins(rx, ry):
            if rx <= 0 or ry <= 0:
                return np.zeros(u.shape, dtype=bool)
            return (u / rx) ** 2 + (v / ry) ** 2 < 1.0
        inside = ins(desc["rx"], desc["ry"])
        plus = ins(_grow(desc["rx"], mul, add, 1), _grow(desc["ry"], mul, add, 1))
        minus = ins(_grow(desc["rx"], mul, add, -1), _grow(desc["ry"], mul, add, -1))
        return inside, plus != minus
    if k == "circle":
        r = np.hypot(x - desc["xc"], y - desc["yc"])
        inside = r < desc["r"]
        return inside, np.abs(r - desc["r"]) <= desc["r"] * mul + add
    if k == "annulus":
        r = np.hypot(x - desc["xc"], y - desc["yc"])
        inside = (r > desc["ri"]) & (r < desc["ro"])
        band = (np.abs(r - desc["ri"]) <= desc["ri"] * mul + add) | (np.abs(r - desc["ro"]) <= desc["ro"] * mul + add)
        return inside, band
    if k == "range":
        c = x if desc["ori"] == "x" else y
        inside = (c > desc["lo"]) & (c < desc["hi"])
        m = add + (mul * abs(desc["hi"] - desc["lo"]) / 2.0 if mul else 0.0)
        band = (np.abs(c - desc["lo"]) <= m) | (np.abs(c - desc["hi"]) <= m)
        return inside, band
    if k == "polygon":
        vx, vy = desc["vx"], desc["vy"]
        inside = poly_inside(x, y, vx, vy)
        m = add + mul * scale_of(desc)
        band = poly_dist(x, y, vx, vy) <= m
        return inside, band
    raise ValueError(k)


def annulus_seam_band(desc, x, y, margin):
    """The keyhole polygon of an annulus has a double edge from (xc+ri, yc) to (xc+ro, yc)."""
    dx = np.asarray(x, dtype=float) - desc["xc"]
    dy = np.asarray(y, dtype=float) - desc["yc"]
    return (np.abs(dy) <= margin) & (dx >= desc["ri"] * 0.99 - margin) & (dx <= desc["ro"] + margin)


def boundary_points(desc, n, rng):
    """n points on the boundary with outward unit normals (approximate; only used to place test points)."""
    k = desc["k"]
    pts = []
    if k == "rect":
        cx, cy = centre_of(desc)
        hw = (desc["xmax"] - desc["xmin"]) / 2.0
        hh = (desc["ymax"] - desc["ymin"]) / 2.0
        c, s = math.cos(desc["theta"]), math.sin(desc["theta"])
        for _ in range(n):
            side = rng.randrange(4)
            t = rng.choice([-1.0, 1.0, 0.0, rng.uniform(-1, 1), rng.uniform(-1, 1)])
            if side == 0:
                u, v, nu, nv = hw, t * hh, 1.0, 0.0
            elif side == 1:
                u, v, nu, nv = -hw, t * hh, -1.0, 0.0
            elif side == 2:
                u, v, nu, nv = t * hw, hh, 0.0, 1.0
            else:
                u, v, nu, nv = t * hw, -hh, 0.0, -1.0
            pts.append((cx + c * u - s * v, cy + s * u + c * v, c * nu - s * nv, s * nu + c * nv))
    elif k in ("ellipse", "circle", "annulus"):
        for _ in range(n):
            t = rng.choice([0.0, math.pi / 2, math.pi, 1.5 * math.pi, rng.uniform(0, 2 * math.pi), rng.uniform(0, 2 * math.pi)])
            if k == "ellipse":
                rx, ry, th = desc["rx"], desc["ry"], desc["theta"]
            elif k == "circle":
                rx = ry = desc["r"]
                th = 0.0
            else:
                rx = ry = rng.choice([desc["ri"], desc["ro"]])
                th = 0.0
            u, v = rx * math.cos(t), ry * math.sin(t)
            nu, nv = ry * math.cos(t), rx * math.sin(t)
            nn = math.hypot(nu, nv) or 1.0
            nu, nv = nu / nn, nv / nn
            c, s = math.cos(th), math.sin(th)
            pts.append((desc["xc"] + c * u - s * v, desc["yc"] + s * u + c * v, c * nu - s * nv, s * nu + c * nv))
    elif k == "range":
        for _ in range(n):
            e = rng.choice([desc["lo"], desc["hi"]])
            o = rng.uniform(-3, 3)
            if desc["ori"] == "x":
                pts.append((e, o, 1.0, 0.0))
            else:
                pts.append((o, e, 0.0, 1.0))
    elif k == "polygon":
        vx, vy = desc["vx"], desc["vy"]
        m = len(vx)
        for _ in range(n):
            i = rng.randrange(m)
            j = (i + 1) % m
            t = rng.choice([0.0, 1.0, 0.5, rng.random(), rng.random()])
            ex, ey = vx[j] - vx[i], vy[j] - vy[i]
            L = math.hypot(ex, ey)
            if L == 0:
                a = rng.uniform(0, 2 * math.pi)
                nx, ny = math.cos(a), math.sin(a)
            else:
                nx, ny = ey / L, -ex / L
            pts.append((vx[i] + t * ex, vy[i] + t * ey, nx, ny))
    else:
        raise ValueError(k)
    return pts
