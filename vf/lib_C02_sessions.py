"""Session recipes, tracing (un)serialisers and the behavioural `observe(dc)`
used by C02 (save/restore) and C12 (old protocol versions).

Nothing here decides a property.  `build_session` turns a `random.Random`
into a live `DataCollection` plus a JSON-able *descriptor* (which classes were
used where); `save` / `load` run the REAL `GlueSerializer` / `GlueUnSerializer`
(through thin harness subclasses that only *record* which object / record type
was being processed when an exception came out); `observe` reads a collection
through its public API into a plain structure of labels, arrays and outcome
tags; `diff_obs` compares two such structures (NaN-aware) and names the first
difference structurally.
"""
import operator
import os

import numpy as np

from glue.core import Data, DataCollection
from glue.core.component_id import ComponentID
from glue.core.component_link import ComponentLink
from glue.core.coordinates import AffineCoordinates
from glue.core.exceptions import IncompatibleAttribute
from glue.core import link_helpers as LH
from glue.core import roi as R
from glue.core import subset as S
from glue.core.parse import ParsedCommand, ParsedComponentLink, ParsedSubsetState
from glue.core.roi_pretransforms import (FullSphereLongitudeTransform, ProjectionMplTransform, RadianTransform)
from glue.core.state import GlueSerializer, GlueUnSerializer

from vf import common


# ------------------------------------------------------------------ importable link functions
def f_double(x):
    return x * 2


def f_half(x):
    return x / 2


def f_shift(x):
    return x + 10.0


def f_unshift(x):
    return x - 10.0


def f_sum2(a, b):
    return a + b


def f_sum3(a, b, c):
    return a + b + c


def f_swap_fw(a, b):
    return b, a


def f_swap_bw(a, b):
    return b, a


# ------------------------------------------------------------------ tracing serialisers (record only)
class TracingSerializer(GlueSerializer):
    """Real serializer; remembers the class of the innermost object whose
    saver raised, and which registered type's saver each object got.  `pins`
    = {type: version} writes those types with an older registered saver."""

    def __init__(self, obj, pins=None, trace=None, **kw):
        self.pins = pins or {}
        self.trace = trace if trace is not None else {}
        super().__init__(obj, **kw)

    def _dispatch(self, obj):
        if self.pins and not hasattr(obj, '__gluestate__'):
            for typ in type(obj).mro():
                if typ in self.pins:
                    v = self.pins[typ]
                    if callable(v):          # per-object pin: several versions of one type in one file
                        v = v(obj)
                    used = self.trace.setdefault("savers", {})
                    key = "%s@%d" % (typ.__name__, v)
                    used[key] = used.get(key, 0) + 1
                    return self.dispatch.get_version(typ, v), v
                if typ in self.dispatch:
                    break
        fun, version = super()._dispatch(obj)
        used = self.trace.setdefault("savers", {})
        if hasattr(obj, '__gluestate__'):
            key = "dunder:" + type(obj).__name__
        else:
            key = "?"
            for typ in type(obj).mro():
                if typ in self.dispatch:
                    key = "%s@%d" % (typ.__name__, version)
                    if typ is not type(obj):
                        ft = self.trace.setdefault("fallthrough", {})
                        k2 = "%s->%s" % (type(obj).__name__, typ.__name__)
                        ft[k2] = ft.get(k2, 0) + 1
                    break
        used[key] = used.get(key, 0) + 1
        return fun, version

    def do(self, obj):
        try:
            out = super().do(obj)
        except Exception as exc:
            if not hasattr(exc, "_vf_class"):
                try:
                    exc._vf_class = type(obj).__name__
                except Exception:
                    pass
            self._working.discard(id(obj))
            raise
        if isinstance(out, dict) and "_type" in out:
            types = self.trace.setdefault("types", {})
            types[out["_type"]] = type(obj)
        return out


class TracingUnSerializer(GlueUnSerializer):
    """Real unserializer; remembers the `_type` of the innermost record whose
    loader raised."""

    def __init__(self, *a, trace=None, **kw):
        self.trace = trace if trace is not None else {}
        super().__init__(*a, **kw)

    def object(self, obj_id):
        try:
            return super().object(obj_id)
        except Exception as exc:
            if not hasattr(exc, "_vf_type"):
                rec = None
                if isinstance(obj_id, str) and not obj_id.startswith("st__"):
                    rec = self._rec.get(obj_id)
                elif isinstance(obj_id, dict):
                    rec = obj_id
                try:
                    exc._vf_type = rec.get("_type", "?") if isinstance(rec, dict) else "?"
                    exc._vf_protocol = rec.get("_protocol", 1) if isinstance(rec, dict) else None
                except Exception:
                    pass
            raise

    def _dispatch(self, rec):
        func = super()._dispatch(rec)
        used = self.trace.setdefault("loaders", {})
        key = "%s@%s" % (rec.get("_type", "?").rsplit(".", 1)[-1], rec.get("_protocol", 1))
        used[key] = used.get(key, 0) + 1
        return func


def save(dc, include_data=True, pins=None, trace=None):
    """-> JSON text.  Exceptions propagate (annotated with `_vf_class`)."""
    return TracingSerializer(dc, pins=pins, trace=trace, include_data=include_data).dumps()


def load(text, trace=None):
    """-> restored object.  Exceptions propagate (annotated with `_vf_type`)."""
    return TracingUnSerializer(string=text, trace=trace).object('__main__')


# ------------------------------------------------------------------ dataset recipes
UNITS = [None, None, "m", "cm", "km", "s", "deg"]
COLORS = ["#aa3311", "red", "#00ff7f", "0.35", "#123456", "blue"]
ORDER_MODES = ["plain", "plain", "plain", "derived_early", "reorder_first", "reorder_middle", "reversed_chain",
               "first_overall", "coords_shuffled"]
COORD_KINDS = [None, None, "identity", "diagonal", "coupled_symmetric", "coupled_triangular", "permuted", "full", "wcs",
               "scaled"]
DTYPE_VARIANTS = ["int8", "int16", "int32", "int64", "uint8", "uint16", "uint32", "uint64", "float32", "float64", ">f8",
                  ">i4", "<f4", "bool"]
LAYOUT_VARIANTS = ["contiguous", "transposed", "fortran", "reversed", "strided", "broadcast"]
SCALES = [1e-10, 1e-3, 1.0, 1e6, 1e12]


def scaled_affine(rng, nd):
    """Affine coordinates whose terms span 1e-10 .. 1e12 (world values are compared relative to their size)."""
    m = np.eye(nd + 1)
    for i in range(nd):
        m[i, i] = rng.choice([1e-10, 1e12, -3e6, 2.5e-4])
        m[i, nd] = rng.choice([0.0, 1e12, -1e-10, 7e5])
    if nd > 1:
        m[0, 1] = rng.choice([0.0, 1e-10, 1e3])
    return AffineCoordinates(m)


def layout_variant(rng, arr, layout):
    """The same values as `arr` held in memory in the requested way."""
    arr = np.asarray(arr)
    if layout == "transposed":
        return np.ascontiguousarray(arr.T).T
    if layout == "fortran":
        return np.asfortranarray(arr)
    if layout == "reversed":
        return np.ascontiguousarray(arr[::-1])[::-1]
    if layout == "strided":
        big = np.zeros((arr.shape[0] * 2,) + arr.shape[1:], dtype=arr.dtype)
        big[::2] = arr
        return big[::2]
    if layout == "broadcast":
        row = arr[:1]
        return np.broadcast_to(row, arr.shape)       # stride 0 along the first axis, read-only
    return np.ascontiguousarray(arr)


def dtype_column(rng, shape, dt):
    n = int(np.prod(shape))
    if dt == "bool":
        a = np.array([rng.random() < 0.5 for _ in range(n)])
    elif dt.lstrip("<>").startswith(("f", "float")):
        a = np.array([rng.choice([0.0, -0.0, 1.5, -2.25, 3e-5, 7e4, float("nan"), float("inf")]) for _ in range(n)])
    else:
        info = np.iinfo(np.dtype(dt))
        a = np.array([rng.choice([0, 1, 2, 3, info.max, info.min, info.max - 1]) for _ in range(n)], dtype=np.dtype(dt))
    return a.astype(np.dtype(dt)).reshape(shape)



def make_wcs(rng, nd):
    from astropy.wcs import WCS
    w = WCS(naxis=nd)
    w.wcs.ctype = ["X%d" % i for i in range(nd)]
    w.wcs.crpix = [rng.choice([1.0, 2.0, 0.5]) for _ in range(nd)]
    w.wcs.crval = [rng.choice([0.0, 10.0, -3.0]) for _ in range(nd)]
    w.wcs.cdelt = [rng.choice([1.0, 0.5, -2.0]) for _ in range(nd)]
    w.wcs.set()
    return w


def rand_style(rng, with_cmap=False):
    """Style attribute values; a third of the styles take the extreme legal values: the falsy ones (alpha 0 = fully
    transparent, linewidth 0, markersize 0, linestyle 'none', empty marker, colour '0' = black as grey shade) and the
    maxima (alpha 1, very wide lines, huge markers).  -> (kwargs, sorted list of extreme tags)"""
    kw = dict(color=rng.choice(COLORS), alpha=rng.choice([0.25, 0.5, 0.8, 1.0]), linewidth=rng.choice([1, 2.5, 3]),
              linestyle=rng.choice(["solid", "dashed", "dash-dot", "dotted", "none"]),
              marker=rng.choice(["o", "s", "^", "*", "+"]), markersize=rng.choice([3, 5, 7.5]))
    tags = []
    if rng.random() < 0.35:
        for att, falsy, top in (("alpha", [0, 0.0], [1, 1.0]), ("linewidth", [0, 0.0], [100, 64.5]),
                                ("markersize", [0], [1000]), ("marker", ["", "None"], ["$\\alpha$"]),
                                ("color", ["0", "0.0", "#000000"], ["1.0", "#ffffff"]),
                                ("linestyle", ["none"], ["dash-dot"])):
            r = rng.random()
            if r < 0.45:
                kw[att] = rng.choice(falsy)
                tags.append(att + ":falsy")
            elif r < 0.65:
                kw[att] = rng.choice(top)
                tags.append(att + ":max")
    return kw, sorted(tags)


def apply_style(style, kw):
    for k, v in kw.items():
        setattr(style, k, v)


class Unserialisable(object):
    """Something glue has no saver for."""

    def __repr__(self):
        return "<Unserialisable>"


def rand_meta(rng, poison=False):
    """meta entries: (key, value, plain?)  plain = the harness' own definition of a serialisable value."""
    pool = [("m_str", "hello", True), ("m_int", 7, True), ("m_float", 2.5, True), ("m_bool", True, True),
            ("m_none", None, True), ("m_list", [1, 2.5, 3], True), ("m_strlist", ["a", "b"], True),
            ("m_tuple", (1, 2), True), ("m_dict", {"a": 1, "b": "x"}, True),
            ("m_arr", np.arange(4) * 1.5, True), ("m_nan", float("nan"), True), ("m_empty", "", True),
            ("m_unicode", u"été ☃", True), ("m_obj", Unserialisable(), False),
            ("m_datetime", np.datetime64("2021-03-04T05:06:07"), True),
            ("m_mixed", [1, "a", [2.5, None]], True), ("m_nested", {"a": {"b": [1, 2]}, "c": "d"}, True),
            # falsy / empty / extreme values
            ("m_zero", 0, True), ("m_fzero", 0.0, True), ("m_negzero", -0.0, True), ("m_false", False, True),
            ("m_emptylist", [], True), ("m_emptydict", {}, True), ("m_emptytuple", (), True),
            ("m_inf", float("-inf"), True), ("m_tiny", 1e-300, True), ("m_huge", 1e300, True), ("m_bigint", 2 ** 70, True),
            # numpy scalars of several widths (written through json_default's .item())
            ("m_np_i64", np.int64(-7), True), ("m_np_u8", np.uint8(200), True), ("m_np_f32", np.float32(1.5), True),
            ("m_np_f64", np.float64(2.5e-8), True), ("m_np_bool", np.bool_(True), True), ("m_np_str", np.str_("npstr"), True),
            ("m_np_in_list", [np.int32(3), np.float64(0.25)], True),
            # nested containers of every kind
            ("m_deep", {"l": [{"t": (1, 2), "d": {"e": []}}, [[], [0]]], "n": None}, True),
            ("m_tuple_str", ("a", 1, ("b", 2.5)), True), ("m_listofdict", [{"a": 1}, {"b": [2]}], True),
            ("m_arr_in_list", [np.arange(3), "x"], True), ("m_arr_2d_f32", np.arange(6, dtype=np.float32).reshape(2, 3), True),
            ("m_arr_noncontig", np.arange(10)[::3], True), ("m_arr_empty", np.zeros((0, 2)), True),
            ("m_arr_bigendian", np.arange(3, dtype=">f8") + 0.5, True),
            # keys that look like registry names / need quoting
            ("st__key", "st__value", True), ("__main__", "main", True), ("d0", "a dataset label as key", True),
            ("key with space", 1, True), ("", "empty key", True), ("7", "digit key", True)]
    k = rng.randint(0, 6)
    out = rng.sample(pool, k)
    if rng.random() < 0.04:     # rare: saving an astropy unit costs ~15 ms each time
        out.append(("m_unit", _unit("km / s"), True))
    return out


def _unit(text):
    import astropy.units as u
    return u.Unit(text)


class DS(object):
    """Harness-side handle on one dataset: the Data and the names of its components by kind."""

    def __init__(self, data, info):
        self.data = data
        self.info = info

    def cid(self, label):
        return self.data.id[label]

    def numeric(self):
        return [self.cid(c) for c in self.info["numeric"]]


def make_dataset(rng, idx, shape, opts, label=None, force=None):
    force = force or {}
    nd = len(shape)
    ckind = rng.choice(COORD_KINDS) if opts.get("coords", True) else None
    if "coords" in force:
        ckind = force["coords"]
    if ckind == "wcs" and (nd > 2 or not opts.get("wcs", True)):
        ckind = "identity"
    kw = {}
    if ckind == "wcs":
        kw["coords"] = make_wcs(rng, nd)
    elif ckind == "scaled":
        kw["coords"] = scaled_affine(rng, nd)
    elif ckind is not None:
        kw["coords"] = common.make_coords(rng, nd, ckind)
    label = label if label is not None else "d%d" % idx
    d = Data(label=label, **kw)
    info = {"label": label, "shape": list(shape), "coords": ckind, "numeric": [], "cat": [], "datetime": [],
            "derived": {}, "units": {}, "meta": []}
    n = int(np.prod(shape))
    d.add_component(common.rand_floats(rng, shape, p_special=0.2), "v")
    d.add_component(common.injective_floats(rng, shape), "w")
    info["numeric"] += ["v", "w"]
    # where derived columns sit among the stored ones (Data.components order must survive the trip)
    order_mode = force.get("order_mode") or opts.get("order_mode") or rng.choice(ORDER_MODES)
    info["order_mode"] = order_mode
    dkinds = list(opts.get("derived_kinds", ["binary", "binary_nested", "function", "identity", "multi", "parsed"]))
    arith_ok = "binary" in dkinds
    if order_mode == "derived_early":
        # derived columns (arithmetic and function link) added *before* further stored columns
        if arith_ok:
            d.add_component_link(d.id["w"] * 2 + d.id["v"], "der_early_arith")
            info["derived"]["der_early_arith"] = "binary"
        d.add_component_link(ComponentLink([d.id["w"]], ComponentID("der_early_fn"), using=f_double), "der_early_fn")
        info["derived"]["der_early_fn"] = "function"
    d.add_component(common.rand_ints(rng, shape, 0, 4), "i")
    info["numeric"].append("i")
    if rng.random() < 0.4 or force.get("k"):
        d.add_component(common.rand_ints(rng, shape, 0, 3), "k")
        info["numeric"].append("k")
    # ---- column variants of the adversarial widening round (tallied through info["variants"])
    variants = info["variants"] = []
    if n >= 2 and rng.random() < 0.55:
        # "s": a column at an extreme scale that holds two values agreeing to a relative 1e-9 (the "close pair");
        # the *_close state recipes put their bounds between / exactly on them
        scale = rng.choice(SCALES)
        vals = np.array([rng.uniform(1.0, 9.0) for _ in range(n)]) * rng.choice([1.0, -1.0])
        i, j = rng.sample(range(n), 2)
        vals[j] = vals[i] * (1 + 1e-9)
        vals = vals * scale
        d.add_component(vals.reshape(shape), "s")
        info["numeric"].append("s")
        info["scale"] = scale
        info["close"] = sorted([float(vals[i]), float(vals[j])])
        variants.append("scale:%g" % scale)
    if rng.random() < 0.5:
        dt, layout = rng.choice(DTYPE_VARIANTS), rng.choice(LAYOUT_VARIANTS)
        d.add_component(layout_variant(rng, dtype_column(rng, shape, dt), layout), "x")
        info["numeric"].append("x")
        info["x_dtype"] = dt
        variants += ["dtype:" + dt, "layout:" + layout]
    if rng.random() < 0.12:
        # two different columns under one label: the serializer's name registry has to keep them apart
        d.add_component(common.rand_ints(rng, shape, 0, 9), "twin")
        d.add_component(common.rand_floats(rng, shape, special=False), "twin")
        variants.append("duplicate_component_label")
    if 1 in shape:
        variants.append("unit_length_axis")
    for e in range(force.get("extra_columns", 0)):
        d.add_component(common.rand_ints(rng, shape, 0, 6) if e % 2 else common.rand_floats(rng, shape, special=False), "col%02d" % e)
    if force.get("extra_columns"):
        variants.append("many_columns")
    if n >= 100:
        variants.append("rows>=100")
    if nd == 1 and (rng.random() < 0.7 or force.get("cat")):
        r = rng.random()
        if force.get("cat") == "all_present":
            r = 0.5
        if r < 0.35:
            d.add_component(common.rand_cats(rng, n), "c")
        elif r < 0.65:
            # explicit, non-alphabetical category order in which EVERY category occurs in the column
            from glue.core.component import CategoricalComponent
            order = rng.sample(["a", "b", "c", "dd"], min(n, rng.randint(2, 4)))
            if order == sorted(order):
                order = order[::-1]
            col = list(order) + [rng.choice(order) for _ in range(n - len(order))]
            rng.shuffle(col)
            d.add_component(CategoricalComponent(np.array(col), categories=np.array(order)), "c")
            info["custom_categories"] = "all_present"
        else:
            # custom category order, with categories that do not occur in the column
            from glue.core.component import CategoricalComponent
            order = ["dd", "zz", "c", "a", "b", "q"]
            rng.shuffle(order)
            d.add_component(CategoricalComponent(common.rand_cats(rng, n), categories=np.array(order)), "c")
            info["custom_categories"] = "with_absent"
        info["cat"].append("c")
        if rng.random() < 0.5:
            cats2 = rng.choice([("x", "yy", "a"), ("a", "ab", "abc", "abcdefghij"), ("1", "10", "2"), ("", " ", "a ")])
            d.add_component(common.rand_cats(rng, n, cats=cats2), "c2")
            if cats2[0] != "x":
                variants.append("category_labels:" + ("prefixes" if cats2[0] == "a" else "digits" if cats2[0] == "1" else "blank"))
            info["cat"].append("c2")
    if rng.random() < 0.35:
        base = np.datetime64("2020-01-01T00:00:00")
        t = np.array([base + np.timedelta64(rng.randint(0, 10 ** 6), "s") for _ in range(n)]).reshape(shape)
        d.add_component(t, "t")
        info["datetime"].append("t")
    for lab in ["v", "w", "i"]:
        if rng.random() < 0.3:
            u = rng.choice(UNITS)
            if u:
                d.get_component(d.id[lab]).units = u
                info["units"][lab] = u
    # derived components of every link flavour
    chosen = rng.sample(dkinds, rng.randint(0, min(3, len(dkinds))))
    for kind in force.get("derived", ()):
        if kind not in chosen:
            chosen.append(kind)
    for kind in chosen:
        name = "der_" + kind
        if kind == "binary":
            d.add_component_link(d.id["w"] * 2, name)
        elif kind == "binary_nested":
            d.add_component_link((d.id["w"] + d.id["v"]) / 2 - d.id["i"] ** 2, name)
        elif kind == "function":
            d.add_component_link(ComponentLink([d.id["w"]], ComponentID(name), using=f_double), name)
        elif kind == "identity":
            d.add_component_link(ComponentLink([d.id["v"]], ComponentID(name), using=LH.identity), name)
        elif kind == "multi":
            d.add_component_link(ComponentLink([d.id["v"], d.id["w"], d.id["i"]], ComponentID(name),
                                               using=LH.lengths_to_volume), name)
        elif kind == "parsed":
            pc = ParsedCommand("{w} * 3 + {i}", {"w": d.id["w"], "i": d.id["i"]})
            d.add_component_link(ParsedComponentLink(ComponentID(name), pc), name)
        info["derived"][name] = kind
    if order_mode in ("reorder_first", "reorder_middle", "reversed_chain", "first_overall"):
        # derived-of-derived chains (function and arithmetic), then an explicit reorder_components()
        d.add_component_link(ComponentLink([d.id["w"]], ComponentID("der_fn0"), using=f_double), "der_fn0")
        d.add_component_link(ComponentLink([d.id["der_fn0"]], ComponentID("der_chain_fn"), using=f_half), "der_chain_fn")
        info["derived"].update(der_fn0="function", der_chain_fn="function")
        if arith_ok:
            d.add_component_link(d.id["w"] * 2, "der_ar0")
            d.add_component_link(d.id["der_ar0"] + 1, "der_chain_arith")
            info["derived"].update(der_ar0="binary", der_chain_arith="binary")
        coord = list(d.pixel_component_ids) + list(d.world_component_ids)
        derived = list(d.derived_components)
        main = [c for c in d.components if not any(c is x for x in coord + derived)]
        if order_mode == "reorder_first":
            new = coord + derived[::-1] + main
        elif order_mode == "reorder_middle":
            h = rng.randint(1, max(1, len(main) - 1))
            rng.shuffle(derived)
            new = coord + main[:h] + derived + main[h:]
        elif order_mode == "reversed_chain":
            new = coord + main + derived[::-1]       # every chain output is stored before its input
        else:   # "first_overall" (probe): derived columns even ahead of the pixel / world coordinates
            new = derived[::-1] + coord + main
        d.reorder_components(new)
    if order_mode == "coords_shuffled":
        # the pixel (and world) coordinate components themselves out of axis order, mixed with the columns,
        # e.g. [pix1, v, world0, pix0, w, world1, ...]
        pix, wor = list(d.pixel_component_ids), list(d.world_component_ids)
        rest = [c for c in d.components if not any(c is x for x in pix + wor)]
        if nd >= 2:
            coords_ = pix[::-1] + wor[::-1] if rng.random() < 0.5 else pix[1:] + wor + pix[:1]
            if rng.random() < 0.5:
                rng.shuffle(coords_)
                if [c for c in coords_ if any(c is p for p in pix)] == pix:
                    coords_ = coords_[::-1]
            new = []
            k_ = 0
            for i_, c in enumerate(coords_):
                new.append(c)
                if k_ < len(rest):
                    new.append(rest[k_])
                    k_ += 1
            new += rest[k_:]
            d.reorder_components(new)
            variants.append("coordinate_components_out_of_axis_order")
        else:
            info["order_mode"] = "plain"
    if opts.get("style", True) and rng.random() < 0.7:
        st, tags = rand_style(rng)
        apply_style(d.style, st)
        info["style"] = True
        info["style_extremes"] = tags
    if opts.get("meta", True):
        for k, v, plain in rand_meta(rng, opts.get("poison")):
            d.meta[k] = v
            info["meta"].append([k, plain])
    return DS(d, info)


# ------------------------------------------------------------------ subset state recipes
INEQ_OPS = [("gt", operator.gt), ("ge", operator.ge), ("lt", operator.lt), ("le", operator.le),
            ("eq", operator.eq), ("ne", operator.ne)]

ROI_KINDS = ["rect", "rect_rot", "circle", "ellipse", "ellipse_rot", "annulus", "polygon", "polygon_rot", "path",
             "xrange", "yrange", "range_x", "range_y"]
# every subset of RadianTransform's coords (the empty list is the constructor default and converts nothing), alone and
# chained in both orders; the two matplotlib kinds stay last (PRE_KINDS[:-2] = kinds that need no figure)
PRE_KINDS = ["none", "none", "none", "radian_x", "radian_xy", "fullsphere", "radian_then_fullsphere", "radian_none",
             "radian_y", "radian_none_then_fullsphere", "fullsphere_then_radian_y", "mpl_linear", "mpl_log"]


def make_roi(rng, kind, lo=-5.0, hi=5.0):
    def u():
        return round(rng.uniform(lo, hi), 3)
    span = hi - lo
    if kind in ("rect", "rect_rot"):
        x0, y0 = u(), u()
        kw = {}
        if kind == "rect_rot":
            kw["theta"] = rng.choice([0.3, np.pi / 2, 1.0, -0.7, np.pi])
        return R.RectangularROI(xmin=x0, xmax=x0 + rng.uniform(0.3, 0.8) * span, ymin=y0,
                                ymax=y0 + rng.uniform(0.3, 0.8) * span, **kw)
    if kind == "circle":
        return R.CircularROI(xc=u(), yc=u(), radius=rng.uniform(0.2, 0.6) * span)
    if kind in ("ellipse", "ellipse_rot"):
        kw = {}
        if kind == "ellipse_rot":
            kw["theta"] = rng.choice([0.3, np.pi / 2, 1.0, -0.7])
        return R.EllipticalROI(xc=u(), yc=u(), radius_x=rng.uniform(0.2, 0.7) * span,
                               radius_y=rng.uniform(0.1, 0.4) * span, **kw)
    if kind == "annulus":
        r = rng.uniform(0.1, 0.3) * span
        return R.CircularAnnulusROI(xc=u(), yc=u(), inner_radius=r, outer_radius=r + rng.uniform(0.1, 0.5) * span)
    if kind in ("polygon", "polygon_rot", "path"):
        k = rng.randint(3, 6)
        vx, vy = [u() for _ in range(k)], [u() for _ in range(k)]
        if kind == "path":
            return R.Path(vx=vx, vy=vy)
        p = R.PolygonalROI(vx=vx, vy=vy)
        if kind == "polygon_rot":
            p.rotate_to(rng.choice([0.4, np.pi, -1.1]))
        return p
    if kind == "xrange":
        a = u()
        return R.XRangeROI(min=a, max=a + rng.uniform(0.2, 0.7) * span)
    if kind == "yrange":
        a = u()
        return R.YRangeROI(min=a, max=a + rng.uniform(0.2, 0.7) * span)
    if kind in ("range_x", "range_y"):
        a = u()
        return R.RangeROI(kind[-1], min=a, max=a + rng.uniform(0.2, 0.7) * span)
    if kind == "point":
        return R.PointROI(u(), u())
    raise ValueError(kind)


def make_pretransform(rng, kind):
    if kind == "none":
        return None
    if kind == "radian_x":
        return RadianTransform(coords=["x"])
    if kind == "radian_xy":
        return RadianTransform(coords=["x", "y"])
    if kind == "fullsphere":
        return FullSphereLongitudeTransform()
    if kind == "radian_then_fullsphere":
        return RadianTransform(coords=["x"], next_transform=FullSphereLongitudeTransform())
    if kind == "radian_none":
        return RadianTransform(coords=[]) if rng.random() < 0.5 else RadianTransform()
    if kind == "radian_y":
        return RadianTransform(coords=["y"])
    if kind == "radian_none_then_fullsphere":
        return RadianTransform(coords=[], next_transform=FullSphereLongitudeTransform())
    if kind == "fullsphere_then_radian_y":
        return FullSphereLongitudeTransform(next_transform=RadianTransform(coords=["y"]))
    if kind == "mpl_linear":
        return ProjectionMplTransform("rectilinear", [-6.0, 6.0], [-6.0, 6.0], "linear", "linear")
    if kind == "mpl_log":
        return ProjectionMplTransform("rectilinear", [0.1, 10.0], [0.1, 10.0], "log", "linear")
    raise ValueError(kind)


def att_pool(ds, rng):
    """(kind, cid) numeric attribute choices of a dataset: value / int / pixel / world / derived."""
    d = ds.data
    out = [("value", d.id["w"]), ("value", d.id["v"]), ("int", d.id["i"])]
    out += [("pixel", c) for c in d.pixel_component_ids]
    out += [("world", c) for c in d.world_component_ids]
    out += [("derived:" + DERIVED_FAMILY[k], d.id[n]) for n, k in ds.info["derived"].items()]
    if "s" in ds.info["numeric"]:
        out.append(("scaled", d.id["s"]))
    if "x" in ds.info["numeric"]:
        out.append(("dtype:" + ds.info["x_dtype"], d.id["x"]))
    return out


DERIVED_FAMILY = {"binary": "arithmetic", "binary_nested": "arithmetic", "function": "function", "identity": "function",
                  "multi": "function", "parsed": "parsed"}


SPECIAL_LEAVES = ["range_close", "inequality_close", "multirange_close", "roi_close", "numpy_params", "multirange_empty",
                  "range_degenerate", "cat_roi_empty", "element_special", "mask_special", "slice_special",
                  "inequality_extreme"]
LEAF_KINDS = SPECIAL_LEAVES + ["inequality", "inequality_cidcid", "inequality_link", "range", "multirange", "roi", "roi", "roi_nd",
              "roi_3d", "cat_roi", "cat_2d", "cat_multirange", "category", "mask", "slice", "element", "floodfill",
              "pixel", "parsed", "empty"]


def leaf_domain_ok(kind, ds, k=0, top=True, opts=None):
    """Is this leaf kind generated here?  Besides the obvious (categorical states need a categorical column) the
    general workload keeps three ingredient patterns out, because on the current tree they are known to break the
    *whole* restore in ways that would drown every other observation; each has its own probe (see PROBES):
    slice/pixel states below a composite or on a dataset other than the first, flood fills on a dataset other than
    the first.  (Parsed-expression states, LinkAligned, LinkSameWithUnits, arithmetic derived columns and derived
    columns ahead of the coordinates were in that list until they were repaired.)  `opts["unrestricted"]` lifts that."""
    info = ds.info
    opts = opts or {}
    if kind in opts.get("exclude_leaves", ()):
        return False
    if kind in ("cat_roi", "cat_2d", "cat_multirange", "category", "cat_roi_empty"):
        return bool(info["cat"])
    if kind in ("range_close", "inequality_close", "multirange_close", "roi_close"):
        return "s" in info["numeric"]
    if kind == "slice_special":
        return top and k == 0
    if opts.get("unrestricted"):
        return True
    if kind in ("slice", "pixel"):
        return top and k == 0
    if kind == "floodfill":
        return k == 0
    return True


def make_leaf(rng, kind, ds, opts):
    """-> (state, sig) where sig is a small structural dict (class, roi class, pretransform, attribute kind)."""
    d = ds.data
    pool = att_pool(ds, rng)
    if kind in ("range_close", "inequality_close", "multirange_close", "roi_close"):
        lo_v, hi_v = ds.info["close"]
        mid = lo_v + (hi_v - lo_v) / 2            # strictly between the two values that agree to 1e-9
        big = abs(hi_v) * 10 + 1
        s_ = d.id["s"]
        if kind == "range_close":
            lo, hi = rng.choice([(mid, big), (-big, mid), (lo_v, lo_v), (hi_v, big), (lo_v, mid)])
            return S.RangeSubsetState(lo, hi, s_), {"state": "RangeSubsetState", "att": "scaled", "bounds": "close_pair"}
        if kind == "inequality_close":
            opn, op = rng.choice(INEQ_OPS)
            const = rng.choice([mid, lo_v, hi_v])
            return S.InequalitySubsetState(s_, const, op), {"state": "InequalitySubsetState", "op": opn, "form": "cid_const",
                                                          "att": "scaled", "bounds": "close_pair"}
        if kind == "multirange_close":
            pairs = rng.choice([[(lo_v, lo_v)], [(mid, big)], [(-big, lo_v), (hi_v, hi_v)], [(hi_v, big), (-big, -big / 2)]])
            return S.MultiRangeSubsetState(pairs, s_), {"state": "MultiRangeSubsetState", "att": "scaled", "bounds": "close_pair"}
        rk = rng.choice(["rect", "xrange", "range_x"])
        if rk == "rect":
            roi = R.RectangularROI(xmin=mid, xmax=big, ymin=-10.0, ymax=10.0)
        elif rk == "xrange":
            roi = R.XRangeROI(min=-big, max=mid)
        else:
            roi = R.RangeROI("x", min=lo_v, max=mid)
        return S.RoiSubsetState(s_, d.id["w"], roi), {"state": "RoiSubsetState", "roi": type(roi).__name__, "roi_kind": rk,
                                                       "pretransform": "none", "att": "scaled/value", "bounds": "close_pair"}
    if kind == "numpy_params":
        # parameters that are numpy scalars / integers equal by value to floats
        ak, cid = rng.choice(pool)
        which = rng.choice(["range_f32", "range_i64", "range_int_vs_float", "ineq_i64", "ineq_f32", "ineq_bool", "category_i8"])
        if which == "category_i8" and not ds.info["cat"]:
            which = "ineq_i64"
        if which == "range_f32":
            st = S.RangeSubsetState(np.float32(-1.5), np.float32(2.25), cid)
        elif which == "range_i64":
            st = S.RangeSubsetState(np.int64(-1), np.int64(3), cid)
        elif which == "range_int_vs_float":
            st = S.RangeSubsetState(1, 3.0, cid)
        elif which == "ineq_i64":
            st = S.InequalitySubsetState(cid, np.int64(2), operator.ge)
        elif which == "ineq_f32":
            st = S.InequalitySubsetState(cid, np.float32(0.5), operator.lt)
        elif which == "ineq_bool":
            st = S.InequalitySubsetState(cid, True, operator.eq)
        else:
            st = S.CategorySubsetState(d.id[ds.info["cat"][0]], np.array([0, 2], dtype=np.int8))
        return st, {"state": type(st).__name__, "att": ak, "params": which}
    if kind == "multirange_empty":
        ak, cid = rng.choice(pool)
        return S.MultiRangeSubsetState([], cid), {"state": "MultiRangeSubsetState", "att": ak, "params": "no_pairs"}
    if kind == "range_degenerate":
        ak, cid = rng.choice(pool)
        lo, hi = rng.choice([(1, 1), (0.0, 0.0), (2.0, -2.0), (0, 0.0), (float("-inf"), float("inf")), (float("nan"), 1.0)])
        return S.RangeSubsetState(lo, hi, cid), {"state": "RangeSubsetState", "att": ak, "params": "degenerate"}
    if kind == "cat_roi_empty":
        c = d.id[rng.choice(ds.info["cat"])]
        return S.CategoricalROISubsetState(att=c, roi=R.CategoricalROI([])), {"state": "CategoricalROISubsetState",
                                                                             "roi": "CategoricalROI", "params": "no_categories"}
    if kind == "element_special":
        size = d.size
        which = rng.choice(["negative", "duplicate", "unordered", "empty", "slice", "single_int"])
        if which == "negative":
            idx = [-1] if d.ndim == 1 else tuple(np.array([-1]) for _ in d.shape)
        elif which == "duplicate":
            idx = [0, 0, size - 1] if d.ndim == 1 else tuple(np.array([0, 0]) for _ in d.shape)
        elif which == "unordered":
            idx = [size - 1, 0] if d.ndim == 1 else tuple(np.array([n_ - 1, 0]) for n_ in d.shape)
        elif which == "empty":
            idx = np.array([], dtype=int) if d.ndim == 1 else tuple(np.array([], dtype=int) for _ in d.shape)
        elif which == "slice":
            idx = slice(0, max(1, d.shape[0] // 2))
        else:
            idx = 0
        return S.ElementSubsetState(idx, None), {"state": "ElementSubsetState", "with_data": False, "params": which}
    if kind == "mask_special":
        which = rng.choice(["all_false", "all_true", "non_contiguous", "fortran"])
        if which == "all_false":
            m = np.zeros(d.shape, dtype=bool)
        elif which == "all_true":
            m = np.ones(d.shape, dtype=bool)
        else:
            m = np.array([rng.random() < 0.5 for _ in range(d.size)]).reshape(d.shape)
            m = layout_variant(rng, m, "strided" if which == "non_contiguous" else "fortran")
        return S.MaskSubsetState(m, d.pixel_component_ids), {"state": "MaskSubsetState", "params": which}
    if kind == "slice_special":
        which = rng.choice(["negative", "backward", "empty", "step"])
        sl = []
        for n_ in d.shape:
            sl.append({"negative": slice(-max(1, n_ // 2), None), "backward": slice(None, None, -1),
                       "empty": slice(n_, n_), "step": slice(0, None, 2)}[which])
        if d.ndim > 1 and rng.random() < 0.5:
            sl[-1] = slice(None)
        return S.SliceSubsetState(d, sl), {"state": "SliceSubsetState", "params": which}
    if kind == "inequality_extreme":
        opn, op = rng.choice(INEQ_OPS)
        ak, cid = rng.choice(pool)
        const = rng.choice([0, 0.0, -0.0, 1e-300, 1e300, float("inf"), float("-inf"), float("nan"), 2 ** 62])
        return S.InequalitySubsetState(cid, const, op), {"state": "InequalitySubsetState", "op": opn, "form": "cid_const",
                                                        "att": ak, "params": "extreme_const"}
    if kind == "inequality":
        opn, op = rng.choice(INEQ_OPS)
        ak, cid = rng.choice(pool)
        const = rng.choice([0.0, 1.0, 2, -1.5, 0.5])
        if rng.random() < 0.2:
            st = S.InequalitySubsetState(const, cid, op)
            form = "const_cid"
        else:
            st = S.InequalitySubsetState(cid, const, op)
            form = "cid_const"
        return st, {"state": "InequalitySubsetState", "op": opn, "form": form, "att": ak}
    if kind == "inequality_cidcid":
        opn, op = rng.choice(INEQ_OPS)
        (ak, a), (bk, b) = rng.sample(pool, 2)
        return S.InequalitySubsetState(a, b, op), {"state": "InequalitySubsetState", "op": opn, "form": "cid_cid",
                                                   "att": ak + "/" + bk}
    if kind == "inequality_link":
        opn, op = rng.choice(INEQ_OPS)
        link = d.id["w"] * 2 + d.id["i"]
        return S.InequalitySubsetState(link, 1.0, op), {"state": "InequalitySubsetState", "op": opn, "form": "link_const", "att": "link"}
    if kind == "range":
        ak, cid = rng.choice(pool)
        lo = rng.uniform(-4, 2)
        return S.RangeSubsetState(lo, lo + rng.uniform(0.5, 5), cid), {"state": "RangeSubsetState", "att": ak}
    if kind == "multirange":
        ak, cid = rng.choice(pool)
        pairs = []
        for _ in range(rng.randint(1, 3)):
            lo = rng.uniform(-5, 4)
            pairs.append((lo, lo + rng.uniform(0.3, 2.5)))
        return S.MultiRangeSubsetState(pairs, cid), {"state": "MultiRangeSubsetState", "att": ak}
    if kind in ("roi", "roi_nd"):
        (xk, x), (yk, y) = rng.sample(pool, 2)
        rk = opts.get("want_roi") or rng.choice(ROI_KINDS)
        pk = rng.choice(PRE_KINDS) if opts.get("mpl_pretransform", True) else rng.choice(PRE_KINDS[:-2])
        pk = opts.get("want_pre") or pk
        if pk == "mpl_log" and rk in ("point",):
            pk = "none"
        if pk.startswith("mpl"):
            roi = make_roi(rng, rk, 0.0, 1.0)
        elif pk != "none":
            if pk in ("fullsphere", "radian_none_then_fullsphere", "fullsphere_then_radian_y"):
                roi = make_roi(rng, rk, -3.0, 3.0)
            elif pk == "radian_none":
                roi = make_roi(rng, rk)
            else:
                roi = make_roi(rng, rk, -0.1, 0.1)
        else:
            roi = make_roi(rng, rk)
        pre = make_pretransform(rng, pk)
        if kind == "roi":
            st = S.RoiSubsetState(x, y, roi, pre)
            name = "RoiSubsetState"
        else:
            st = S.RoiSubsetStateNd([x, y], roi, pre)
            name = "RoiSubsetStateNd"
        return st, {"state": name, "roi": type(roi).__name__, "roi_kind": rk, "pretransform": pk, "att": xk + "/" + yk}
    if kind == "roi_3d":
        (xk, x), (yk, y), (zk, z) = rng.sample(pool, 3)
        rk = rng.choice(["rect", "circle", "polygon", "ellipse_rot"])
        m = np.eye(4)
        m[0, 1] = rng.choice([0.0, 0.5])
        m[1, 2] = rng.choice([0.0, -0.25])
        m[0, 3] = rng.choice([0.0, 1.0])
        roi = R.Projected3dROI(make_roi(rng, rk), m)
        return S.RoiSubsetState3d(x, y, z, roi), {"state": "RoiSubsetState3d", "roi": "Projected3dROI", "roi_kind": rk,
                                                  "att": "/".join([xk, yk, zk])}
    if kind == "cat_roi":
        c = d.id[rng.choice(ds.info["cat"])]
        cats = rng.sample(["a", "b", "c", "dd", "x", "yy"], rng.randint(1, 3))
        return S.CategoricalROISubsetState(att=c, roi=R.CategoricalROI(cats)), {"state": "CategoricalROISubsetState",
                                                                              "roi": "CategoricalROI"}
    if kind == "cat_2d":
        c1 = d.id[rng.choice(ds.info["cat"])]
        c2 = d.id[rng.choice(ds.info["cat"])]
        cats = {}
        for k in rng.sample(["a", "b", "c", "dd", "x"], rng.randint(1, 3)):
            cats[k] = set(rng.sample(["a", "b", "c", "dd", "x", "yy"], rng.randint(1, 3)))
        return S.CategoricalROISubsetState2D(cats, c1, c2), {"state": "CategoricalROISubsetState2D"}
    if kind == "cat_multirange":
        c = d.id[rng.choice(ds.info["cat"])]
        ranges = {}
        for k in rng.sample(["a", "b", "c", "dd", "x"], rng.randint(1, 3)):
            lo = rng.uniform(-5, 3)
            ranges[k] = [(lo, lo + rng.uniform(0.5, 4))]
        return S.CategoricalMultiRangeSubsetState(ranges, c, d.id["w"]), {"state": "CategoricalMultiRangeSubsetState"}
    if kind == "category":
        c = d.id[rng.choice(ds.info["cat"])]
        return S.CategorySubsetState(c, rng.sample([0, 1, 2, 3], rng.randint(1, 3))), {"state": "CategorySubsetState"}
    if kind == "mask":
        m = np.array([rng.random() < 0.5 for _ in range(d.size)]).reshape(d.shape)
        return S.MaskSubsetState(m, d.pixel_component_ids), {"state": "MaskSubsetState"}
    if kind in ("slice", "pixel"):
        sl = []
        for n in d.shape:
            a = rng.randrange(0, n)
            sl.append(rng.choice([slice(None), slice(a, rng.randint(a + 1, n)), slice(a, a + 1)]))
        if kind == "slice":
            return S.SliceSubsetState(d, sl), {"state": "SliceSubsetState"}
        from glue.viewers.image.pixel_selection_subset_state import PixelSubsetState
        return PixelSubsetState(d, sl), {"state": "PixelSubsetState"}
    if kind == "element":
        idx = sorted(rng.sample(range(d.size), rng.randint(1, min(4, d.size))))
        if d.ndim > 1:
            idx = np.unravel_index(idx, d.shape)
            idx = tuple(np.asarray(a) for a in idx)
        with_data = opts.get("element_with_data", True) and rng.random() < 0.6
        return S.ElementSubsetState(idx, d if with_data else None), {"state": "ElementSubsetState",
                                                                     "with_data": with_data, "nd_index": d.ndim > 1}
    if kind == "floodfill":
        start = tuple(rng.randrange(n) for n in d.shape)
        return S.FloodFillSubsetState(d, d.id["w"], start, rng.choice([1.0, 1.2, 1.9])), {"state": "FloodFillSubsetState"}
    if kind == "parsed":
        pc = ParsedCommand("({w} > 0) & ({i} < 3)", {"w": d.id["w"], "i": d.id["i"]})
        return ParsedSubsetState(pc), {"state": "ParsedSubsetState"}
    if kind == "empty":
        return S.SubsetState(), {"state": "SubsetState"}
    raise ValueError(kind)


def make_state(rng, ds, opts, depth, k=0, top=True, force_leaf=None):
    """Random state tree on dataset number k.  -> (state, sig).  sig for composites: {"state": cls, "children": [...]}"""
    if depth <= 0 or rng.random() < 0.45:
        kind = force_leaf      # a forced (probe) leaf is exempt from the restrictions of leaf_domain_ok
        while kind is None:
            kind = rng.choice(LEAF_KINDS)
            if not leaf_domain_ok(kind, ds, k, top, opts):
                kind = None
        st, sig = make_leaf(rng, kind, ds, opts)
        sig["leaf_kind"] = kind
        sig["nested"] = not top
        return st, sig
    op = rng.choice(["and", "or", "xor", "invert", "multior"])
    if op == "invert":
        a, sa = make_state(rng, ds, opts, depth - 1, k, False, force_leaf)
        return S.InvertState(a), {"state": "InvertState", "children": [sa]}
    if op == "multior":
        kids = [make_state(rng, ds, opts, depth - 1, k, False, force_leaf) for _ in range(rng.randint(1, 3))]
        return S.MultiOrState([c[0] for c in kids]), {"state": "MultiOrState", "children": [c[1] for c in kids]}
    a, sa = make_state(rng, ds, opts, depth - 1, k, False, force_leaf)
    b, sb = make_state(rng, ds, opts, depth - 1, k, False, None)
    cls = {"and": S.AndState, "or": S.OrState, "xor": S.XorState}[op]
    return cls(a, b), {"state": cls.__name__, "children": [sa, sb]}


def sig_leaves(sig):
    if "children" in sig:
        out = []
        for c in sig["children"]:
            out.extend(sig_leaves(c))
        return out
    return [sig]


def sig_classes(sig):
    out = {sig["state"]}
    for c in sig.get("children", []):
        out |= sig_classes(c)
    return out


# ------------------------------------------------------------------ link recipes
LINK_KINDS = ["LinkSame", "LinkSame", "LinkTwoWay", "ComponentLink_fn", "ComponentLink_fn_inverse", "ComponentLink_multi",
              "ComponentLink_mixed",
              "ComponentLink_identity", "ComponentLink_method", "LinkSame_pixel", "JoinLink", "Celestial", "WCSLink",
              "LinkAligned", "LinkSameWithUnits"]
CELESTIAL = ["Galactic_to_FK5", "FK4_to_FK5", "ICRS_to_FK5", "Galactic_to_FK4", "ICRS_to_FK4", "ICRS_to_Galactic",
             "GalactocentricToGalactic"]


def make_link(rng, kind, a, b, opts):
    """Link object between datasets a and b (DS handles) or None when the kind does not apply.  -> (link, sig)"""
    da, db = a.data, b.data
    if kind == "LinkSame":
        x, y = rng.choice(["v", "w", "i"]), rng.choice(["v", "w", "i"])
        return LH.LinkSame(da.id[x], db.id[y]), {"link": "LinkSame"}
    if kind == "LinkSame_pixel":
        return LH.LinkSame(da.pixel_component_ids[0], db.pixel_component_ids[-1]), {"link": "LinkSame", "att": "pixel"}
    if kind == "LinkTwoWay":
        fw, bw = rng.choice([(f_double, f_half), (f_shift, f_unshift)])
        return LH.LinkTwoWay(da.id["w"], db.id["v"], fw, bw), {"link": "LinkTwoWay"}
    if kind == "ComponentLink_fn":
        return ComponentLink([da.id["w"]], db.id["w"], using=f_double), {"link": "ComponentLink", "using": "function"}
    if kind == "ComponentLink_fn_inverse":
        return ComponentLink([da.id["v"]], db.id["i"], using=f_shift, inverse=f_unshift), {"link": "ComponentLink",
                                                                                         "using": "function+inverse"}
    if kind == "ComponentLink_multi":
        return ComponentLink([da.id["v"], da.id["w"], da.id["i"]], db.id["v"], using=f_sum3), {"link": "ComponentLink",
                                                                                               "using": "function3"}
    if kind == "ComponentLink_mixed":
        # two inputs, one in the output's own dataset and one foreign
        return ComponentLink([db.id["i"], da.id["w"]], db.id["v"], using=f_sum2), {"link": "ComponentLink", "using": "mixed_inputs"}
    if kind == "ComponentLink_identity":
        return ComponentLink([da.id["i"]], db.id["w"]), {"link": "ComponentLink", "using": "identity"}
    if kind == "ComponentLink_method":
        # link functions that are bound methods of a serialisable object (the registered `method` saver)
        co = AffineCoordinates(np.array([[rng.choice([2.0, 0.5, -1.5]), rng.choice([0.0, 1.0, -3.0])], [0.0, 1.0]]))
        return ComponentLink([da.id["w"]], db.id["v"], using=co.pixel_to_world_values,
                             inverse=co.world_to_pixel_values), {"link": "ComponentLink", "using": "bound_method+inverse"}
    if kind == "ComponentLink_lambda":
        return ComponentLink([da.id["w"]], db.id["w"], using=lambda x: x * 3), {"link": "ComponentLink", "using": "lambda"}
    if kind == "JoinLink":
        if da.ndim != 1 or db.ndim != 1:
            return None
        return LH.JoinLink(cids1=[da.id["i"]], cids2=[db.id["i"]], data1=da, data2=db), {"link": "JoinLink"}
    if kind == "Celestial":
        from glue.plugins.coordinate_helpers import link_helpers as CH
        name = rng.choice(CELESTIAL)
        cls = getattr(CH, name)
        if name == "GalactocentricToGalactic":
            return cls(cids1=[da.id["v"], da.id["w"], da.id["i"]], cids2=[db.id["v"], db.id["w"], db.id["i"]]), \
                {"link": name}
        return cls(cids1=[da.id["v"], da.id["w"]], cids2=[db.id["v"], db.id["w"]]), {"link": name}
    if kind == "WCSLink":
        if a.info["coords"] != "wcs" or b.info["coords"] != "wcs" or da.ndim != db.ndim:
            return None
        from glue.plugins.wcs_autolinking.wcs_autolinking import WCSLink
        try:
            return WCSLink(da, db), {"link": "WCSLink"}
        except Exception:
            return None
    if kind == "MultiLink":
        return LH.MultiLink([da.id["v"], da.id["w"]], [db.id["v"], db.id["w"]], forwards=f_swap_fw,
                            backwards=f_swap_bw), {"link": "MultiLink"}
    if kind == "LinkAligned":
        if da.shape != db.shape:
            return None
        return LH.LinkAligned(da, db), {"link": "LinkAligned"}
    if kind == "LinkSameWithUnits":
        # the link captures both units when it is built, so a column that already sits in such a link keeps its unit
        for h, u in ((a, "m"), (b, rng.choice(["cm", "km"]))):
            if "w" not in h.info.setdefault("unit_link_columns", []):
                h.data.get_component(h.data.id["w"]).units = u
                h.info["units"]["w"] = u
                h.info["unit_link_columns"].append("w")
        return LH.LinkSameWithUnits(da.id["w"], db.id["w"]), {"link": "LinkSameWithUnits"}
    raise ValueError(kind)


JOIN_SHAPES = ["1-1", "n-n", "1-n", "n-1"]


def make_join(rng, shape, a, b):
    """a.join_on_key(b, ...) with the requested arity; 1-d tables only."""
    da, db = a.data, b.data
    ka = [k for k in ("i", "k") if k in a.info["numeric"]]
    kb = [k for k in ("i", "k") if k in b.info["numeric"]]
    if shape == "1-1":
        da.join_on_key(db, "i", "i")
    elif shape == "n-n":
        if len(ka) < 2 or len(kb) < 2:
            return False
        da.join_on_key(db, ("i", "k"), ("i", "k"))
    elif shape == "1-n":
        if len(kb) < 2:
            return False
        da.join_on_key(db, "i", ("i", "k"))
    elif shape == "n-1":
        if len(ka) < 2:
            return False
        da.join_on_key(db, ("i", "k"), "i")
    return True


# ------------------------------------------------------------------ file-backed datasets (LoadLog path)
def write_file(rng, kind, path, shape):
    """Write a small data file of the requested kind.  Returns the path."""
    n = int(np.prod(shape))
    if kind == "csv":
        v = common.rand_floats(rng, (n,), special=False)
        w = common.injective_floats(rng, (n,))
        i = common.rand_ints(rng, (n,), 0, 4)
        c = common.rand_cats(rng, n)
        with open(path, "w") as f:
            f.write("v,w,i,c\n")
            for r in range(n):
                f.write("%r,%r,%d,%s\n" % (float(v[r]), float(w[r]), int(i[r]), c[r]))
    elif kind == "fits":
        from astropy.io import fits
        fits.PrimaryHDU(common.injective_floats(rng, shape)).writeto(path, overwrite=True)
    elif kind == "hdf5":
        import h5py
        with h5py.File(path, "w") as f:
            f.create_dataset("w", data=common.injective_floats(rng, shape))
            f.create_dataset("v", data=common.rand_floats(rng, shape, special=False))
            f.create_dataset("i", data=common.rand_ints(rng, shape, 0, 4))
    return path


def load_file_dataset(rng, idx, workdir, opts):
    from glue.core.data_factories import load_data
    kind = rng.choice(["csv", "csv", "fits", "hdf5"])
    shape = (rng.randint(2, 6),) if kind == "csv" else common.rand_shape(rng, 3 if kind != "fits" else 2, 4, 2)
    path = os.path.join(workdir, "f%d.%s" % (idx, {"csv": "csv", "fits": "fits", "hdf5": "h5"}[kind]))
    write_file(rng, kind, path, shape)
    d = load_data(path)
    if isinstance(d, list):
        d = d[0]
    d.label = "d%d" % idx
    info = {"label": d.label, "shape": list(d.shape), "coords": "file:" + kind, "numeric": [], "cat": [], "datetime": [],
            "derived": {}, "units": {}, "meta": [], "file": kind}
    labels = [c.label for c in d.main_components]
    if kind == "fits":
        # one image from the file (LoadLog path) plus in-memory columns in the same dataset (saved by value)
        d.add_component(common.rand_floats(rng, d.shape, p_special=0.2), "v")
        d.add_component(common.injective_floats(rng, d.shape), "w")
        d.add_component(common.rand_ints(rng, d.shape, 0, 4), "i")
        labels = [c.label for c in d.main_components]
    for need in ("v", "w", "i"):
        if need not in labels:
            raise RuntimeError("file recipe: %s dataset lacks column %s (has %r)" % (kind, need, labels))
    info["numeric"] = ["v", "w", "i"]
    if kind == "csv":
        info["cat"] = ["c"]
    return DS(d, info)


# ------------------------------------------------------------------ the session recipe
class Session(object):
    def __init__(self):
        self.dc = None
        self.ds = []          # DS handles
        self.desc = {}        # JSON-able descriptor
        self.include_data = True


def build_session(rng, opts=None, workdir=None):
    """opts: coords, wcs, style, meta, joins, links, poison(bool), element_with_data, mpl_pretransform, files(bool),
    max_groups, depth, n_data (fixed number of datasets), label_collisions."""
    opts = dict(opts or {})
    ses = Session()
    probe = opts.get("probe")
    nds = opts.get("n_data") or rng.choice([1, 1, 2, 2, 3])
    if (probe in PROBES_NEED_TWO or opts.get("want_link") or opts.get("want_join")) and nds < 2:
        nds = 2
    want_leaf, want_link, want_join = opts.get("want_leaf"), opts.get("want_link"), opts.get("want_join")
    # history "remove_last": joins / links / groups are built with all datasets, then the last dataset is removed
    # from the collection (it stays reachable through a remaining dataset's key join and the groups' selections)
    history = opts.get("history")
    special = opts.get("special")
    if special == "parsed_same_label":
        # expressions whose references are different objects carrying one label (across two linked tables, and
        # inside one table): d0.w <-> d1.v are linked both ways, so d1.v can be read on d0
        nds = max(nds, 2)
        want_link = "LinkTwoWay"
    if special == "coords_reordered":
        # two pixel-aligned images whose coordinate components were reordered out of axis order before saving
        nds = max(nds, 2)
        want_link = rng.choice(["LinkAligned", "LinkAligned", "LinkSame_pixel"])
        opts["order_mode"] = "coords_shuffled"
    if special == "element_bound":
        # an element selection bound to the first table, next to a key-joined and an unrelated table that are long
        # enough for its indices
        nds = 3
        want_join = rng.choice(JOIN_SHAPES)
        opts["links"] = False
    pair = (0, 1)
    if history == "remove_last":
        nds = max(nds, rng.choice([2, 3]))
        pair = (0, nds - 1)
        if rng.random() < 0.6:
            want_join = rng.choice(JOIN_SHAPES)
        else:
            want_link = "JoinLink"
    if probe == "state:slice_later_dataset" and rng.random() < 0.7:
        want_join = rng.choice(JOIN_SHAPES)      # the dataset the slice refers to is also key-joined to the first one
    files = bool(opts.get("files")) and workdir is not None
    ses.include_data = not files
    shapes = []
    # shapes: favour equal shapes sometimes (aligned links) and 1-d tables (joins, categoricals)
    base = common.rand_shape(rng, 3, 4, 2)
    for i in range(nds):
        r = rng.random()
        if r < 0.35 or opts.get("same_shapes"):
            shapes.append(base)
        elif r < 0.7:
            shapes.append((rng.randint(2, 6),))
        else:
            shapes.append(common.rand_shape(rng, 3, 4, 2))
    collide = opts.get("label_collisions", True) and rng.random() < 0.25
    force = [dict(opts.get("force_data", {})) for _ in range(nds)]
    if opts.get("big"):
        # scale thresholds: >= 100 rows with duplicates (beyond numpy's small-array paths), dozens of columns and groups
        # (hundreds of registered names)
        shapes = [(rng.randint(100, 400),) for _ in range(nds)]
        for f in force:
            f["extra_columns"] = rng.randint(20, 40)
        opts["min_groups"], opts["max_groups"] = 15, 25
    if not opts.get("big") and not want_join and want_link not in ("JoinLink", "WCSLink", "LinkAligned") \
            and not opts.get("same_shapes") and rng.random() < 0.12:
        k = rng.randrange(nds)
        shapes[k] = rng.choice([(1,), (1, 1), (1, 3), (2, 1, 2)])      # single-element / unit-length axes
    if want_leaf in ("cat_roi", "cat_2d", "cat_multirange", "category"):
        shapes[0] = (rng.randint(2, 6),)
        force[0]["cat"] = opts.get("cat_mode", True)
    if want_link == "JoinLink" or want_join:
        for i in pair:
            shapes[i] = (rng.randint(2, 6),)
            force[i]["k"] = True
    if want_link == "WCSLink":
        shapes[1] = tuple(rng.randint(2, 4) for _ in shapes[0][:2])
        shapes[0] = shapes[0][:2]
        force[0]["coords"] = force[1]["coords"] = "wcs"
    if want_link == "LinkAligned":
        shapes[pair[1]] = shapes[pair[0]]
    if special == "element_bound":
        shapes = [(rng.randint(2, 4),), (rng.randint(4, 7),), (rng.randint(4, 7),)]
    if special == "coords_reordered":
        shp = tuple(rng.randint(2, 4) for _ in range(rng.choice([2, 2, 3])))
        if len(set(shp)) == 1:
            shp = shp[:-1] + (shp[-1] + 1,)         # different axis lengths: a transposition cannot go unnoticed
        shapes = [shp for _ in range(nds)]
        for f in force:
            f["coords"] = rng.choice([None, "identity", "diagonal", "full"])
    for i in range(nds):
        if files and (i == 0 or rng.random() < 0.5):
            ses.ds.append(load_file_dataset(rng, i, workdir, opts))
        else:
            label = None
            if collide:
                label = rng.choice(["dup", "v", "Subset 1", "d0", "__main__x", "DataCollection"])
            ses.ds.append(make_dataset(rng, i, shapes[i], opts, label=label, force=force[i]))
    dc = DataCollection([h.data for h in ses.ds])
    ses.dc = dc
    desc = {"data": [h.info for h in ses.ds], "links": [], "joins": [], "groups": [], "include_data": ses.include_data,
            "collide": collide}
    # links: at most one link object per pair of datasets and no cycle in the dataset graph, so that the value of a
    # foreign attribute never depends on which of several link routes glue happens to pick (the statement is
    # silent about that choice)
    if nds >= 2 and opts.get("links", True):
        if nds == 2:
            edges = [(0, 1)] if rng.random() < 0.8 else []
        else:
            edges = rng.choice([[(0, 1)], [(0, 1), (1, 2)], [(0, 1), (0, 2)], [(0, 2), (1, 2)], [(1, 2)], []])
        if ((probe and probe.startswith("link:")) or want_link) and pair not in edges:
            edges = [pair]
        if want_join:
            edges = [e for e in edges if e != pair]
        if history == "remove_last":
            # the leaving dataset takes part in the key join / JoinLink only: removing a dataset also drops its links
            # from the collection while the removed Data keeps stale link-derived access, so a mask that travels
            # join -> removed dataset -> dropped link exists before the save by accident (C03's subject, not C02's)
            edges = [e for e in edges if (nds - 1) not in e or (e == pair and want_link == "JoinLink")]
        for n_edge, (i, j) in enumerate(edges):
            if rng.random() < 0.5:
                i, j = j, i
            if probe and probe.startswith("link:") and {i, j} == set(pair):
                kind = probe[5:]
            elif want_link and {i, j} == set(pair):
                kind = want_link
            else:
                kind = rng.choice(LINK_KINDS)
            if kind in opts.get("exclude_links", ()):
                continue
            made = make_link(rng, kind, ses.ds[i], ses.ds[j], opts)
            if made is None:
                continue
            link, sig = made
            try:
                dc.add_link(link)
            except Exception as exc:   # outside the recipe's domain: skip, say so
                desc.setdefault("link_add_failed", []).append([kind, type(exc).__name__])
                continue
            sig["kind"] = kind
            sig["between"] = [i, j]
            desc["links"].append(sig)
    # key joins (1-d tables)
    has_joinlink = any(l["link"] == "JoinLink" for l in desc["links"])
    if nds >= 2 and opts.get("joins", True) and not has_joinlink and (rng.random() < 0.45 or want_join):
        one_d = [k for k, h in enumerate(ses.ds) if h.data.ndim == 1]
        if len(one_d) >= 2:
            i, j = rng.sample(one_d, 2)
            shape = rng.choice(JOIN_SHAPES)
            if want_join:
                shape = want_join
                i, j = rng.choice([pair, pair[::-1]])
            try:
                ok = make_join(rng, shape, ses.ds[i], ses.ds[j])
            except Exception as exc:
                ok = False
                desc.setdefault("join_failed", []).append([shape, type(exc).__name__])
            if ok:
                desc["joins"].append({"shape": shape, "between": [i, j]})
    # subset groups
    ngroups = rng.randint(opts.get("min_groups", 0), max(opts.get("min_groups", 0), opts.get("max_groups", 4)))
    if desc["joins"] and ngroups == 0:
        ngroups = 1
    for g in range(ngroups):
        k = rng.randrange(nds)
        if desc["joins"] and g == 0:
            k = desc["joins"][0]["between"][1]
        state, sig = make_state(rng, ses.ds[k], opts, opts.get("depth", 2), k)
        if desc["joins"] and g == 0:
            state = ses.ds[k].data.id["w"] > 0
            sig = {"state": "InequalitySubsetState", "op": "gt", "form": "cid_const", "att": "value", "leaf_kind": "inequality"}
        label = rng.choice([None, "grp%d" % g, "dup", "d0", "v"]) if collide else rng.choice([None, "grp%d" % g])
        kw = {}
        if label is not None:
            kw["label"] = label
        grp = dc.new_subset_group(subset_state=state, **kw)
        styled, tags = False, []
        if opts.get("style", True) and rng.random() < 0.6:
            st, tags = rand_style(rng)
            apply_style(grp.style, st)
            styled = True
        desc["groups"].append({"on": k, "sig": sig, "label": label, "styled": styled, "style_extremes": tags})
    if history == "remove_last":
        last = nds - 1
        # a selection over the attribute of the dataset that is about to leave (reaches the others through the join)
        kind = rng.choice(["inequality", "range", "multirange", "inequality_cidcid"])
        state, sig = make_leaf(rng, kind, ses.ds[last], dict(opts, derived_kinds=[]))
        sig.update(leaf_kind=kind, nested=False)
        if "derived" in sig.get("att", ""):
            state, sig = ses.ds[last].data.id["w"] > 0, {"state": "InequalitySubsetState", "op": "gt", "form": "cid_const",
                                                        "att": "value", "leaf_kind": "inequality", "nested": False}
        dc.new_subset_group(subset_state=state, label="on_removed")
        desc["groups"].append({"on": last, "sig": sig, "label": "on_removed", "styled": False})
        dc.remove(ses.ds[last].data)
        desc["removed"] = last
        desc["history"] = "remove_last:" + ("join_on_key" if desc["joins"] else "JoinLink")
    if opts.get("zero_size") or (not probe and not history and rng.random() < 0.04):
        # a dataset without any element, appended after the groups exist, with a selection of its own
        zshape = rng.choice([(0,), (0, 3), (2, 0)])
        z = Data(label="zero_size")
        z.add_component(np.zeros(zshape), "v")
        z.add_component(np.zeros(zshape), "w")
        z.add_component(np.zeros(zshape, dtype=int), "i")
        z.add_component_link(z.id["w"] * 2, "der_binary")
        dc.append(z)
        zi = {"label": "zero_size", "shape": list(zshape), "coords": None, "numeric": ["v", "w", "i"], "cat": [], "datetime": [],
              "derived": {"der_binary": "binary"}, "units": {}, "meta": [], "order_mode": "plain", "variants": ["zero_size"]}
        ses.ds.append(DS(z, zi))
        desc["data"].append(zi)
        dc.new_subset_group(subset_state=z.id["w"] > 0, label="on_zero_size")
        desc["groups"].append({"on": len(ses.ds) - 1, "sig": {"state": "InequalitySubsetState", "op": "gt", "form": "cid_const",
                                                             "att": "value", "leaf_kind": "inequality", "nested": False},
                               "label": "on_zero_size", "styled": False})
    if special == "parsed_same_label":
        d0, d1 = ses.ds[0].data, ses.ds[1].data
        if not any(l["kind"] == "LinkTwoWay" and set(l["between"]) == {0, 1} for l in desc["links"]):
            dc.add_link(LH.LinkTwoWay(d0.id["w"], d1.id["v"], f_double, f_half))
            desc["links"].append({"link": "LinkTwoWay", "kind": "LinkTwoWay", "between": [0, 1]})
        # which side of the link can read the other's "v" depends on its direction: find it by trying
        a_own, b_far, home = d0.id["v"], d1.id["v"], 0
        try:
            d0[d1.id["v"]]
        except Exception:
            a_own, b_far, home = d1.id["v"], d0.id["v"], 1
        dh = ses.ds[home].data
        psig = {"state": "ParsedSubsetState", "leaf_kind": "parsed", "nested": False}
        groups = [("same_label_across", ParsedSubsetState(ParsedCommand("{a} > {b}", {"a": a_own, "b": b_far})), "two_across")]
        # inside one table: two more columns labelled "v" (added last, so that no recipe looks "v" up afterwards)
        t1 = dh.add_component(common.injective_floats(rng, dh.shape), "v")
        t2 = dh.add_component(common.rand_ints(rng, dh.shape, -3, 3), "v")
        groups.append(("same_label_within", ParsedSubsetState(ParsedCommand("{p} > {q} + 0.5", {"p": t1, "q": t2})), "two_within"))
        groups.append(("same_label_three", ParsedSubsetState(ParsedCommand("({x} > {y}) | ({z} < {y})", {"x": a_own, "y": t1, "z": b_far})),
                       "three_mixed"))
        for label, st, params in groups:
            if rng.random() < 0.4:
                st = S.InvertState(st)
                sig = {"state": "InvertState", "children": [dict(psig, nested=True, params="same_label:" + params)]}
            else:
                sig = dict(psig, params="same_label:" + params)
            dc.new_subset_group(subset_state=st, label=label)
            desc["groups"].append({"on": home, "sig": sig, "label": label, "styled": False})
        # and as derived columns
        # (a derived column may only refer to its own table's columns)
        dh.add_component_link(ParsedComponentLink(ComponentID("der_same_within"), ParsedCommand("{p} * 10 + {q}", {"p": t1, "q": t2})),
                              "der_same_within")
        dh.add_component_link(ParsedComponentLink(ComponentID("der_same_three"),
                                                  ParsedCommand("{p} - {q} * {r}", {"p": t1, "q": a_own, "r": t2})), "der_same_three")
        ses.ds[home].info["derived"].update(der_same_within="parsed", der_same_three="parsed")
        ses.ds[home].info.setdefault("variants", []).append("same_label_references")
    if special == "element_bound":
        d0 = ses.ds[0].data
        idx = sorted(rng.sample(range(d0.size), rng.randint(1, d0.size)))
        esig = {"state": "ElementSubsetState", "with_data": True, "nd_index": False, "leaf_kind": "element", "params": "bound_to_first"}
        dc.new_subset_group(subset_state=S.ElementSubsetState(idx, d0), label="bound_top")
        desc["groups"].append({"on": 0, "sig": dict(esig, nested=False), "label": "bound_top", "styled": False})
        other = ses.ds[0].data.id["w"] > -1e30
        dc.new_subset_group(subset_state=S.AndState(S.ElementSubsetState(idx, d0), other), label="bound_nested")
        desc["groups"].append({"on": 0, "sig": {"state": "AndState", "children": [
            dict(esig, nested=True), {"state": "InequalitySubsetState", "op": "gt", "form": "cid_const", "att": "value",
                                      "leaf_kind": "inequality", "nested": True}]}, "label": "bound_nested", "styled": False})
        ses.ds[0].info.setdefault("variants", []).append("element_bound_next_to_longer_tables")
    # a named leaf kind, once at top level and once below a composite (where the general restrictions admit it)
    if want_leaf:
        cand = [k for k in range(nds) if leaf_domain_ok(want_leaf, ses.ds[k], k, True, opts)]
        if cand:
            k = rng.choice(cand)
            state, sig = make_state(rng, ses.ds[k], opts, 0, k, True, want_leaf)
            dc.new_subset_group(subset_state=state, label="forced_top")
            desc["groups"].append({"on": k, "sig": sig, "label": "forced_top", "styled": False})
        cand = [k for k in range(nds) if leaf_domain_ok(want_leaf, ses.ds[k], k, False, opts)]
        if cand:
            k = rng.choice(cand)
            leaf, lsig = make_leaf(rng, want_leaf, ses.ds[k], opts)
            lsig.update(leaf_kind=want_leaf, nested=True)
            other, osig = make_state(rng, ses.ds[k], opts, 0, k, False)
            op = rng.choice(["invert", "and", "or", "xor", "multior"])
            if op == "invert":
                state, sig = S.InvertState(leaf), {"state": "InvertState", "children": [lsig]}
            elif op == "multior":
                state, sig = S.MultiOrState([other, leaf]), {"state": "MultiOrState", "children": [osig, lsig]}
            else:
                cls = {"and": S.AndState, "or": S.OrState, "xor": S.XorState}[op]
                state, sig = cls(other, leaf), {"state": cls.__name__, "children": [osig, lsig]}
            dc.new_subset_group(subset_state=state, label="forced_nested")
            desc["groups"].append({"on": k, "sig": sig, "label": "forced_nested", "styled": False})
    # the probe ingredient (see PROBES)
    if probe:
        desc["probe"] = probe
        pg = None
        po = opts
        if probe == "state:slice_nested":
            k = 0
            kind = rng.choice(["slice", "pixel"])
            op = rng.choice(["invert", "and", "or", "xor", "multior"])
            leaf, lsig = make_leaf(rng, kind, ses.ds[0], po)
            lsig.update(leaf_kind=kind, nested=True)
            other, osig = make_state(rng, ses.ds[0], opts, 0, 0, False)
            if op == "invert":
                pg = (0, S.InvertState(leaf), {"state": "InvertState", "children": [lsig]})
            elif op == "multior":
                pg = (0, S.MultiOrState([other, leaf]), {"state": "MultiOrState", "children": [osig, lsig]})
            else:
                cls = {"and": S.AndState, "or": S.OrState, "xor": S.XorState}[op]
                if rng.random() < 0.5:
                    pg = (0, cls(leaf, other), {"state": cls.__name__, "children": [lsig, osig]})
                else:
                    pg = (0, cls(other, leaf), {"state": cls.__name__, "children": [osig, lsig]})
        elif probe == "state:slice_later_dataset":
            k = 1 if want_join else rng.randrange(1, nds)
            kind = rng.choice(["slice", "pixel"])
            leaf, lsig = make_leaf(rng, kind, ses.ds[k], po)
            lsig.update(leaf_kind=kind, nested=False)
            pg = (k, leaf, lsig)
        elif probe == "state:floodfill_later_dataset":
            k = rng.randrange(1, nds)
            pg = (k,) + make_state(rng, ses.ds[k], po, rng.choice([0, 0, 1]), k, True, "floodfill")
        elif probe == "roi:PointROI":
            k = rng.randrange(nds)
            (xk, x), (yk, y) = rng.sample(att_pool(ses.ds[k], rng), 2)
            pg = (k, S.RoiSubsetState(x, y, make_roi(rng, "point")), {"state": "RoiSubsetState", "roi": "PointROI",
                                                                      "roi_kind": "point", "pretransform": "none",
                                                                      "leaf_kind": "roi", "nested": False})
        elif probe == "data:dask_component":
            import dask.array as da
            from glue.core.component import DaskComponent
            k = rng.randrange(nds)
            dd = ses.ds[k].data
            dd.add_component(DaskComponent(da.from_array(np.arange(dd.size, dtype=float).reshape(dd.shape), chunks=2)), "dask_col")
        elif probe == "data:indexed_data":
            from glue.core.data_derived import IndexedData
            src = [h.data for h in ses.ds if h.data.ndim >= 2]
            if src:
                idx = [None] * src[0].ndim
                idx[0] = 0
                dc.append(IndexedData(src[0], tuple(idx)))
            else:
                desc["probe_not_applicable"] = True
        elif probe == "meta:nested_unserialisable":
            k = rng.randrange(nds)
            ses.ds[k].data.meta["m_objlist"] = [Unserialisable()]
            ses.ds[k].info["meta"].append(["m_objlist", False])
        elif probe == "style:preferred_cmap":
            from matplotlib import colormaps
            k = rng.randrange(nds)
            ses.ds[k].data.style.preferred_cmap = colormaps[rng.choice(["viridis", "gray", "plasma"])]
        if pg is not None:
            k, state, sig = pg
            dc.new_subset_group(subset_state=state, label="probe")
            desc["groups"].append({"on": k, "sig": sig, "label": "probe", "styled": False})
    ses.desc = desc
    return ses


PROBES = ["data:dask_component", "data:indexed_data", "state:slice_nested", "state:slice_later_dataset", "state:floodfill_later_dataset",
          "link:MultiLink", "link:ComponentLink_lambda", "roi:PointROI", "meta:nested_unserialisable", "style:preferred_cmap"]
PROBES_NEED_TWO = ["state:slice_later_dataset", "state:floodfill_later_dataset", "link:MultiLink", "link:ComponentLink_lambda"]


RECIPE_CLASSES = {
    # subset states
    "SubsetState", "RoiSubsetStateNd", "RoiSubsetState", "RoiSubsetState3d", "CategoricalROISubsetState",
    "RangeSubsetState", "MultiRangeSubsetState", "CategoricalROISubsetState2D", "CategoricalMultiRangeSubsetState",
    "CompositeSubsetState", "OrState", "AndState", "XorState", "InvertState", "MultiOrState", "MaskSubsetState",
    "FloodFillSubsetState", "SliceSubsetState", "PixelSubsetState", "CategorySubsetState", "ElementSubsetState",
    "InequalitySubsetState", "ParsedSubsetState",
    # regions
    "Roi", "PointROI", "RectangularROI", "RangeROI", "XRangeROI", "YRangeROI", "CircularROI", "CircularAnnulusROI",
    "EllipticalROI", "VertexROIBase", "PolygonalROI", "Path", "Projected3dROI", "CategoricalROI",
    # link helpers
    "LinkCollection", "BaseMultiLink", "MultiLink", "LinkSame", "LinkTwoWay", "LinkSameWithUnits", "LinkAligned",
    "JoinLink", "WCSLink", "BaseCelestialMultiLink", "Galactic_to_FK5", "FK4_to_FK5", "ICRS_to_FK5", "Galactic_to_FK4",
    "ICRS_to_FK4", "ICRS_to_Galactic", "GalactocentricToGalactic",
}


# ------------------------------------------------------------------ observation
def observe_component_kinds(d):
    out = []
    for cid in d.components:
        try:
            out.append((cid.label, comp_kind(d, cid, d.get_component(cid))))
        except Exception:
            out.append((cid.label, "unreadable"))
    return out


def is_plain(v, depth=0):
    """The harness' own notion of a serialisable metadata value."""
    import astropy.units as u
    if v is None or isinstance(v, (str, bool, int, float, np.integer, np.floating, np.bool_, np.datetime64, u.UnitBase)):
        return True
    if isinstance(v, np.ndarray):
        return v.dtype.kind in "biuf"
    if depth > 3:
        return False
    if isinstance(v, (list, tuple)):
        return all(is_plain(x, depth + 1) for x in v)
    if isinstance(v, dict):
        return all(isinstance(k, str) and is_plain(x, depth + 1) for k, x in v.items())
    return False


def canon_meta(v):
    import astropy.units as u
    if isinstance(v, u.UnitBase):
        return ("unit", v.to_string())
    if isinstance(v, np.datetime64):
        return ("datetime", str(v))
    if isinstance(v, np.ndarray):
        return ("array", v)
    if isinstance(v, (list, tuple)):
        return ("seq", [canon_meta(x) for x in v])
    if isinstance(v, dict):
        return ("map", {k: canon_meta(x) for k, x in v.items()})
    if isinstance(v, (bool, np.bool_)):
        return ("bool", bool(v))
    if isinstance(v, (int, np.integer)) and abs(int(v)) > 2 ** 52:
        return ("bigint", int(v))
    if isinstance(v, (int, float, np.integer, np.floating)):
        return ("num", float(v))
    if isinstance(v, str):
        return ("lit", str(v))
    return ("lit", v)


def comp_kind(d, cid, comp):
    from glue.core.component import (CategoricalComponent, CoordinateComponent, DateTimeComponent, DerivedComponent)
    if isinstance(comp, CoordinateComponent):
        return "world" if comp.world else "pixel"
    if isinstance(comp, DerivedComponent):
        return "derived"
    if isinstance(comp, CategoricalComponent):
        return "categorical"
    if isinstance(comp, DateTimeComponent):
        return "datetime"
    return "numeric"


def style_obs(style):
    out = {}
    for a in ("color", "alpha", "linewidth", "linestyle", "marker", "markersize"):
        v = getattr(style, a, "<missing>")
        # exact comparison, and 0 must not pass for False / 0.0 pass for a default: keep value and numeric type apart
        out[a] = v
    cm = getattr(style, "preferred_cmap", "<missing>")
    out["preferred_cmap"] = getattr(cm, "name", cm)
    return out


def outcome(fn):
    """Run fn(); -> ("value", array) or ("raises", ExceptionClassName)."""
    try:
        return ("value", np.array(fn()))
    except IncompatibleAttribute:
        return ("raises", "IncompatibleAttribute")
    except Exception as exc:
        return ("raises", type(exc).__name__)


def observe(dc, level="full"):
    """Behaviour-level picture of a collection, through its public API only."""
    obs = {"n_data": len(dc), "data": [], "n_groups": len(dc.subset_groups), "groups": [],
           "n_external_links": len(dc.external_links)}
    datasets = list(dc)
    for d in datasets:
        o = {"label": d.label, "shape": tuple(d.shape), "components": [], "values": {}, "units": {}, "cat": {},
             "style": style_obs(d.style), "meta": {}, "foreign": {}, "subsets": [], "n_subsets": len(d.subsets),
             "coords_class": type(d.coords).__name__ if d.coords is not None else None}
        cids = list(d.components)
        for pos, cid in enumerate(cids):
            try:
                comp = d.get_component(cid)
            except Exception as exc:
                o["components"].append((cid.label, "unreadable:" + type(exc).__name__))
                continue
            kind = comp_kind(d, cid, comp)
            o["components"].append((cid.label, kind))
            key = "%d:%s" % (pos, cid.label)
            o["values"][key] = (kind,) + outcome(lambda: d[cid])
            o["units"][key] = comp.units if comp.units not in ("",) else None
            if kind == "categorical":
                o["cat"][key] = (np.array(comp.labels), np.array(comp.categories))
        def _axis_of(c):
            try:
                return getattr(d.get_component(c), "axis", None)
            except Exception:
                return None
        o["coord_ids"] = ([(c.label, getattr(c, "axis", None), [i for i, x in enumerate(cids) if x is c]) for c in d.pixel_component_ids],
                          [(c.label, _axis_of(c), [i for i, x in enumerate(cids) if x is c]) for c in d.world_component_ids])
        o["role_counts"] = (len(d.pixel_component_ids), len(d.world_component_ids), len(d.main_components),
                            len(d.derived_components))
        for k, v in d.meta.items():
            if isinstance(k, str) and is_plain(v):
                o["meta"][k] = canon_meta(v)
        # reachability of every other dataset's attributes from this one
        for j, other in enumerate(datasets):
            if other is d:
                continue
            for pos, cid in enumerate(other.components):
                o["foreign"]["%d/%d:%s" % (j, pos, cid.label)] = outcome(lambda: d[cid])
        for s in d.subsets:
            o["subsets"].append({"label": s.label, "style": style_obs(s.style), "mask": outcome(lambda: s.to_mask())})
        obs["data"].append(o)
    obs["link_table"] = link_table(dc)
    for g in dc.subset_groups:
        obs["groups"].append({"label": g.label, "style": style_obs(g.style), "n_subsets": len(g.subsets)})
    return obs


def link_table(dc):
    """The external link table, flattened to component links: sorted list of (datasets connected, input labels,
    output label) with datasets named by their position in the collection (-1: not a member).  Link helpers are
    flattened to the component links they provide, so the table is comparable between the link-helper format
    (DataCollection v4) and the flat component-link format (v1-v3); a JoinLink has no component links and is listed
    by the datasets it joins."""
    datasets = list(dc)

    def owner(cid):
        for i, d in enumerate(datasets):
            if any(cid is c for c in d.components):
                return i
        return -1
    rows = []
    for link in dc.external_links:
        if isinstance(link, LH.JoinLink):
            ends = sorted(i for i, d in enumerate(datasets) if d is link.data1 or d is link.data2)
            rows.append(("JoinLink", tuple(ends), (), ""))
            continue
        flat = list(link) if isinstance(link, LH.LinkCollection) else [link]
        for cl in flat:
            try:
                frm, to = cl.get_from_ids(), cl.get_to_id()
                ends = tuple(sorted({owner(c) for c in frm} | {owner(to)}))
                rows.append(("link", ends, tuple(c.label for c in frm), to.label))
            except Exception as exc:
                rows.append(("unreadable:" + type(exc).__name__, (), (), ""))
    return sorted(rows)


def observe_destructive(dc):
    """Observations that change the collection; only after the last save."""
    out = {}
    try:
        g = dc.new_subset_group()
        out["next_group_label"] = g.label
        out["next_group_color"] = g.style.color
    except Exception as exc:
        out["next_group_label"] = "raises:" + type(exc).__name__
    return out


def observe_liveness(dc):
    """Is the collection still a working collection?  A dataset appended now must get one subset per existing group
    (and the group must list it), and must leave every group again when it is removed.  Changes the collection (and
    restores it); only after the last save."""
    out = {}
    try:
        d = Data(label="vf_live_probe", vf_live_x=np.arange(4.0))
        dc.append(d)
        out["appended_subset_labels"] = sorted(str(s.label) for s in d.subsets)
        out["appended_listed_by_groups"] = [sum(1 for s in g.subsets if s.data is d) for g in dc.subset_groups]
        out["group_sizes_minus_datasets"] = [len(g.subsets) - len(dc) for g in dc.subset_groups]
        dc.remove(d)
        out["removed_listed_by_groups"] = [sum(1 for s in g.subsets if s.data is d) for g in dc.subset_groups]
        out["group_sizes_minus_datasets_after_remove"] = [len(g.subsets) - len(dc) for g in dc.subset_groups]
    except Exception as exc:
        out["raises"] = type(exc).__name__
    return out


# ------------------------------------------------------------------ comparison
COMPUTED = ("world", "derived")


def same_outcome(a, b, tol):
    if a[0] != b[0]:
        return False
    if a[0] == "raises":
        return a[1] == b[1]
    x, y = a[1], b[1]
    if x.shape != y.shape:
        return False
    if x.dtype.kind in "US" or y.dtype.kind in "US" or x.dtype.kind == "O":
        return bool(np.array_equal(x, y))
    if x.dtype.kind == "M" or y.dtype.kind == "M":
        return x.dtype.kind == y.dtype.kind and bool(np.array_equal(x, y))
    if x.dtype.kind == "b" or y.dtype.kind == "b":
        return x.dtype.kind == y.dtype.kind and bool(np.array_equal(x, y))
    if tol:
        return common.same_array(x, y, rtol=1e-9, atol=1e-12)
    return common.same_array(x, y)


def same_meta(a, b):
    if a[0] != b[0]:
        return False
    if a[0] == "array":
        return common.same_array(a[1], b[1])
    if a[0] == "seq":
        return len(a[1]) == len(b[1]) and all(same_meta(x, y) for x, y in zip(a[1], b[1]))
    if a[0] == "map":
        return set(a[1]) == set(b[1]) and all(same_meta(a[1][k], b[1][k]) for k in a[1])
    if a[0] == "num":
        return a[1] == b[1] or (a[1] != a[1] and b[1] != b[1])
    return a[1] == b[1]


def outcome_change(a, b):
    if a[0] == "value" and b[0] == "raises":
        return "value->raises:" + b[1]
    if a[0] == "raises" and b[0] == "value":
        return "raises:%s->value" % a[1]
    if a[0] == "raises":
        return "raises:%s->raises:%s" % (a[1], b[1])
    if a[1].shape != b[1].shape:
        return "shape_differs"
    if a[1].dtype.kind != b[1].dtype.kind:
        return "dtype_kind:%s->%s" % (a[1].dtype.kind, b[1].dtype.kind)
    if a[1].dtype.kind == "b" and not b[1].any() and a[1].any():
        return "mask_became_empty"
    return "values_differ"


def diff_obs(a, b, skip=()):
    """List of differences [(what, where, how, detail)], `what` in a fixed vocabulary.  `skip`: aspects projected
    away (C12: what an old version cannot represent): subset of {"style","meta","units","group_style","groups",
    "link_count"}."""
    out = []
    if a["n_data"] != b["n_data"]:
        return [("n_datasets", None, "%d->%d" % (a["n_data"], b["n_data"]), None)]
    for i, (x, y) in enumerate(zip(a["data"], b["data"])):
        if x["label"] != y["label"]:
            out.append(("data_label", i, "differs", [x["label"], y["label"]]))
        if x["shape"] != y["shape"]:
            out.append(("data_shape", i, "differs", [x["shape"], y["shape"]]))
            continue
        if x["components"] != y["components"]:
            xs, ys = list(x["components"]), list(y["components"])
            missing = [c for c in xs if c not in ys]
            extra = [c for c in ys if c not in xs]
            if missing or extra:
                how = "missing:%s;extra:%s" % (",".join(sorted({k for _, k in missing})),
                                               ",".join(sorted({k for _, k in extra})))
            else:
                how = "order"
            out.append(("component_list", i, how, {"before": xs, "after": ys, "missing": missing, "extra": extra}))
        else:
            for key, vx in x["values"].items():
                vy = y["values"][key]
                if not same_outcome(vx[1:], vy[1:], tol=vx[0] in COMPUTED):
                    out.append(("component_values", i, vx[0] + ":" + outcome_change(vx[1:], vy[1:]),
                                {"component": key, "before": vx[1:], "after": vy[1:]}))
            if "units" not in skip:
                for key, ux in x["units"].items():
                    if (ux or None) != (y["units"][key] or None):
                        out.append(("component_units", i, "differs", {"component": key, "before": ux, "after": y["units"][key]}))
            for key, (lx, cx) in x["cat"].items():
                ly, cy = y["cat"][key]
                if not np.array_equal(lx, ly):
                    out.append(("categorical_labels", i, "differs", {"component": key, "before": lx, "after": ly}))
                elif not np.array_equal(cx, cy):
                    out.append(("categorical_categories", i, "differs", {"component": key, "before": cx, "after": cy}))
        if x["coord_ids"] != y["coord_ids"] and x["components"] == y["components"]:
            out.append(("coordinate_ids", i, "pixel" if x["coord_ids"][0] != y["coord_ids"][0] else "world",
                        {"before": x["coord_ids"], "after": y["coord_ids"]}))
        if x["role_counts"] != y["role_counts"] and x["components"] == y["components"]:
            out.append(("component_roles", i, "differs", [x["role_counts"], y["role_counts"]]))
        if (x["coords_class"] is None) != (y["coords_class"] is None):
            out.append(("coords_presence", i, "differs", [x["coords_class"], y["coords_class"]]))
        if "style" not in skip:
            for k, v in x["style"].items():
                if y["style"][k] != v:
                    out.append(("data_style", i, k, [v, y["style"][k]]))
        if "meta" not in skip:
            for k, v in x["meta"].items():
                if k not in y["meta"]:
                    out.append(("meta", i, "dropped:" + v[0], {"key": k}))
                elif not same_meta(v, y["meta"][k]):
                    out.append(("meta", i, "changed:" + v[0], {"key": k, "before": v, "after": y["meta"][k]}))
            for k in y["meta"]:
                if k not in x["meta"]:
                    out.append(("meta", i, "appeared", {"key": k}))
        if set(x["foreign"]) == set(y["foreign"]):
            for key, vx in x["foreign"].items():
                vy = y["foreign"][key]
                if not same_outcome(vx, vy, tol=True):
                    out.append(("foreign_attribute", i, outcome_change(vx, vy), {"attribute": key, "before": vx, "after": vy}))
        if x["n_subsets"] != y["n_subsets"]:
            out.append(("subset_count", i, "%s" % ("fewer" if y["n_subsets"] < x["n_subsets"] else "more"),
                        [x["n_subsets"], y["n_subsets"]]))
        else:
            for j, (sx, sy) in enumerate(zip(x["subsets"], y["subsets"])):
                if sx["label"] != sy["label"]:
                    out.append(("subset_label", (i, j), "differs", [sx["label"], sy["label"]]))
                if "group_style" not in skip:
                    for k, v in sx["style"].items():
                        if sy["style"][k] != v:
                            out.append(("subset_style", (i, j), k, [v, sy["style"][k]]))
                if not same_outcome(sx["mask"], sy["mask"], tol=False):
                    out.append(("subset_mask", (i, j), outcome_change(sx["mask"], sy["mask"]),
                                {"before": sx["mask"], "after": sy["mask"]}))
    if "groups" in skip:
        pass
    elif a["n_groups"] != b["n_groups"]:
        out.append(("group_count", None, "%d->%d" % (min(a["n_groups"], 9), min(b["n_groups"], 9)), None))
    else:
        for j, (gx, gy) in enumerate(zip(a["groups"], b["groups"])):
            if gx["label"] != gy["label"]:
                out.append(("group_label", j, "differs", [gx["label"], gy["label"]]))
            if gx["n_subsets"] != gy["n_subsets"]:
                out.append(("group_subsets", j, "differs", [gx["n_subsets"], gy["n_subsets"]]))
            if "group_style" not in skip:
                for k, v in gx["style"].items():
                    if gy["style"][k] != v:
                        out.append(("group_style", j, k, [v, gy["style"][k]]))
    if "link_table" not in skip and a["link_table"] != b["link_table"]:
        x, y = a["link_table"], b["link_table"]
        if len(y) != len(x):
            how = "more" if len(y) > len(x) else "fewer"
        elif [r[1] for r in x] != [r[1] for r in y]:
            how = "connects_other_datasets"
        else:
            how = "inputs_or_outputs_differ"
        internal = sum(1 for r in y if len(r[1]) == 1 and r[1][0] >= 0)
        out.append(("external_link_table", None, how, {"before": x, "after": y, "links_within_one_dataset_after": internal}))
    if "link_count" not in skip and a["n_external_links"] != b["n_external_links"]:
        out.append(("external_link_count", None, "fewer" if b["n_external_links"] < a["n_external_links"] else "more",
                    [a["n_external_links"], b["n_external_links"]]))
    return out


# ------------------------------------------------------------------ localisation of a mask difference
def state_children(state):
    if isinstance(state, S.CompositeSubsetState):
        return [s for s in (state.state1, state.state2) if s is not None]
    if isinstance(state, S.MultiOrState):
        return list(state.states)
    return None


def locate_state_difference(orig_state, new_state, sig, data_o, data_n):
    """Walk the original and the restored state trees in parallel; return (culprit leaf sig, how) for the first node
    whose class changed or whose own mask changed.  Classification aid only - the deciding comparison is the mask."""
    if type(orig_state).__name__ != type(new_state).__name__:
        return sig, "class:%s->%s" % (type(orig_state).__name__, type(new_state).__name__)
    ko, kn = state_children(orig_state), state_children(new_state)
    if ko is None:
        mo = outcome(lambda: orig_state.to_mask(data_o))
        mn = outcome(lambda: new_state.to_mask(data_n))
        if not same_outcome(mo, mn, tol=False):
            return sig, outcome_change(mo, mn)
        return None
    if len(ko) != len(kn):
        return sig, "children:%d->%d" % (len(ko), len(kn))
    kids = sig.get("children", [])
    for k, (co, cn) in enumerate(zip(ko, kn)):
        sub = kids[k] if k < len(kids) else {"state": type(co).__name__}
        r = locate_state_difference(co, cn, sub, data_o, data_n)
        if r is not None:
            return r
    return None
