"""Per-shard monitoring context: counters, case accounting, violation log.

A property module drives the real glue code and reports what its monitors
observed through this object.  Nothing here decides a property; it only
records (i) how many oracle comparisons were made and of what kind, (ii) the
distinct non-trivial cases seen, (iii) violations with a *mechanism signature*
(a small dict of structural features, never random values) and a witness.
"""
import hashlib
import json
import random
import traceback

import numpy as np


def stable_hash(obj, n=16):
    s = json.dumps(obj, sort_keys=True, default=repr)
    return hashlib.sha256(s.encode()).hexdigest()[:n]


def jsonable(o, depth=0):
    """Best-effort conversion of a witness to JSON-serialisable data."""
    if depth > 8:
        return repr(o)[:200]
    if isinstance(o, (str, int, bool)) or o is None:
        return o
    if isinstance(o, float):
        if o != o:
            return "nan"
        if o in (float("inf"), float("-inf")):
            return repr(o)
        return o
    if isinstance(o, (np.integer,)):
        return int(o)
    if isinstance(o, (np.floating,)):
        return jsonable(float(o))
    if isinstance(o, (np.bool_,)):
        return bool(o)
    if isinstance(o, np.ndarray):
        if o.size > 64:
            return {"ndarray": str(o.dtype), "shape": list(o.shape), "head": jsonable(o.ravel()[:16].tolist(), depth + 1)}
        return jsonable(o.tolist(), depth + 1)
    if isinstance(o, dict):
        return {str(k): jsonable(v, depth + 1) for k, v in o.items()}
    if isinstance(o, (list, tuple, set, frozenset)):
        return [jsonable(v, depth + 1) for v in o]
    if isinstance(o, slice):
        return "slice(%r,%r,%r)" % (o.start, o.stop, o.step)
    return repr(o)[:300]


class Ctx:
    MAX_SAMPLES = 5
    MAX_WITNESS_PER_SIG = 2

    def __init__(self, prop, tier, seed, shard=0, nshards=1):
        self.prop = prop
        self.tier = tier
        self.seed = seed
        self.shard = shard
        self.nshards = nshards
        self.counters = {}
        self.evaluations = 0
        self.distinct = set()
        self.samples = []
        self.violations = {}      # sigkey -> {signature, count, witnesses}
        self.errors = []          # harness errors (-> inconclusive)
        self.case = None
        self.rng = random.Random(0)
        self.nprng = np.random.RandomState(0)
        self.events = []          # per-case event log (dumped into witnesses)

    # ---- case lifecycle -------------------------------------------------
    def begin_case(self, case):
        self.case = case
        h = int(stable_hash([self.seed, self.prop, case]), 16)
        self.rng = random.Random(h)
        self.nprng = np.random.RandomState(h % (2 ** 32))
        self.events = []

    # ---- accounting -----------------------------------------------------
    def count(self, key, n=1):
        self.counters[key] = self.counters.get(key, 0) + n

    def evaluation(self, fingerprint=None, nontrivial=True, n=1):
        """One oracle comparison at the public boundary.  `fingerprint`
        identifies the case structurally; distinct non-trivial fingerprints
        are counted."""
        self.evaluations += n
        if fingerprint is not None and nontrivial:
            self.distinct.add(stable_hash(fingerprint, 12))

    def sample(self, obj):
        if len(self.samples) < self.MAX_SAMPLES:
            self.samples.append(jsonable(obj))

    def event(self, *ev):
        if len(self.events) < 400:
            self.events.append(jsonable(ev))

    # ---- verdict material -------------------------------------------------
    def violation(self, signature, detail=None):
        sig = jsonable(signature)
        key = json.dumps(sig, sort_keys=True)
        rec = self.violations.setdefault(key, {"signature": sig, "count": 0, "witnesses": []})
        rec["count"] += 1
        if len(rec["witnesses"]) < self.MAX_WITNESS_PER_SIG:
            rec["witnesses"].append({"case": jsonable(self.case), "detail": jsonable(detail),
                                     "events": list(self.events[-60:])})
        self.count("violations_observed")

    def check(self, cond, signature, detail=None):
        if not cond:
            self.violation(signature, detail() if callable(detail) else detail)
        return bool(cond)

    def harness_error(self, exc):
        if len(self.errors) < 10:
            self.errors.append({"case": jsonable(self.case), "error": repr(exc)[:400],
                                "traceback": traceback.format_exc()[-3000:]})
        self.count("harness_errors")

    def dump(self):
        return {"prop": self.prop, "tier": self.tier, "seed": self.seed, "shard": self.shard,
                "counters": self.counters, "evaluations": self.evaluations,
                "distinct": sorted(self.distinct), "samples": self.samples,
                "violations": list(self.violations.values()), "errors": self.errors}
