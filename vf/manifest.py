"""Regenerates /verif/MANIFEST.json from the table below (python -m vf.manifest)."""
import json
import os

import vf

BASELINE_OFF = ("cd /repo && env -u GLUE_VERIF /venv/bin/python -m pytest -ra -q -p no:cacheprovider --timeout=900 "
                "--continue-on-collection-errors")

# property -> (technique, level text, level note, DESIGN.md section)
CLAIMED = {
    "C07": ("recorded delivery history (unique message uids) vs. sequential reference hub + online 'no delivery while a delay block is open' trace monitor",
            "Runtime monitoring: every enumerated hub program up to the length bound and the random re-entrant programs are executed on the real Hub; each delivery event is compared with a 70-line sequential model. Held means: no divergence on the programs listed in the evidence file.",
            "trusted: the reference hub as specification; handlers that raise are out of scope; single-threaded", "5/C07"),
}
NOT_YET = {}


def build():
    props = [json.loads(l) for l in open(os.path.join(vf.VERIF_ROOT, "properties.jsonl"))]
    checks, na = [], []
    for p in props:
        pid = p["id"]
        if pid in CLAIMED:
            tech, text, note, ref = CLAIMED[pid]
            checks.append({
                "property_id": pid,
                "quick_cmd": "./check %s --tier quick" % pid,
                "thorough_cmd": "./check %s --tier thorough" % pid,
                "evidence_file": "evidence/%s.json" % pid,
                "replay_cmd_template": "./check %s --replay {path}" % pid,
                "engine": "vf",
                "level_claimed": {"category": "exploration", "text": text, "design_ref": "DESIGN.md section " + ref},
                "level_note": note,
                "technique": tech,
            })
        else:
            na.append({"property_id": pid, "reason": NOT_YET.get(pid, "check not built yet in this round (runtime monitoring applies; see DESIGN.md section 5)")})
    man = {
        "version": 1,
        "setup_cmd": "/venv/bin/pip install -q --no-index --find-links /opt/veriftools/wheels --target /verif/.deps icontract deal && /venv/bin/python -c \"import glue; print(glue.__file__)\"",
        "hooks": {
            "guard": "GLUE_VERIF",
            "enable": "no source patch: the harness (vf/) wraps glue classes and functions at run time in its worker processes and only when GLUE_VERIF=1 is set (it sets it itself); /venv imports glue from /repo's working tree (development install), so nothing is built",
            "baseline_off_cmd": BASELINE_OFF,
            "source_commits": [],
            "add_only": True,
        },
        "engines": [{"name": "vf", "path": "vf/", "serves_properties": sorted(CLAIMED),
                     "kind_free_text": "runtime monitoring harness: sharded workload drivers, boundary recorders, reference-model oracles, known-findings classifier, evidence writer"}],
        "checks": checks,
        "not_applicable": na,
        "notes": "Exit codes of ./check: 0 held on what was observed (KNOWN-FINDING lines list recorded defects), 1 VIOLATION, 2 INCONCLUSIVE (monitor floors not reached / watchdog / harness error). Fixes to /repo are 'fix:' commits listed in known_findings.json with status fixed.",
    }
    with open(os.path.join(vf.VERIF_ROOT, "MANIFEST.json"), "w") as f:
        json.dump(man, f, indent=1)
    return man


if __name__ == "__main__":
    m = build()
    print("checks:", [c["property_id"] for c in m["checks"]], "not_applicable:", len(m["not_applicable"]))
