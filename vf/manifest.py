"""Regenerates /verif/MANIFEST.json from the table below (python -m vf.manifest)."""
import json
import os

import vf

BASELINE_OFF = ("cd /repo && env -u GLUE_VERIF /venv/bin/python -m pytest -ra -q -p no:cacheprovider --timeout=900 "
                "--continue-on-collection-errors")

# property -> (technique, level text, level note, DESIGN.md section)
T = "Runtime monitoring of the real code: %s Held means no divergence on the executions listed in the evidence file; nothing is claimed beyond the bounds driven."
N = "trusted: %s; numpy semantics; single-threaded; known_findings.json lists defects already recorded (they print KNOWN-FINDING and are not re-reported)"
CLAIMED = {
    "C01": ("expression trees / edit-mode sequences evaluated on real states vs. numpy Boolean algebra over fresh-twin leaf masks; operand fingerprints re-checked",
            T % "random and systematic selection trees (25 leaf kinds, 20 operator forms, 6 edit modes) are evaluated under random evaluation schedules and views; every mask is compared with the same Boolean operations applied to the masks of never-evaluated twin leaves, and every operand is re-checked for alteration.",
            N % "leaf semantics (C04/C08/C09 decide them); copy-on-combine contract", "5/C01"),
    "C02": ("behavioural observation of a session before save vs. after restore and after a second save/restore generation",
            T % "generated sessions (all component kinds, coordinates, link helpers, joins, every SubsetState/Roi class with a recipe, styles, metadata, include_data on/off) are saved with the real serializer, restored, observed through the public API and compared; failing loudly at save time is an allowed outcome and is tallied.",
            N % "the observe() projection as the meaning of 'observationally equivalent'", "5/C02"),
    "C03": ("quiescent-point observation of readable attributes/values/derivable tables after every history step vs. independent fixpoint over the link set",
            T % "histories of add/remove link, component, dataset (cycles, diamonds, multi-input links, delay blocks) are applied to a real DataCollection; after each step reachability, values (set of acceptable minimum-depth compositions), selection masks and link tables are compared with a small reference model.",
            N % "the fixpoint reference model; path-distinguishing link functions", "5/C03"),
    "C04": ("differential: result under a view vs. the same numpy view of the full-size result",
            T % "attribute kind x selection kind x view kind cross product on generated datasets, and IndexedData vs. the parent's slice (indices reassigned), compared elementwise with shape.",
            N % "numpy indexing as the meaning of a view", "5/C04"),
    "C05": ("every read repeated after every mutation on the long-lived objects and on a freshly built, never-evaluated twin",
            T % "histories interleaving reads (masks, statistics, histograms, derived values, viewer-layer histograms/profiles) with mutations (update_components, update_values_from_data, setters, move_to, ROI edits, link add/remove, IndexedData.indices), including reads from a hub listener during the change broadcast.",
            N % "twin construction from public getters and harness-tracked values", "5/C05"),
    "C06": ("structural invariant evaluated literally at every quiescent point of generated histories (+ icontract invariant on DataCollection)",
            T % "all token sequences up to the length bound plus random histories over append/remove/re-append/groups/merge/clear/commands/undo/redo/save+restore on a real DataCollection.",
            N % "set-based membership model; workload never creates ungrouped subsets", "5/C06"),
    "C07": ("recorded delivery history (unique message uids) vs. sequential reference hub + online 'no delivery while a delay block is open' trace monitor",
            T % "every enumerated hub program up to the length bound and random re-entrant programs are executed on the real Hub; each delivery event is compared with a 70-line sequential model.",
            N % "the reference hub as specification; handlers that raise are out of scope", "5/C07"),
    "C08": ("contains()/contains3d() of real ROI objects vs. independent reference geometry outside a boundary band; equivariance under move/rotate/copy/save-restore",
            T % "every ROI class with parameter recipes aimed at the theta special cases, thin shapes, open/closed/concave polygons, presented as scalars, n-d, broadcast and chunk-forcing point arrays.",
            N % "reference geometry (shape-frame rotation, radius, even-odd rule cross-checked in exact rationals); band exclusion", "5/C08"),
    "C09": ("selection produced by roi_to_subset_state evaluated on real data vs. independent geometry on plotted positions",
            T % "1-d tables with numeric/categorical axes in all four combinations, category orders, regions swept across integer category positions; every dispatch path must be visited.",
            N % "reference geometry shared with C08; band exclusion", "5/C09"),
    "C10": ("differential against a naive NaN-aware reference for statistics and histograms over chunk sizes, axes, views, selections",
            T % "Data.compute_statistic / compute_histogram, IndexedData, profile and histogram layer states are called on generated data and compared with a 40-line reference; interior-edge-coincident histogram values may fall in either neighbouring bin, totals exact.",
            N % "the textbook reference; tolerance 1e-9 relative", "5/C10"),
    "C11": ("masks propagated through real key joins vs. set-based key-equality model, recursion-depth monitor for cycles",
            T % "generated tables (ints, floats, strings, dtype/width pairs, duplicates) joined in the four shapes, chains, stars and cycles; both directions, with views.",
            N % "value equality of keys as Python/numpy == after normalisation", "5/C11"),
    "C12": ("every registered (type, version) saver fed to the real loader and compared by observation; registry and rename-table invariants checked on the live tables",
            T % "the saver/loader registries and PATH_PATCHES are enumerated completely; generated sessions are written with each registered version pinned and loaded by the real GlueUnSerializer.",
            N % "C02's observe() projected on what a version can represent", "5/C12"),
    "C13": ("behavioural snapshot before do / after do compared with snapshot after undo / after redo over generated command histories (+ stack model, icontract bound)",
            T % "all token sequences up to the length bound and random do/undo/redo histories over AddData, RemoveData, ApplySubsetState, ApplyROI on a real session, including runs past the undo bound.",
            N % "the snapshot projection (datasets, groups, masks, edit-subset choice, mode)", "5/C13"),
    "C14": ("derived attribute values under every view vs. the same expression evaluated by numpy on the raw inputs; dependency closure on removal vs. graph closure",
            T % "random expression trees, function links and parsed commands over stored/pixel/world/derived inputs, all view kinds, and add/remove/update_id histories.",
            N % "numpy evaluation of the expression (both pow readings) as reference", "5/C14"),
    "C15": ("world attributes, pixel<->world links and helpers vs. the coordinate object's own transformation on the dense grid",
            T % "identity/affine (diagonal, coupled, triangular, permuted, full) and linear WCS coordinates, 1-3 dims, all views.",
            N % "coords.pixel_to_world_values / world_to_pixel_values on the dense meshgrid", "5/C15"),
    "C16": ("buffers from the real compute_fixed_resolution_buffer vs. brute-force nearest-pixel resampling; every request repeated with and without cache_id over request histories",
            T % "pairs of datasets linked by affine pixel maps, value and mask requests, histories of requests sharing a cache id, and image-viewer layer states.",
            N % "the known affine map as ground truth; .5 ties accept either neighbour", "5/C16"),
    "C17": ("structural invariants evaluated after every call of the Data mutation API + hub message log reconciled with the observed change",
            T % "random histories over add/remove/reorder/rename/update_id/update_components/update_values_from_data/coords with valid and invalid arguments, on datasets without hub, with a bare hub, in a collection and with a linked sibling; after every call the invariant list is evaluated literally and the multiset of hub messages is compared with the documented one; a raising call must leave state and message log unchanged.",
            N % "the operation -> expected messages table derived from the docstrings", "5/C17"),
    "C18": ("layer / picker mirror invariants evaluated at every quiescent point of viewer histories on the four headless matplotlib viewers, incl. save+restore",
            T % "histories of collection, component, subset-group and viewer operations, picker filter flips and explicit selections on real Simple{Histogram,Scatter,Image,Profile}Viewer objects (Agg backend) inside a recording Application subclass; set-based expected layers and an independent re-statement of the picker filters.",
            N % "the set-based layer model and the re-stated picker filter; Qt/Jupyter front-ends are not covered", "5/C18"),
    "C19": ("export with the real exporters, reload with the matching factory, compare components/rows/pixels",
            T % "generated tables and images (float/int/string columns, NaN, subsets empty/proper/full) through CSV, FITS table, VO table, HDF5, gridded FITS, and sessions saved by reference.",
            N % "format conventions for masked-out pixels are tallied, not judged", "5/C19"),
    "C20": ("complete enumeration of small input spaces through the real helpers vs. their definitions",
            T % "all slice pairs, chunkings, stride patterns, view shapes and categorical arrays within the stated bounds are fed to glue.utils.array helpers; exhaustive within the bound when not cut by the time cap.",
            N % "definitions written with Python ranges / numpy indexing", "5/C20"),
}
NOT_YET = {}
READY = ['C%02d' % i for i in range(1, 21)]


def build():
    props = [json.loads(l) for l in open(os.path.join(vf.VERIF_ROOT, "properties.jsonl"))]
    checks, na = [], []
    for p in props:
        pid = p["id"]
        if pid in CLAIMED and pid in READY:
            tech, text, note, ref = CLAIMED[pid]
            checks.append({
                "property_id": pid,
                "quick_cmd": "./check %s --tier quick" % pid,
                "thorough_cmd": "./check %s --tier thorough" % pid,
                "evidence_file": "evidence/%s.json" % pid,
                "replay_cmd_template": "./check %s --replay {path}" % pid,
                "engine": "vf",
                "level_claimed": {"category": "exploration", "text": text, "design_ref": "DESIGN.md section " + ref},
                "level_note": note,
                "technique": tech,
            })
        else:
            na.append({"property_id": pid, "reason": NOT_YET.get(pid, "check not built yet in this round (runtime monitoring applies; see DESIGN.md section 5)")})
    man = {
        "version": 1,
        "setup_cmd": "/venv/bin/pip install -q --no-index --find-links /opt/veriftools/wheels --target /verif/.deps icontract deal && /venv/bin/python -c \"import glue; print(glue.__file__)\"",
        "hooks": {
            "guard": "GLUE_VERIF",
            "enable": "no source patch: the harness (vf/) wraps glue classes and functions at run time in its worker processes and only when GLUE_VERIF=1 is set (it sets it itself); /venv imports glue from /repo's working tree (development install), so nothing is built",
            "baseline_off_cmd": BASELINE_OFF,
            "source_commits": [],
            "add_only": True,
        },
        "engines": [{"name": "vf", "path": "vf/", "serves_properties": sorted(READY),
                     "kind_free_text": "runtime monitoring harness: sharded workload drivers, boundary recorders, reference-model oracles, known-findings classifier, evidence writer"}],
        "checks": checks,
        "not_applicable": na,
        "notes": "Exit codes of ./check: 0 held on what was observed (KNOWN-FINDING lines list recorded defects), 1 VIOLATION, 2 INCONCLUSIVE (monitor floors not reached / watchdog / harness error). Fixes to /repo are 'fix:' commits listed in known_findings.json with status fixed.",
    }
    with open(os.path.join(vf.VERIF_ROOT, "MANIFEST.json"), "w") as f:
        json.dump(man, f, indent=1)
    return man


if __name__ == "__main__":
    m = build()
    print("checks:", [c["property_id"] for c in m["checks"]], "not_applicable:", len(m["not_applicable"]))
