"""C05 helpers: histories over IndexedData and over live histogram / profile viewers."""
from types import SimpleNamespace

from echo import delay_callback

import numpy as np

from glue.core import DataCollection
from glue.core.data_derived import IndexedData

from vf.common import make_view, describe_view
from vf import lib_C05_world as W
from vf.lib_C05_world import brief, clear_all_memo, okind, outcome, same_outcome


# ================================================================ shared bookkeeping
def compare(ctx, H, tag, rkind, key, lo, to, mut, detail_fn, fp_extra=None):
    """One live-vs-twin comparison of a named read; returns True when they agree."""
    last = H.last.get(key)
    warm = key in H.last
    changed = warm and not same_outcome(to, last)
    nontrivial = warm and changed and to[0] == "ok"
    ctx.evaluation([H.family, mut["kind"], mut.get("what"), rkind, fp_extra], nontrivial)
    ctx.count("reads_compared:" + tag)
    ctx.count("reads_compared_kind:" + rkind)
    if warm:
        ctx.count("post_mutation_rereads:" + tag)
    if nontrivial:
        ctx.count("post_mutation_rereads_truth_changed:" + tag)
        ctx.count("truth_changed_kind:" + rkind)
    if lo[0] == "exc" and to[0] == "exc" and lo[1] == to[1]:
        ctx.count("both_raised:%s:%s" % (rkind, lo[1]))
    H.last[key] = to
    if same_outcome(lo, to):
        return True
    if mut["kind"] == "none":
        raise RuntimeError("live and twin disagree before any mutation: %s %r live=%r twin=%r" % (H.family, key, lo, to))
    return False


# ================================================================ IndexedData
def icid(idata, ref):
    tag, key = ref
    if tag == "c":
        return [c for c in idata.main_components if c.label == key][0]
    if tag == "p":
        return idata.pixel_component_ids[key]
    if tag == "w":
        return idata.world_component_ids[key]
    raise ValueError(ref)


def exec_iread(w, r):
    idata = w.idata
    k = r["k"]
    st = None if r.get("s") is None else w.states[r["s"]]
    if k == "indexed_shape":
        return outcome(lambda: np.array(idata.shape))
    if k == "indexed_coords":
        return outcome(lambda: np.array(idata.coords.pixel_to_world_values(*r["pix"]), dtype=float))
    if k == "indexed_mask":
        return outcome(lambda: idata.get_mask(st, view=r["view"]))
    if k == "indexed_histogram" or r.get("orig_cid"):
        # IndexedData.compute_histogram does not translate its own component ids; the parent's ids are accepted
        # by all of its methods
        cid = w.datas[0].id[r["cid"][1]]
    else:
        cid = icid(idata, r["cid"])
    if k == "indexed_value":
        return outcome(lambda: idata.get_data(cid, view=r["view"]))
    if k == "indexed_statistic":
        return outcome(lambda: idata.compute_statistic(r["stat"], cid, subset_state=st, axis=r["axis"]))
    if k == "indexed_histogram":
        return outcome(lambda: idata.compute_histogram([cid], range=[r["range"]], bins=[r["bins"]], subset_state=st))
    raise ValueError(k)


def build_indexed(H, state_descs):
    w = W.World()
    w.datas = [W.build_data(H.model)]
    w.idata = IndexedData(w.datas[0], tuple(H.indices))
    w.states = [W.build_state(sd, w.datas) for sd in state_descs]
    return w


def run_indexed_history(ctx, hid):
    rng = ctx.rng
    H = SimpleNamespace(family="indexed", last={}, mutlog=[])
    nd = rng.choice([2, 3, 3])
    shape = tuple(rng.randint(2, 4) for _ in range(nd))
    coords = W.gen_coords(rng, nd) if rng.random() < 0.5 else None
    H.model = W.gen_data_model(rng, "d0", shape, ["v", "w", "i"], coords=coords)
    H.models = [H.model]
    nfix = rng.randint(1, nd - 1)
    fixed = sorted(rng.sample(range(nd), nfix))
    H.indices = [rng.randrange(shape[a]) if a in fixed else None for a in range(nd)]
    ishape = tuple(shape[a] for a in range(nd) if a not in fixed)
    ns = rng.randint(1, 2)
    H.descs = [W.gen_state(rng, H.models, 0, rng.choice([0, 1, 2]), ("ineq", "range", "roi", "multirange", "slice",
                                                                   "mask")) for _ in range(ns)]
    live = build_indexed(H, H.descs)
    live.dc = DataCollection([live.datas[0]])
    live.dc.append(live.idata)
    H.live = live
    ctx.count("histories:indexed")
    ctx.count("histories")

    reads = [{"k": "indexed_shape"}]
    if coords is not None:
        reads.append({"k": "indexed_coords", "pix": [rng.randrange(2) for _ in ishape]})
    refs = [("c", n) for n in ("v", "w", "i")] + [("p", a) for a in range(len(ishape))]
    if coords is not None:
        refs += [("w", a) for a in range(len(ishape))] * 2
    for _ in range(rng.randint(4, 8)):
        k = rng.choice(["indexed_value", "indexed_value", "indexed_mask", "indexed_statistic", "indexed_histogram"])
        r = {"k": k}
        if k in ("indexed_value", "indexed_mask"):
            r["vk"] = rng.choice(["none", "slice_tuple_full", "int_slice_mix"])
            v = make_view(rng, ishape, r["vk"])
            r["view"] = v
        if k == "indexed_mask":
            r["s"] = rng.randrange(ns)
        else:
            r["cid"] = rng.choice(refs)
            if k != "indexed_value":
                r["s"] = rng.choice([None] + list(range(ns)))
        if k != "indexed_mask" and r["cid"][0] == "c":
            r["orig_cid"] = rng.random() < 0.4
        if k == "indexed_statistic":
            r["stat"] = rng.choice(["minimum", "maximum", "mean", "sum", "median"])
            r["axis"] = None
            r["cid"] = rng.choice([("c", n) for n in ("v", "w", "i")])
        if k == "indexed_histogram":
            r["cid"] = rng.choice([("c", n) for n in ("v", "w", "i")])
            lo = rng.choice([-6.0, -3.0, 0.0])
            r["range"] = [lo, lo + rng.choice([4.0, 6.0, 12.0])]
            r["bins"] = rng.choice([2, 3, 5])
        reads.append(r)

    def verify(mut):
        rm = W.RefMap(live.datas)
        H.snap = [W.snapshot(s, rm) for s in live.states]
        twin = build_indexed(H, H.snap)
        for n, r in enumerate(reads):
            if r.get("dead"):
                continue
            lo, to = exec_iread(live, r), exec_iread(twin, r)
            desc = {k: (describe_view(v) if k == "view" else v) for k, v in r.items()}
            if not compare(ctx, H, mut["kind"], r["k"], n, lo, to, mut, None, [r.get("vk"), r.get("cid"), r.get("s") is None]):
                sig = {"kind": "stale", "read": r["k"], "mutation": mut["kind"], "mutated": "indexed_data"
                       if mut["kind"] == "indices" else "parent_data", "during_broadcast": False,
                       "live": okind(lo), "twin": okind(to)}
                clear_all_memo()
                healed = same_outcome(exec_iread(live, r), to)
                sig["cause"] = "to_mask_memo" if healed else "not_memo"
                sig["culprit"] = "IndexedData"
                ctx.violation(sig, {"read": desc, "live": brief(lo), "twin": brief(to), "indices": list(H.indices),
                                    "model": H.model.describe(), "states": H.snap, "mutations": H.mutlog})
                ctx.count("stale_results")
                if not healed:
                    r["dead"] = True

    verify({"kind": "none"})
    for step in range(rng.randint(4, 8)):
        if rng.random() < 0.6:
            new = list(H.indices)
            for a in fixed:
                if rng.random() < 0.7:
                    new[a] = rng.randrange(shape[a])
            mut = {"kind": "indices", "what": "indices", "value": new}
            H.mutlog.append(mut)
            ctx.count("mutations:indices")
            H.indices = new
            try:
                live.idata.indices = tuple(new)
            except Exception as e:
                ctx.violation({"kind": "mutation_raised", "mutation": "indices", "exception": type(e).__name__},
                              {"indices": new, "error": repr(e)[:300]})
                break
        else:
            names = rng.sample(["v", "w", "i"], rng.randint(1, 2))
            mut = {"kind": "update_components", "what": "parent", "names": names}
            H.mutlog.append(mut)
            ctx.count("mutations:update_components")
            d = live.datas[0]
            mapping = {}
            for n in names:
                a = W.gen_values(rng, W.COMP_KINDS[n], shape)
                H.model.set(n, a)
                mapping[d.id[n]] = np.array(a)
            d.update_components(mapping)
        verify(mut)
    clear_all_memo()


# ================================================================ viewers
# FloodFillSubsetState is left out of the viewer families: its staleness after a change of values is a recorded
# finding of the "state" family and would only be observed a second time through the layer.
VIEWER_KINDS = ("ineq", "range", "multirange", "roi", "element", "mask", "slice", "catroi", "category", "catmr",
                "catroi2d")
def _no_draw(viewer):
    """Rendering is irrelevant to the layer-state caches and dominates the cost: silence the Agg canvas of this
    figure (matplotlib object, instance level; glue's redraw requests still run)."""
    canvas = viewer.figure.canvas
    canvas.draw = lambda *a, **k: None
    canvas.draw_idle = lambda *a, **k: None


def _close(viewer):
    import matplotlib.pyplot as plt
    try:
        plt.close(viewer.figure)
    except Exception:
        pass


def viewer_world(ctx, rng, family):
    from glue.core.application_base import Application
    H = SimpleNamespace(family=family, last={}, mutlog=[])
    if family == "hist" and rng.random() < 0.6:
        shape = (rng.randint(5, 10),)
        names = ["v", "w", "i", "c", "c2"]
        coords = None
    else:
        nd = rng.choice([2, 3]) if family == "prof" else 2
        shape = tuple(rng.randint(2, 4) for _ in range(nd))
        names = ["v", "w", "i", "f", "g"]
        coords = W.gen_coords(rng, nd) if (family == "prof" and rng.random() < 0.4) else None
    H.model = W.gen_data_model(rng, "d0", shape, names, coords=coords)
    H.models = [H.model]
    H.desc = W.gen_state(rng, H.models, 0, rng.choice([0, 1, 1, 2]), VIEWER_KINDS)
    live = W.World()
    live.datas = [W.build_data(H.model)]
    live.app = Application()
    live.dc = live.app.data_collection
    live.dc.append(live.datas[0])
    live.state = W.build_state(H.desc, live.datas)
    live.group = live.dc.new_subset_group(label="s", subset_state=live.state)
    H.live = live
    ctx.count("histories:" + family)
    ctx.count("histories")
    return H


def gen_update(rng, H, live, extra_names=()):
    m = H.model
    names = m.names("float", "int", "pos")
    chosen = rng.sample(names, rng.randint(1, 2))
    for n in extra_names:
        if n in names and n not in chosen and rng.random() < 0.7:
            chosen.append(n)
    d = live.datas[0]
    mapping = {}
    for n in chosen:
        a = W.gen_values(rng, W.COMP_KINDS[n], m.shape)
        m.set(n, a)
        mapping[d.id[n]] = np.array(a)
    return {"kind": "update_components", "what": "data", "names": chosen}, (lambda: d.update_components(mapping))


def stale_layer(ctx, H, rkind, which, mut, lo, to, extra):
    sig = {"kind": "stale", "read": rkind, "layer": which, "mutation": mut["kind"], "mutated": mut.get("what"),
           "during_broadcast": False, "live": okind(lo), "twin": okind(to)}
    ctx.violation(sig, dict(extra, live=brief(lo), twin=brief(to), model=H.model.describe(), mutations=H.mutlog))
    ctx.count("stale_results")


# ---------------------------------------------------------------- histogram viewer
def run_hist_history(ctx, hid):
    from glue.viewers.histogram.viewer import SimpleHistogramViewer
    from glue.viewers.histogram.state import HistogramLayerState
    rng = ctx.rng
    H = viewer_world(ctx, rng, "hist")
    live = H.live
    d = live.datas[0]
    viewer = live.app.new_data_viewer(SimpleHistogramViewer)
    _no_draw(viewer)
    try:
        viewer.add_data(d)
        vs = viewer.state
        num = H.model.names("float", "int", "pos")
        vs.x_att = d.id[rng.choice(num)]
        vs.hist_n_bin = rng.choice([2, 3, 5])
        # both limits in one step: a transient range with equal limits (new minimum == the maximum glue derived from the
        # data) makes Data.compute_histogram crash the process inside fast_histogram
        lo_ = rng.choice([-6.0, -3.0, 0.0])
        with delay_callback(vs, "hist_x_min", "hist_x_max"):
            vs.hist_x_min = lo_
            vs.hist_x_max = lo_ + rng.choice([4.0, 8.0, 12.0])

        def verify(mut):
            rm = W.RefMap(live.datas)
            H.snap = W.snapshot(live.group.subset_state, rm)
            fd = W.build_data(H.model)
            fsub = fd.new_subset(label="s")
            fsub.subset_state = W.build_state(H.snap, [fd])
            x_att = vs.x_att
            stub = SimpleNamespace(x_att=None if x_att is None else W.resolve(rm.ref(x_att), [fd]), x_log=vs.x_log,
                                   hist_x_min=vs.hist_x_min, hist_x_max=vs.hist_x_max, hist_n_bin=vs.hist_n_bin,
                                   cumulative=vs.cumulative, normalize=vs.normalize, random_subset=vs.random_subset)
            for ls in list(vs.layers):
                which = "data" if ls.layer is d else "subset"
                if not ls.visible:
                    continue
                lo = outcome(lambda: ls.histogram)
                tl = HistogramLayerState(layer=fd if which == "data" else fsub, viewer_state=stub)
                to = outcome(lambda: tl.histogram)
                tag = "hist:" + mut["kind"]
                if not compare(ctx, H, tag, "layer_histogram", which, lo, to, mut, None, [which, W.shape_sig(H.snap)]):
                    stale_layer(ctx, H, "layer_histogram", which, mut, lo, to,
                                {"settings": {k: getattr(stub, k) for k in ("x_log", "hist_x_min", "hist_x_max",
                                                                             "hist_n_bin", "cumulative", "normalize")},
                                 "x_att": None if x_att is None else rm.ref(x_att), "state": H.snap})
                    return False
            return True

        if not verify({"kind": "none"}):
            return
        for step in range(rng.randint(5, 9)):
            r = rng.random()
            if r < 0.35:
                xname = vs.x_att.label if vs.x_att is not None else None
                mut, call = gen_update(rng, H, live, [xname])
            elif r < 0.5:
                nd = W.gen_state(rng, H.models, 0, rng.choice([0, 1, 2]), VIEWER_KINDS)
                mut = {"kind": "subset_replace", "what": "subset_state", "state": nd}
                call = lambda: setattr(live.group, "subset_state", W.build_state(nd, live.datas))
            else:
                # x_log is not toggled: it makes the viewer re-derive the histogram range from the data and a range
                # that is degenerate in log space crashes the process inside fast_histogram (see lib_C05_world)
                what = rng.choice(["x_att", "x_att", "hist_n_bin", "hist_n_bin", "hist_x_min", "hist_x_max", "cumulative",
                                   "normalize"])
                if what == "x_att":
                    val = rng.choice([n for n in num])
                    call = lambda: setattr(vs, "x_att", d.id[val])
                elif what == "hist_n_bin":
                    val = rng.choice([x for x in [2, 3, 4, 5, 7] if x != vs.hist_n_bin])
                    call = lambda: setattr(vs, "hist_n_bin", val)
                elif what == "hist_x_min":
                    val = rng.choice([x for x in [-8.0, -5.0, -2.0, -1.0] if x != vs.hist_x_max])
                    call = lambda: setattr(vs, "hist_x_min", val)
                elif what == "hist_x_max":
                    val = rng.choice([x for x in [1.0, 3.0, 6.0, 11.0] if x != vs.hist_x_min])
                    call = lambda: setattr(vs, "hist_x_max", val)
                else:
                    val = not getattr(vs, what)
                    call = lambda: setattr(vs, what, val)
                mut = {"kind": "viewer_setting", "what": what, "value": val}
            H.mutlog.append(mut)
            ctx.count("mutations:hist:" + mut["kind"])
            try:
                call()
            except Exception as e:
                ctx.violation({"kind": "mutation_raised", "mutation": "hist:" + mut["kind"], "what": mut.get("what"),
                               "exception": type(e).__name__}, {"mutations": H.mutlog, "error": repr(e)[:300],
                                                                "model": H.model.describe()})
                return
            if not verify(mut):
                return
    finally:
        _close(viewer)
        clear_all_memo()


# ---------------------------------------------------------------- profile viewer
def run_prof_history(ctx, hid):
    from glue.viewers.profile.viewer import SimpleProfileViewer
    from glue.viewers.profile.state import ProfileLayerState, ProfileViewerState
    rng = ctx.rng
    H = viewer_world(ctx, rng, "prof")
    live = H.live
    d = live.datas[0]
    viewer = live.app.new_data_viewer(SimpleProfileViewer)
    _no_draw(viewer)
    try:
        viewer.add_data(d)
        vs = viewer.state
        num = H.model.names("float", "int", "pos")
        nd = H.model.ndim

        def x_choices():
            out = [("p", a) for a in range(nd)]
            if H.model.coords is not None:
                out += [("w", a) for a in range(nd)]
            return out

        def verify(mut):
            rm = W.RefMap(live.datas)
            H.snap = W.snapshot(live.group.subset_state, rm)
            fd = W.build_data(H.model)
            fsub = fd.new_subset(label="s")
            fsub.subset_state = W.build_state(H.snap, [fd])
            tvs = ProfileViewerState()
            pairs = []
            for ls in list(vs.layers):
                which = "data" if ls.layer is d else "subset"
                tl = ProfileLayerState(layer=fd if which == "data" else fsub, viewer_state=tvs)
                tvs.layers.append(tl)
                pairs.append((which, ls, tl))
            if vs.x_att is not None:
                tvs.x_att = W.resolve(rm.ref(vs.x_att), [fd])
            tvs.function = vs.function
            tvs.normalize = vs.normalize
            for which, ls, tl in pairs:
                if ls.attribute is not None:
                    tl.attribute = W.resolve(rm.ref(ls.attribute), [fd])
                tl.visible = ls.visible
            for which, ls, tl in pairs:
                lo = outcome(lambda: _profile(ls))
                # the first access of a brand-new layer state can return None because setting the limits fires the
                # viewer-state callbacks that reset the cache it has just filled; the second access is settled
                outcome(lambda: _profile(tl))
                to = outcome(lambda: _profile(tl))
                tag = "prof:" + mut["kind"]
                if not compare(ctx, H, tag, "layer_profile", which, lo, to, mut, None, [which, W.shape_sig(H.snap)]):
                    stale_layer(ctx, H, "layer_profile", which, mut, lo, to,
                                {"function": vs.function, "x_att": None if vs.x_att is None else rm.ref(vs.x_att),
                                 "attribute": None if ls.attribute is None else rm.ref(ls.attribute),
                                 "visible": ls.visible, "state": H.snap})
                    return False
            return True

        if not verify({"kind": "none"}):
            return
        for step in range(rng.randint(5, 9)):
            r = rng.random()
            first_x_att = step == 0 and r < 0.5   # the first change of x_att on a new viewer is its own cache path
            if first_x_att:
                r = 0.99
            if r < 0.35:
                attrs = [ls.attribute.label for ls in vs.layers if ls.attribute is not None]
                mut, call = gen_update(rng, H, live, attrs)
            elif r < 0.5:
                ndesc = W.gen_state(rng, H.models, 0, rng.choice([0, 1, 2]), VIEWER_KINDS)
                mut = {"kind": "subset_replace", "what": "subset_state", "state": ndesc}
                call = lambda: setattr(live.group, "subset_state", W.build_state(ndesc, live.datas))
            else:
                what = rng.choice(["function", "function", "x_att", "x_att", "x_att", "attribute", "attribute", "visible"])
                if first_x_att:
                    what = "x_att"
                if what == "function":
                    val = rng.choice([f for f in ["maximum", "minimum", "mean", "median", "sum"] if f != vs.function])
                    call = lambda: setattr(vs, "function", val)
                elif what == "x_att":
                    cur = None if vs.x_att is None else tuple(W.RefMap(live.datas).ref(vs.x_att)[::2])
                    val = rng.choice([c for c in x_choices() if c != cur])
                    call = lambda: setattr(vs, "x_att", W.resolve([val[0], 0, val[1]], live.datas))
                elif what == "attribute":
                    k = rng.randrange(len(vs.layers))
                    val = [k, rng.choice(num)]
                    call = lambda: setattr(vs.layers[k], "attribute", d.id[val[1]])
                else:
                    k = rng.randrange(len(vs.layers))
                    val = [k, "off_on"]

                    def call():
                        vs.layers[k].visible = False
                        vs.layers[k].visible = True
                mut = {"kind": "viewer_setting", "what": what, "value": val}
            H.mutlog.append(mut)
            ctx.count("mutations:prof:" + mut["kind"])
            try:
                call()
            except Exception as e:
                ctx.violation({"kind": "mutation_raised", "mutation": "prof:" + mut["kind"], "what": mut.get("what"),
                               "exception": type(e).__name__}, {"mutations": H.mutlog, "error": repr(e)[:300],
                                                                "model": H.model.describe()})
                return
            if not verify(mut):
                return
    finally:
        _close(viewer)
        clear_all_memo()


def _profile(ls):
    p = ls.profile
    if p is None:
        return np.array([])
    return (np.asarray(p[0], dtype=float), np.asarray(p[1], dtype=float))
