"""Dataset / selection recipes shared by the C01 and C04 drivers.

Everything is descriptor driven: `rand_leaf` returns a JSON-able description of
an elementary selection, `build_leaf` turns a description into a *new* glue
SubsetState object every time it is called (a "fresh twin": no memoised mask
can be shared between two builds, because the memo is keyed on object
identity).  `fingerprint` gives a structural description of a live state
(class + instance attributes) used to detect that an operand was altered.
"""
import operator

import numpy as np

from glue.core import Data, DataCollection
from glue.core.component_id import ComponentID
from glue.core.component_link import ComponentLink
from glue.core.parse import ParsedCommand, ParsedSubsetState
from glue.core.roi import (CategoricalROI, CircularROI, EllipticalROI, PolygonalROI, Projected3dROI, RectangularROI,
                           Roi, XRangeROI, YRangeROI)
from glue.core.subset import (CategoricalMultiRangeSubsetState, CategoricalROISubsetState, CategoricalROISubsetState2D,
                              CategorySubsetState, ElementSubsetState, FloodFillSubsetState, InequalitySubsetState,
                              MaskSubsetState, MultiRangeSubsetState, RangeSubsetState, RoiSubsetState,
                              RoiSubsetState3d, RoiSubsetStateNd, SliceSubsetState, SubsetState)
from glue.viewers.image.pixel_selection_subset_state import PixelSubsetState

from vf import common

OPS = {"gt": operator.gt, "ge": operator.ge, "lt": operator.lt, "le": operator.le, "eq": operator.eq,
       "ne": operator.ne}
CATS = ("a", "b", "c", "dd")


def _triple(w):
    return w * 3 - 1


def _halfsum(a, b):
    return (a + b) / 2.0


def _swap(x, y):
    return y, x


def _scale(x, y):
    return x * 2.0, y - 1.0


PRETRANSFORMS = {"none": None, "swap": _swap, "scale": _scale}


class World(object):
    """One main dataset `d` (label 'd') in a DataCollection with a link target `g` (an attribute of g is
    derivable on d through a ComponentLink) and an unrelated dataset `u`."""

    def __init__(self):
        self.d = None
        self.dc = None
        self.shape = None
        self.nd = 0
        self.atts = {}      # name -> ComponentID
        self.kinds = {}     # name -> stored|int|categorical|derived|linked|pixel|world
        self.coords = None
        self.u = None
        self.g = None

    def names(self, *kinds):
        return [n for n, k in self.kinds.items() if k in kinds]

    def numeric(self):
        return self.names("stored", "int", "derived", "linked", "pixel", "world")

    def full(self, name):
        return np.asarray(self.d[self.atts[name]])


def make_world(rng, shape=None, coords="random", max_dim=3, max_len=5, nd_categorical=True):
    W = World()
    if shape is None:
        shape = common.rand_shape(rng, max_dim, max_len)
    nd = len(shape)
    if coords == "random":
        coords = rng.choice(["none", "identity", "diagonal", "coupled_symmetric", "full", "coupled_triangular"])
    if nd == 1 and coords in ("coupled_symmetric", "full", "coupled_triangular", "permuted"):
        coords = "diagonal"
    cobj = common.make_coords(rng, nd, coords)
    kw = {} if cobj is None else {"coords": cobj}
    d = Data(label="d", **kw)
    d.add_component(common.rand_floats(rng, shape), "v")
    d.add_component(common.injective_floats(rng, shape), "w")
    d.add_component(common.rand_ints(rng, shape), "i")
    # large-magnitude, closely spaced values (e.g. epoch time stamps): selections on it differ in membership while their
    # bounds agree to a relative 1e-9 - aimed at tolerance-based "nothing changed" shortcuts
    d.add_component(1.6e9 + common.injective_floats(rng, shape, 0.0, 3.0 * int(np.prod(shape))), "big")
    W.d, W.shape, W.nd, W.coords = d, tuple(shape), nd, coords
    for n in ("v", "w", "big"):
        W.atts[n], W.kinds[n] = d.id[n], "stored"
    W.atts["i"], W.kinds["i"] = d.id["i"], "int"
    if nd == 1 or nd_categorical:
        n = int(np.prod(shape))
        d.add_component(common.rand_cats(rng, n, CATS).reshape(shape), "c")
        d.add_component(common.rand_cats(rng, n, CATS[:3]).reshape(shape), "c2")
        for nme in ("c", "c2"):
            W.atts[nme], W.kinds[nme] = d.id[nme], "categorical"
    d.add_component_link(d.id["w"] * 2 + d.id["v"], "der")
    der2 = ComponentID("der2")
    d.add_component_link(ComponentLink([d.id["w"], d.id["i"]], der2, using=_halfsum))
    W.atts["der"], W.kinds["der"] = d.id["der"], "derived"
    W.atts["der2"], W.kinds["der2"] = der2, "derived"
    for k, p in enumerate(d.pixel_component_ids):
        W.atts["px%d" % k], W.kinds["px%d" % k] = p, "pixel"
    if cobj is not None:
        for k, p in enumerate(d.world_component_ids):
            W.atts["wd%d" % k], W.kinds["wd%d" % k] = p, "world"
    # link target: g.x is derivable on d through a function link
    g = Data(label="g", x=np.arange(3.0))
    u = Data(label="u", q=np.arange(4.0))
    dc = DataCollection([d, g, u])
    dc.add_link(ComponentLink([d.id["w"]], g.id["x"], using=_triple))
    W.g, W.u, W.dc = g, u, dc
    W.atts["lnk"], W.kinds["lnk"] = g.id["x"], "linked"
    return W


def describe_world(W):
    return {"shape": list(W.shape), "coords": W.coords}


# ------------------------------------------------------------------ leaf recipes
LEAF_KINDS_ANY = ["ineq", "ineq_rev", "ineq2", "ineq_link", "range", "multirange", "roi2d", "roi2d_pix", "roind",
                  "roi3d", "mask", "mask_attr", "slice", "pixslice", "element", "floodfill", "empty", "parsed", "catroi",
                  "category", "ineq_cat"]
LEAF_KINDS_1D = ["cat2d", "catmulti"]
LEAF_KINDS_WORLD = ["roi2d_world", "ineq_world"]


def leaf_kinds(W):
    ks = list(LEAF_KINDS_ANY)
    if "c" not in W.atts:
        ks = [k for k in ks if k not in ("catroi", "category", "ineq_cat")]
    if W.nd == 1 and "c" in W.atts:
        ks += LEAF_KINDS_1D
    if W.names("world"):
        ks += LEAF_KINDS_WORLD
    return ks


def _finite_values(W, name):
    a = W.full(name).astype(float).ravel()
    a = a[np.isfinite(a)]
    return a if a.size else np.array([0.0])


def pick_value(rng, W, name):
    a = _finite_values(W, name)
    if W.kinds.get(name) in ("world", "derived", "linked"):
        # values of computed attributes carry evaluation-order rounding (1 ulp differences between a viewed and a full
        # evaluation): a bound that coincides with such a value is a rounding tie, on which the statements are silent.
        # Bounds on computed attributes are therefore kept away from the attribute's values.
        return float(a[rng.randrange(a.size)]) + rng.choice([0.1372931, -0.2113847, 0.5137219, -0.0731943])
    return float(a[rng.randrange(a.size)]) + rng.choice([0.0, 0.0, 0.25, -0.25, 0.5])


def pick_interval(rng, W, name):
    x, y = pick_value(rng, W, name), pick_value(rng, W, name)
    lo, hi = min(x, y), max(x, y)
    if rng.random() < 0.3:
        hi = hi + rng.choice([0.5, 1.0, 2.0])
    return lo, hi


def rand_roi(rng, W, xn, yn):
    t = rng.choice(["rect", "rect", "circ", "poly", "ellipse", "rect_rot"])
    xlo, xhi = pick_interval(rng, W, xn)
    ylo, yhi = pick_interval(rng, W, yn)
    if t == "rect":
        return {"t": "rect", "xmin": xlo, "xmax": xhi + 0.5, "ymin": ylo, "ymax": yhi + 0.5}
    if t == "rect_rot":
        return {"t": "rect", "xmin": xlo, "xmax": xhi + 1.0, "ymin": ylo, "ymax": yhi + 1.0,
                "theta": rng.choice([0.3, 1.0, 2.5])}
    if t == "circ":
        return {"t": "circ", "xc": (xlo + xhi) / 2, "yc": (ylo + yhi) / 2,
                "r": max(xhi - xlo, yhi - ylo) / 2 + rng.choice([0.3, 0.75, 1.5])}
    if t == "ellipse":
        return {"t": "ellipse", "xc": (xlo + xhi) / 2, "yc": (ylo + yhi) / 2, "rx": (xhi - xlo) / 2 + 0.6,
                "ry": (yhi - ylo) / 2 + 0.4}
    k = rng.choice([3, 4, 5])
    vx = [pick_value(rng, W, xn) + rng.uniform(-1, 1) for _ in range(k)]
    vy = [pick_value(rng, W, yn) + rng.uniform(-1, 1) for _ in range(k)]
    return {"t": "poly", "vx": vx, "vy": vy}


def build_roi(r):
    t = r["t"]
    if t == "rect":
        return RectangularROI(r["xmin"], r["xmax"], r["ymin"], r["ymax"], theta=r.get("theta"))
    if t == "circ":
        return CircularROI(r["xc"], r["yc"], r["r"])
    if t == "ellipse":
        return EllipticalROI(r["xc"], r["yc"], r["rx"], r["ry"])
    if t == "poly":
        return PolygonalROI(r["vx"], r["vy"])
    if t == "xrange":
        return XRangeROI(r["lo"], r["hi"])
    if t == "yrange":
        return YRangeROI(r["lo"], r["hi"])
    raise ValueError(t)


def rand_slice_triple(rng, n):
    a = rng.randrange(0, n + 1)
    b = rng.randrange(0, n + 1)
    st = rng.choice([None, None, 1, 2, 3])
    return rng.choice([[None, None, None], [a, b, st], [min(a, b), max(a, b), st], [a, None, st], [None, b, st],
                       [None, None, st], [0, max(a, b, 1), st]])


def close_leaf(rng, W, prev=None):
    """A range / inequality / multi-range on the large-magnitude attribute; with `prev`, the same kind of selection
    with freshly picked bounds (a user dragging a bound a little)."""
    kind = prev["k"] if prev is not None else rng.choice(["range", "range", "ineq", "multirange"])
    if kind == "range":
        lo, hi = pick_interval(rng, W, "big")
        return {"k": "range", "att": "big", "lo": lo, "hi": hi}
    if kind == "ineq":
        op = prev["op"] if prev is not None else rng.choice(["gt", "ge", "lt", "le"])
        return {"k": "ineq", "att": "big", "op": op, "val": pick_value(rng, W, "big")}
    return {"k": "multirange", "att": "big", "pairs": [list(pick_interval(rng, W, "big")) for _ in range(2)]}


def rand_leaf(rng, W, kind=None):
    if kind is None:
        kind = rng.choice(leaf_kinds(W))
    num = W.numeric()
    nonworld = [n for n in num if W.kinds[n] != "world"]
    pix = W.names("pixel")
    wld = W.names("world")
    if kind == "ineq":
        a = rng.choice(nonworld)
        return {"k": kind, "att": a, "op": rng.choice(list(OPS)), "val": pick_value(rng, W, a)}
    if kind == "ineq_world":
        a = rng.choice(wld)
        return {"k": kind, "att": a, "op": rng.choice(["gt", "ge", "lt", "le"]), "val": pick_value(rng, W, a)}
    if kind == "ineq_rev":
        a = rng.choice(nonworld)
        return {"k": kind, "att": a, "op": rng.choice(list(OPS)), "val": pick_value(rng, W, a)}
    if kind == "ineq2":
        a, b = rng.choice(nonworld), rng.choice(nonworld)
        return {"k": kind, "att": a, "op": rng.choice(["gt", "ge", "lt", "le"]), "att2": b}
    if kind == "ineq_link":
        a, b = rng.choice(["v", "w", "i", "der"]), rng.choice(["w", "i", "px0"])
        ar = rng.choice(["add", "mul", "sub"])
        return {"k": kind, "att": a, "att2": b, "arith": ar, "op": rng.choice(["gt", "le"]),
                "val": pick_value(rng, W, a)}
    if kind == "ineq_cat":
        return {"k": kind, "att": rng.choice(["c", "c2"]), "op": rng.choice(["eq", "ne"]), "val": rng.choice(CATS)}
    if kind == "range":
        a = rng.choice(num)
        lo, hi = pick_interval(rng, W, a)
        return {"k": kind, "att": a, "lo": lo, "hi": hi}
    if kind == "multirange":
        a = rng.choice(nonworld)
        return {"k": kind, "att": a, "pairs": [list(pick_interval(rng, W, a)) for _ in range(rng.randint(1, 3))]}
    if kind in ("roi2d", "roind"):
        a, b = rng.choice(nonworld), rng.choice(nonworld)
        out = {"k": kind, "atts": [a, b], "roi": rand_roi(rng, W, a, b)}
        if kind == "roind":
            out["pre"] = rng.choice(["none", "none", "swap", "scale"])
        return out
    if kind == "roi2d_pix":
        if len(pix) >= 2:
            a, b = rng.sample(pix, 2)
        else:
            a, b = pix[0], rng.choice([pix[0], "w"])
        return {"k": kind, "atts": [a, b], "roi": rand_roi(rng, W, a, b)}
    if kind == "roi2d_world":
        if len(wld) >= 2:
            a, b = rng.sample(wld, 2)
        else:
            a, b = wld[0], rng.choice([wld[0], "w", "px0"])
        return {"k": kind, "atts": [a, b], "roi": rand_roi(rng, W, a, b)}
    if kind == "roi3d":
        if len(pix) >= 3 and rng.random() < 0.5:
            atts = rng.sample(pix, 3)
        else:
            atts = [rng.choice(nonworld) for _ in range(3)]
        m = np.eye(4)
        m[0, 2] = rng.choice([0.0, 0.5, -0.25])
        m[1, 0] = rng.choice([0.0, 0.25])
        return {"k": kind, "atts": atts, "roi": rand_roi(rng, W, atts[0], atts[1]), "matrix": m.tolist()}
    if kind == "catroi":
        return {"k": kind, "att": rng.choice(["c", "c2"]), "cats": rng.sample(CATS, rng.randint(1, 3))}
    if kind == "category":
        return {"k": kind, "att": rng.choice(["c", "c2"]), "codes": rng.sample(range(4), rng.randint(1, 3))}
    if kind == "cat2d":
        sel = {}
        for c in rng.sample(CATS, rng.randint(1, 3)):
            sel[c] = sorted(rng.sample(CATS, rng.randint(1, 3)))
        return {"k": kind, "att1": "c", "att2": "c2", "sel": sel}
    if kind == "catmulti":
        a = rng.choice(["v", "w", "i", "der"])
        sel = {}
        for c in rng.sample(CATS, rng.randint(1, 3)):
            sel[c] = [list(pick_interval(rng, W, a)) for _ in range(rng.randint(1, 2))]
        return {"k": kind, "cat": rng.choice(["c", "c2"]), "num": a, "ranges": sel}
    if kind == "mask":
        n = int(np.prod(W.shape))
        p = rng.choice([0.2, 0.5, 0.8])
        return {"k": kind, "mask": np.array([rng.random() < p for _ in range(n)]).reshape(W.shape).tolist()}
    if kind == "mask_attr":
        # a mask defined over other attributes than this dataset's pixel grid: looked up by attribute value
        if W.nd >= 2 and rng.random() < 0.5:
            cids = list(reversed(pix))
            shape = [W.shape[int(n[2:])] for n in cids]
        else:
            cids = ["i"]
            shape = [12]
        n = int(np.prod(shape))
        return {"k": kind, "cids": cids, "mask": np.array([rng.random() < 0.5 for _ in range(n)]).reshape(shape).tolist()}
    if kind in ("slice", "pixslice"):
        if kind == "slice" and rng.random() < 0.12:
            # slices defined in the space of another, unaligned dataset: selects nothing here
            return {"k": kind, "slices": [rand_slice_triple(rng, 3)], "ref": "g"}
        k = W.nd if rng.random() < 0.7 else rng.randint(1, W.nd)
        slices = [rand_slice_triple(rng, W.shape[i]) for i in range(k)]
        if rng.random() < 0.12:
            # a backward slice along one axis (legal; selects the same kind of element set)
            i = rng.randrange(k)
            n = W.shape[i]
            a, b = rng.randrange(0, n), rng.randrange(0, n)
            slices[i] = rng.choice([[None, None, -1], [None, None, -2], [max(a, b), None, -1], [max(a, b), min(a, b), -1],
                                    [None, min(a, b), -2]])
        return {"k": kind, "slices": slices}
    if kind == "element":
        n = int(np.prod(W.shape))
        return {"k": kind, "indices": sorted(set(rng.randrange(n) for _ in range(rng.randint(1, max(1, n // 2))))),
                "with_data": rng.random() < 0.7}
    if kind == "floodfill":
        return {"k": kind, "att": rng.choice(["w", "i"]), "start": [rng.randrange(s) for s in W.shape],
                "thr": rng.choice([1.0, 1.2, 1.5, 1.9])}
    if kind == "empty":
        return {"k": kind}
    if kind == "parsed":
        a, b = rng.choice(["v", "w", "i", "der"]), rng.choice(["w", "i", "px0"])
        return {"k": kind, "a": a, "b": b, "va": pick_value(rng, W, a), "vb": pick_value(rng, W, b),
                "join": rng.choice(["&", "|", "^"])}
    if kind == "incompat":
        return {"k": kind, "val": rng.choice([0.5, 1.5, 2.5]), "form": rng.choice(["ineq", "range", "mask"])}
    raise ValueError(kind)


def leaf_attr_names(W, desc):
    """Names of the attributes a leaf description reads values of."""
    names = []
    for key in ("att", "att2", "att1", "cat", "num", "a", "b"):
        if key in desc and isinstance(desc[key], str) and desc[key] in W.kinds:
            names.append(desc[key])
    names += [n for n in desc.get("atts", [])]
    names += [n for n in desc.get("cids", [])]
    return sorted(set(names))


def leaf_attr_kinds(W, desc):
    """Kinds of the attributes a leaf description refers to."""
    names = []
    for key in ("att", "att2", "att1", "cat", "num", "a", "b"):
        if key in desc and isinstance(desc[key], str) and desc[key] in W.kinds:
            names.append(desc[key])
    names += [n for n in desc.get("atts", [])]
    if desc["k"] in ("mask", "slice", "pixslice", "element", "floodfill"):
        names += W.names("pixel")[:1]
    return sorted(set(W.kinds[n] for n in names))


def build_leaf(W, desc):
    k = desc["k"]
    A = W.atts
    if k in ("ineq", "ineq_world"):
        return InequalitySubsetState(A[desc["att"]], desc["val"], OPS[desc["op"]])
    if k == "ineq_rev":
        return InequalitySubsetState(desc["val"], A[desc["att"]], OPS[desc["op"]])
    if k == "ineq2":
        return InequalitySubsetState(A[desc["att"]], A[desc["att2"]], OPS[desc["op"]])
    if k == "ineq_link":
        l, r = A[desc["att"]], A[desc["att2"]]
        link = {"add": l + r, "mul": l * r, "sub": l - r}[desc["arith"]]
        return InequalitySubsetState(link, desc["val"], OPS[desc["op"]])
    if k == "ineq_cat":
        return InequalitySubsetState(A[desc["att"]], desc["val"], OPS[desc["op"]])
    if k == "range":
        return RangeSubsetState(desc["lo"], desc["hi"], A[desc["att"]])
    if k == "multirange":
        return MultiRangeSubsetState([tuple(p) for p in desc["pairs"]], A[desc["att"]])
    if k in ("roi2d", "roi2d_pix", "roi2d_world"):
        return RoiSubsetState(A[desc["atts"][0]], A[desc["atts"][1]], build_roi(desc["roi"]))
    if k == "roind":
        return RoiSubsetStateNd(atts=[A[n] for n in desc["atts"]], roi=build_roi(desc["roi"]),
                                pretransform=PRETRANSFORMS[desc["pre"]])
    if k == "roi3d":
        roi = Projected3dROI(roi_2d=build_roi(desc["roi"]), projection_matrix=np.array(desc["matrix"]))
        return RoiSubsetState3d(A[desc["atts"][0]], A[desc["atts"][1]], A[desc["atts"][2]], roi)
    if k == "catroi":
        return CategoricalROISubsetState(att=A[desc["att"]], roi=CategoricalROI(list(desc["cats"])))
    if k == "category":
        return CategorySubsetState(A[desc["att"]], list(desc["codes"]))
    if k == "cat2d":
        return CategoricalROISubsetState2D({c: set(v) for c, v in desc["sel"].items()}, A[desc["att1"]],
                                           A[desc["att2"]])
    if k == "catmulti":
        return CategoricalMultiRangeSubsetState({c: [tuple(p) for p in v] for c, v in desc["ranges"].items()},
                                                A[desc["cat"]], A[desc["num"]])
    if k == "mask":
        return MaskSubsetState(np.array(desc["mask"], dtype=bool), W.d.pixel_component_ids)
    if k == "mask_attr":
        return MaskSubsetState(np.array(desc["mask"], dtype=bool), [A[n] for n in desc["cids"]])
    if k == "slice":
        return SliceSubsetState(W.g if desc.get("ref") == "g" else W.d, [slice(*s) for s in desc["slices"]])
    if k == "pixslice":
        return PixelSubsetState(W.d, [slice(*s) for s in desc["slices"]])
    if k == "element":
        return ElementSubsetState(list(desc["indices"]), W.d if desc["with_data"] else None)
    if k == "floodfill":
        return FloodFillSubsetState(W.d, A[desc["att"]], tuple(desc["start"]), desc["thr"])
    if k == "empty":
        return SubsetState()
    if k == "parsed":
        cmd = "({a} > %r) %s ({b} <= %r)" % (desc["va"], desc["join"], desc["vb"])
        return ParsedSubsetState(ParsedCommand(cmd, {"a": A[desc["a"]], "b": A[desc["b"]]}))
    if k == "incompat":
        q = W.u.id["q"]
        if desc["form"] == "ineq":
            return InequalitySubsetState(q, desc["val"], operator.gt)
        if desc["form"] == "range":
            return RangeSubsetState(0, desc["val"], q)
        return MaskSubsetState(np.array([True, False, True, True]), W.u.pixel_component_ids)
    raise ValueError(k)


# ------------------------------------------------------------------ fingerprints
def _fp(o, depth=0):
    if depth > 12:
        return "..."
    if isinstance(o, SubsetState):
        return fingerprint(o, depth + 1)
    if isinstance(o, ComponentID):
        return ("cid", o.label, id(o))
    if isinstance(o, ComponentLink):
        return ("link", type(o).__name__, id(o))
    if isinstance(o, np.ndarray):
        return ("array", str(o.dtype), o.shape, o.tobytes())
    if isinstance(o, Roi):
        return ("roi", type(o).__name__, tuple(sorted((k, _fp(v, depth + 1)) for k, v in vars(o).items())))
    if isinstance(o, Data):
        return ("data", o.label, id(o))
    if isinstance(o, dict):
        return ("dict", tuple(sorted((repr(k), _fp(v, depth + 1)) for k, v in o.items())))
    if isinstance(o, (set, frozenset)):
        return ("set", tuple(sorted(repr(x) for x in o)))
    if isinstance(o, (list, tuple)):
        return (type(o).__name__, tuple(_fp(v, depth + 1) for v in o))
    if isinstance(o, slice):
        return ("slice", o.start, o.stop, o.step)
    if isinstance(o, float) and o != o:
        return "nan"
    if isinstance(o, (int, float, str, bool)) or o is None:
        return o
    if callable(o):
        return ("callable", getattr(o, "__qualname__", repr(o)))
    if isinstance(o, ParsedCommand):
        return ("parsed", o._cmd, tuple(sorted((k, id(v)) for k, v in o._references.items())))
    return ("obj", type(o).__name__, id(o))


IGNORED_INSTANCE_ATTRIBUTES = ("parent",)   # set by the edit modes on the incoming state; not a defining attribute


def fingerprint(state, depth=0):
    """Class + instance attributes of a state, recursively (children of composites included)."""
    items = []
    for k, v in sorted(vars(state).items()):
        if k in IGNORED_INSTANCE_ATTRIBUTES:
            continue
        items.append((k, _fp(v, depth + 1)))
    return (type(state).__name__, tuple(items))


def clear_memo_caches():
    """Bound memory between cases: drop every memoised to_mask entry (same walk glue itself uses)."""
    from glue.core.decorators import clear_cache
    classes = [SubsetState]
    seen = 0
    while classes:
        cls = classes.pop()
        f = cls.__dict__.get("to_mask")
        if f is not None:
            clear_cache(f)
            seen += 1
        classes.extend(cls.__subclasses__())
    return seen


def memo_entries():
    """Total number of memoised to_mask entries (evidence only)."""
    classes = [SubsetState]
    n = 0
    while classes:
        cls = classes.pop()
        f = cls.__dict__.get("to_mask")
        memo = getattr(f, "__memoize_cache", None) if f is not None else None
        if memo is None and f is not None:
            memo = f.__dict__.get("__memoize_cache")
        if isinstance(memo, dict):
            n += len(memo)
        classes.extend(cls.__subclasses__())
    return n
