"""Dataset / selection recipes shared by the C01 and C04 drivers.

Everything is descriptor driven: `rand_leaf` returns a JSON-able description of
an elementary selection, `build_leaf` turns a description into a *new* glue
SubsetState object every time it is called (a "fresh twin": no memoised mask
can be shared between two builds, because the memo is keyed on object
identity).  `fingerprint` gives a structural description of a live state
(class + instance attributes) used to detect that an operand was altered.
"""
import operator

import numpy as np

from glue.core import Data, DataCollection
from glue.core.link_helpers import LinkSame
from glue.core.component_id import ComponentID
from glue.core.component_link import ComponentLink
from glue.core.parse import ParsedCommand, ParsedSubsetState
from glue.core.roi import (CategoricalROI, CircularROI, EllipticalROI, PolygonalROI, Projected3dROI, RectangularROI,
                           Roi, XRangeROI, YRangeROI)
from glue.core.subset import (CategoricalMultiRangeSubsetState, CategoricalROISubsetState, CategoricalROISubsetState2D,
                              CategorySubsetState, ElementSubsetState, FloodFillSubsetState, InequalitySubsetState,
                              MaskSubsetState, MultiRangeSubsetState, RangeSubsetState, RoiSubsetState,
                              RoiSubsetState3d, RoiSubsetStateNd, SliceSubsetState, SubsetState)
from glue.viewers.image.pixel_selection_subset_state import PixelSubsetState

from vf import common

OPS = {"gt": operator.gt, "ge": operator.ge, "lt": operator.lt, "le": operator.le, "eq": operator.eq,
       "ne": operator.ne}
CATS = ("a", "ab", "abc", "dd", "b")     # different widths, shared prefixes
LAYOUTS = ["C", "C", "F", "transposed", "reversed", "strided"]
INT_DTYPES = ["int64", "int64", "int32", "int16", "int8", "uint16", ">i4"]


def with_layout(a, layout, rng=None):
    """An array equal to `a` (same dtype, shape, values) with a different memory layout."""
    a = np.asarray(a)
    if layout == "C" or a.ndim == 0 or a.size == 0:
        return np.ascontiguousarray(a)
    if layout == "F":
        return np.asfortranarray(a)
    if layout == "transposed":
        perm = list(range(a.ndim))[::-1]
        inv = np.argsort(perm)
        return np.ascontiguousarray(a.transpose(perm)).transpose(inv)
    if layout == "reversed":
        return np.ascontiguousarray(a[::-1])[::-1]
    if layout == "strided":
        big = np.zeros(a.shape[:-1] + (2 * a.shape[-1],), dtype=a.dtype)
        big[..., ::2] = a
        return big[..., ::2]
    raise ValueError(layout)


def _triple(w):
    return w * 3 - 1


def _halfsum(a, b):
    return (a + b) / 2.0


def _swap(x, y):
    return y, x


def _scale(x, y):
    return x * 2.0, y - 1.0


PRETRANSFORMS = {"none": None, "swap": _swap, "scale": _scale}


class World(object):
    """One main dataset `d` (label 'd') in a DataCollection with a link target `g` (an attribute of g is
    derivable on d through a ComponentLink) and an unrelated dataset `u`."""

    def __init__(self):
        self.d = None
        self.dc = None
        self.shape = None
        self.nd = 0
        self.atts = {}      # name -> ComponentID
        self.kinds = {}     # name -> stored|int|categorical|derived|linked|pixel|world
        self.coords = None
        self.u = None
        self.g = None
        self.p = None       # pixel-aligned dataset with permuted axes (p axis j <-> d axis p_perm[j])
        self.p_perm = None
        self.t = None       # 1-d only: table joined to d on a bijective key
        self.scale = {}     # name -> magnitude of the attribute's values (offsets of bounds are relative to it)
        self.variants = {}  # name -> {"dtype": ..., "layout": ...}

    def names(self, *kinds):
        return [n for n, k in self.kinds.items() if k in kinds]

    def numeric(self):
        return self.names("stored", "int", "derived", "linked", "pixel", "world")

    def on_p(self, mask_d):
        """The mask on p that corresponds element by element to a mask on d (through the pixel links)."""
        return np.transpose(np.asarray(mask_d), self.p_perm)

    def on_d_from_t(self, mask_t):
        """The mask on d that corresponds to a mask on the joined table t (bijective key)."""
        return np.asarray(mask_t)[self.t_row_of_d]

    def full(self, name):
        return np.asarray(self.d[self.atts[name]])


def make_world(rng, shape=None, coords="random", max_dim=3, max_len=5, nd_categorical=True, extras=True):
    W = World()
    if shape is None:
        shape = common.rand_shape(rng, max_dim, max_len)
    nd = len(shape)
    if coords == "random":
        coords = rng.choice(["none", "identity", "diagonal", "coupled_symmetric", "full", "coupled_triangular"])
    if nd == 1 and coords in ("coupled_symmetric", "full", "coupled_triangular", "permuted"):
        coords = "diagonal"
    cobj = common.make_coords(rng, nd, coords)
    kw = {} if cobj is None else {"coords": cobj}
    d = Data(label="d", **kw)
    n = int(np.prod(shape))

    def add(name, arr, kind, layout=None, scale=1.0):
        layout = layout or rng.choice(LAYOUTS)
        arr = with_layout(arr, layout)
        d.add_component(arr, name)
        W.atts[name], W.kinds[name] = d.id[name], kind
        W.scale[name] = scale
        W.variants[name] = {"dtype": str(arr.dtype), "layout": layout}

    W.d, W.shape, W.nd, W.coords = d, tuple(shape), nd, coords
    add("v", common.rand_floats(rng, shape), "stored")
    add("w", common.injective_floats(rng, shape), "stored")
    idt = rng.choice(INT_DTYPES)
    ints = common.rand_ints(rng, shape)
    add("i", (np.abs(ints) if idt.startswith("u") else ints).astype(idt), "int")
    # large-magnitude, closely spaced values (e.g. epoch time stamps): selections on it differ in membership while their
    # bounds agree to a relative 1e-9 - aimed at tolerance-based "nothing changed" shortcuts
    add("big", 1.6e9 + common.injective_floats(rng, shape, 0.0, 3.0 * n), "stored")
    if extras:
        # tiny magnitude (absolute tolerances would merge everything), other dtypes, stride-0 and dask-backed columns
        add("tiny", 1e-10 * common.injective_floats(rng, shape), "stored", scale=1e-10)
        add("f4", common.injective_floats(rng, shape).astype(np.float32), "stored")
        add("be", common.rand_floats(rng, shape, p_special=0.1).astype(">f8"), "stored")
        add("u8", np.array([rng.randrange(0, 251) for _ in range(n)], dtype=np.uint8).reshape(shape), "int")
        d.add_component(np.broadcast_to(rng.choice([0.0, 2.5, -1.0]), shape), "k0")
        W.atts["k0"], W.kinds["k0"], W.scale["k0"] = d.id["k0"], "stored", 1.0
        W.variants["k0"] = {"dtype": "float64", "layout": "broadcast"}
        try:
            if n == 0:
                raise ImportError        # dask itself cannot index a zero-size array with a boolean mask
            import dask.array as da
            d.add_component(da.from_array(common.injective_floats(rng, shape), chunks=tuple(max(1, s // 2) for s in shape)),
                            "dk")
            W.atts["dk"], W.kinds["dk"], W.scale["dk"] = d.id["dk"], "dask", 1.0
            W.variants["dk"] = {"dtype": "float64", "layout": "dask"}
        except ImportError:
            pass
    if nd == 1 or nd_categorical:
        add("c", common.rand_cats(rng, n, CATS).reshape(shape), "categorical", layout=rng.choice(["C", "F", "reversed"]))
        add("c2", common.rand_cats(rng, n, CATS[:3]).reshape(shape), "categorical", layout="C")
    d.add_component_link(d.id["w"] * 2 + d.id["v"], "der")
    der2 = ComponentID("der2")
    d.add_component_link(ComponentLink([d.id["w"], d.id["i"]], der2, using=_halfsum))
    W.atts["der"], W.kinds["der"] = d.id["der"], "derived"
    W.atts["der2"], W.kinds["der2"] = der2, "derived"
    for k, p in enumerate(d.pixel_component_ids):
        W.atts["px%d" % k], W.kinds["px%d" % k] = p, "pixel"
    if cobj is not None:
        for k, p in enumerate(d.world_component_ids):
            W.atts["wd%d" % k], W.kinds["wd%d" % k] = p, "world"
    # link target: g.x is derivable on d through a function link
    g = Data(label="g", x=np.arange(3.0))
    u = Data(label="u", q=np.arange(4.0))
    datasets = [d, g, u]
    # pixel-aligned dataset with permuted axes
    perm = list(range(nd))
    rng.shuffle(perm)
    pdat = Data(label="p", z=np.arange(float(n)).reshape(tuple(shape[a] for a in perm)))
    datasets.append(pdat)
    if nd == 1 and extras and n > 0:
        # joined table: every row of d has exactly one partner in t
        order = list(range(n))
        rng.shuffle(order)
        add("kd", np.arange(n), "int", layout="C")
        t = Data(label="t", key=np.array(order), tv=common.injective_floats(rng, (n,)),
                 tc=common.rand_cats(rng, n, CATS[:3]))
        datasets.append(t)
        W.t = t
        pos = {k: j for j, k in enumerate(order)}
        W.t_row_of_d = np.array([pos[k] for k in range(n)], dtype=int)
    dc = DataCollection(datasets)
    dc.add_link(ComponentLink([d.id["w"]], g.id["x"], using=_triple))
    for j, a in enumerate(perm):
        dc.add_link(LinkSame(d.pixel_component_ids[a], pdat.pixel_component_ids[j]))
    if W.t is not None:
        d.join_on_key(W.t, "kd", "key")
    W.g, W.u, W.dc, W.p, W.p_perm = g, u, dc, pdat, perm
    W.atts["lnk"], W.kinds["lnk"] = g.id["x"], "linked"
    for nme in W.atts:
        W.scale.setdefault(nme, 1.0)
    return W


def describe_world(W):
    return {"shape": list(W.shape), "coords": W.coords}


# ------------------------------------------------------------------ leaf recipes
LEAF_KINDS_ANY = ["ineq", "ineq_rev", "ineq2", "ineq_link", "range", "multirange", "roi2d", "roi2d_pix", "roind",
                  "roi3d", "mask", "mask_attr", "slice", "pixslice", "element", "floodfill", "empty", "parsed", "catroi",
                  "category", "ineq_cat"]
LEAF_KINDS_1D = ["cat2d", "catmulti"]
LEAF_KINDS_WORLD = ["roi2d_world", "ineq_world"]


def leaf_kinds(W):
    ks = list(LEAF_KINDS_ANY)
    if "c" not in W.atts:
        ks = [k for k in ks if k not in ("catroi", "category", "ineq_cat")]
    if W.nd == 1 and "c" in W.atts:
        ks += LEAF_KINDS_1D
    if W.names("world"):
        ks += LEAF_KINDS_WORLD
    if 0 in W.shape:
        # nothing to start a flood fill from / to index; attribute bounds are arbitrary
        ks = [k for k in ks if k not in ("floodfill", "element", "mask_attr", "cat2d", "catmulti")]
    return ks


def _finite_values(W, name):
    a = W.full(name).astype(float).ravel()
    a = a[np.isfinite(a)]
    return a if a.size else np.array([0.0])


def pick_value(rng, W, name):
    a = _finite_values(W, name)
    sc = W.scale.get(name, 1.0)
    if sc != 1.0:
        return float(a[rng.randrange(a.size)]) + sc * rng.choice([0.0, 0.0, 0.25, -0.25, 0.5])
    if W.kinds.get(name) in ("world", "derived", "linked"):
        # values of computed attributes carry evaluation-order rounding (1 ulp differences between a viewed and a full
        # evaluation): a bound that coincides with such a value is a rounding tie, on which the statements are silent.
        # Bounds on computed attributes are therefore kept away from the attribute's values.
        return float(a[rng.randrange(a.size)]) + rng.choice([0.1372931, -0.2113847, 0.5137219, -0.0731943])
    return float(a[rng.randrange(a.size)]) + rng.choice([0.0, 0.0, 0.25, -0.25, 0.5])


def pick_interval(rng, W, name):
    x, y = pick_value(rng, W, name), pick_value(rng, W, name)
    lo, hi = min(x, y), max(x, y)
    if rng.random() < 0.3:
        hi = hi + W.scale.get(name, 1.0) * rng.choice([0.5, 1.0, 2.0])
    return lo, hi


def rand_roi(rng, W, xn, yn):
    t = rng.choice(["rect", "rect", "circ", "poly", "ellipse", "rect_rot"])
    xlo, xhi = pick_interval(rng, W, xn)
    ylo, yhi = pick_interval(rng, W, yn)
    if t == "rect":
        return {"t": "rect", "xmin": xlo, "xmax": xhi + 0.5, "ymin": ylo, "ymax": yhi + 0.5}
    if t == "rect_rot":
        return {"t": "rect", "xmin": xlo, "xmax": xhi + 1.0, "ymin": ylo, "ymax": yhi + 1.0,
                "theta": rng.choice([0.3, 1.0, 2.5])}
    if t == "circ":
        return {"t": "circ", "xc": (xlo + xhi) / 2, "yc": (ylo + yhi) / 2,
                "r": max(xhi - xlo, yhi - ylo) / 2 + rng.choice([0.3, 0.75, 1.5])}
    if t == "ellipse":
        return {"t": "ellipse", "xc": (xlo + xhi) / 2, "yc": (ylo + yhi) / 2, "rx": (xhi - xlo) / 2 + 0.6,
                "ry": (yhi - ylo) / 2 + 0.4}
    k = rng.choice([3, 4, 5])
    vx = [pick_value(rng, W, xn) + rng.uniform(-1, 1) for _ in range(k)]
    vy = [pick_value(rng, W, yn) + rng.uniform(-1, 1) for _ in range(k)]
    return {"t": "poly", "vx": vx, "vy": vy}


def build_roi(r):
    t = r["t"]
    if t == "undefined":
        return RectangularROI()
    if t == "rect":
        return RectangularROI(r["xmin"], r["xmax"], r["ymin"], r["ymax"], theta=r.get("theta"))
    if t == "circ":
        return CircularROI(r["xc"], r["yc"], r["r"])
    if t == "ellipse":
        return EllipticalROI(r["xc"], r["yc"], r["rx"], r["ry"])
    if t == "poly":
        return PolygonalROI(r["vx"], r["vy"])
    if t == "xrange":
        return XRangeROI(r["lo"], r["hi"])
    if t == "yrange":
        return YRangeROI(r["lo"], r["hi"])
    raise ValueError(t)


def rand_slice_triple(rng, n):
    a = rng.randrange(0, n + 1)
    b = rng.randrange(0, n + 1)
    st = rng.choice([None, None, 1, 2, 3])
    return rng.choice([[None, None, None], [a, b, st], [min(a, b), max(a, b), st], [a, None, st], [None, b, st],
                       [None, None, st], [0, max(a, b, 1), st]])


def close_leaf(rng, W, prev=None):
    """A range / inequality / multi-range on the large-magnitude attribute; with `prev`, the same kind of selection
    with freshly picked bounds (a user dragging a bound a little)."""
    kind = prev["k"] if prev is not None else rng.choice(["range", "range", "ineq", "multirange"])
    if kind == "range":
        lo, hi = pick_interval(rng, W, "big")
        return {"k": "range", "att": "big", "lo": lo, "hi": hi}
    if kind == "ineq":
        op = prev["op"] if prev is not None else rng.choice(["gt", "ge", "lt", "le"])
        return {"k": "ineq", "att": "big", "op": op, "val": pick_value(rng, W, "big")}
    return {"k": "multirange", "att": "big", "pairs": [list(pick_interval(rng, W, "big")) for _ in range(2)]}


NUM_TYPES = {"py_float": float, "py_int": lambda x: int(round(x)), "np_float32": np.float32, "np_float64": np.float64,
             "np_int64": lambda x: np.int64(round(x))}


def _num(desc, key):
    """The number stored under `key`, converted to the scalar type recorded next to it (Python / numpy scalars)."""
    return NUM_TYPES[desc.get(key + "_type", "py_float")](desc[key])


P_EDGE = 0.18      # share of leaves that take a falsy / extreme / unusual-but-legal parameter value


def _edge(rng, W, d):
    """Turn a regular leaf description into an edge variant of the same kind (records d['variant'])."""
    k = d["k"]
    if k in ("ineq", "ineq_rev", "ineq_world"):
        v = rng.choice(["zero", "py_int", "np_float32", "np_int64", "np_float64"])
        if k == "ineq_world" or W.kinds.get(d["att"]) in ("world", "derived", "linked"):
            # integer-typed bounds round onto whole numbers, which computed attributes of tidy transformations take
            # exactly in one evaluation order and 1 ulp off in another (rounding tie, see pick_value): float types only
            v = rng.choice(["np_float32", "np_float64"])
        if v == "zero":
            d["val"] = 0
            d["val_type"] = "py_int"
        else:
            d["val_type"] = v
    elif k == "range":
        v = rng.choice(["degenerate", "reversed", "infinite", "nan", "np_scalars", "zero_zero"])
        computed = W.kinds.get(d["att"]) in ("world", "derived", "linked")
        if v == "zero_zero" and computed:
            v = "degenerate"
        if v == "degenerate" and computed:
            # an exact value of a computed attribute is a rounding tie (see pick_value): the degenerate interval of a
            # computed attribute lies between values, not on one
            d["lo"] = d["hi"] = pick_value(rng, W, d["att"])
        elif v == "degenerate":
            a = _finite_values(W, d["att"])
            d["lo"] = d["hi"] = float(a[rng.randrange(a.size)])
        elif v == "reversed":
            d["lo"], d["hi"] = d["hi"] + W.scale.get(d["att"], 1.0), d["lo"]
        elif v == "infinite":
            d[rng.choice(["lo", "hi"])] = rng.choice([float("inf"), float("-inf")])
        elif v == "nan":
            d[rng.choice(["lo", "hi"])] = float("nan")
        elif v == "np_scalars":
            d["lo_type"], d["hi_type"] = "np_float64", ("np_float32" if computed else rng.choice(["np_float32", "np_int64"]))
        else:
            d["lo"], d["hi"], d["lo_type"], d["hi_type"] = 0, 0, "py_int", "py_int"
    elif k == "multirange":
        v = rng.choice(["empty_pairs", "reversed_pair", "duplicate_pair"])
        if v == "empty_pairs":
            d["pairs"] = []
        elif v == "reversed_pair":
            d["pairs"] = [[hi, lo] for lo, hi in d["pairs"]]
        else:
            d["pairs"] = d["pairs"] + [list(d["pairs"][0])]
    elif k in ("roi2d", "roind", "roi2d_pix", "roi2d_world"):
        v = rng.choice(["undefined", "zero_radius", "degenerate_rect", "two_vertices"])
        r = d["roi"]
        if v == "undefined":
            d["roi"] = {"t": "undefined"}
        elif v == "zero_radius":
            d["roi"] = {"t": "circ", "xc": r.get("xc", r.get("xmin", 0.0)), "yc": r.get("yc", r.get("ymin", 0.0)), "r": 0.0}
        elif v == "degenerate_rect":
            x, y = r.get("xmin", r.get("xc", 0.0)), r.get("ymin", r.get("yc", 0.0))
            d["roi"] = {"t": "rect", "xmin": x, "xmax": x, "ymin": y, "ymax": y + 1.0}
        else:
            d["roi"] = {"t": "poly", "vx": [0.0, 1.0], "vy": [0.0, 1.0]}
    elif k == "catroi":
        v = rng.choice(["no_categories", "absent_label"])
        d["cats"] = [] if v == "no_categories" else list(d["cats"]) + ["zz"]
    elif k == "category":
        v = rng.choice(["no_codes", "float_codes", "duplicate_codes", "absent_code", "negative_code"])
        d["codes"] = {"no_codes": [], "float_codes": [float(c) for c in d["codes"]],
                      "duplicate_codes": list(d["codes"]) + [d["codes"][0]], "absent_code": list(d["codes"]) + [99],
                      "negative_code": [-1] + list(d["codes"])}[v]
    elif k == "cat2d":
        v = rng.choice(["empty_dict", "empty_set"])
        d["sel"] = {} if v == "empty_dict" else {c: [] for c in d["sel"]}
    elif k == "catmulti":
        v = rng.choice(["empty_dict", "empty_ranges"])
        d["ranges"] = {} if v == "empty_dict" else {c: [] for c in d["ranges"]}
    elif k == "mask":
        v = rng.choice(["all_false", "all_true", "uint8", "int64", "float64", "nested_list", "fortran"])
        if v == "all_false":
            d["mask"] = np.zeros(W.shape, dtype=bool).tolist()
        elif v == "all_true":
            d["mask"] = np.ones(W.shape, dtype=bool).tolist()
        else:
            d["mask_as"] = v
    elif k in ("slice", "pixslice") and d.get("ref") is None:
        v = "no_slices"
        d["slices"] = []
    elif k == "element":
        v = rng.choice(["no_indices", "none", "negative", "duplicate_unordered", "ndarray"])
        n = int(np.prod(W.shape))
        if v == "no_indices":
            d["indices"] = []
        elif v == "none":
            d["indices"] = None
        elif v == "negative":
            d["indices"] = [-1 - rng.randrange(n)] + list(d["indices"])
        elif v == "duplicate_unordered":
            d["indices"] = list(reversed(d["indices"])) + list(d["indices"][:1])
        else:
            d["indices_as"] = v
    elif k == "parsed":
        v = rng.choice(["reduction_inside", "scalar_result"])
        d["form"] = v
    else:
        return d
    d["variant"] = v
    return d


def rand_leaf(rng, W, kind=None, edge=None):
    d = _rand_leaf(rng, W, kind)
    if edge is None:
        edge = rng.random() < P_EDGE
    if edge:
        d = _edge(rng, W, d)
    return d


def near_copy(rng, W, desc):
    """A selection of the same kind as `desc` on the large-magnitude attribute with freshly picked bounds: the bounds of
    the two agree to a relative ~1e-9 .. 1e-7 but (usually) select different elements."""
    return close_leaf(rng, W, desc if desc.get("att") == "big" and desc["k"] in ("range", "ineq", "multirange") else None)


def join_leaf(rng, W):
    """A selection defined on the joined table t (reached from d through the key join only)."""
    k = rng.choice(["join_ineq", "join_range", "join_cat"])
    a = np.asarray(W.t["tv"])
    x, y = float(a[rng.randrange(a.size)]) + 0.25, float(a[rng.randrange(a.size)]) - 0.25
    if k == "join_ineq":
        return {"k": k, "op": rng.choice(["gt", "le"]), "val": x}
    if k == "join_range":
        return {"k": k, "lo": min(x, y), "hi": max(x, y) + 0.5}
    return {"k": k, "cats": rng.sample(CATS[:3], rng.randint(1, 2))}


def _rand_leaf(rng, W, kind=None):
    if kind is None:
        kind = rng.choice(leaf_kinds(W))
    num = W.numeric()
    nonworld = [n for n in num if W.kinds[n] != "world"]
    pix = W.names("pixel")
    wld = W.names("world")
    if kind in ("ineq", "range", "multirange") and "dk" in W.atts and rng.random() < 0.06:
        nonworld = num = ["dk"]
    if kind == "ineq":
        a = rng.choice(nonworld)
        return {"k": kind, "att": a, "op": rng.choice(list(OPS)), "val": pick_value(rng, W, a)}
    if kind == "ineq_world":
        a = rng.choice(wld)
        return {"k": kind, "att": a, "op": rng.choice(["gt", "ge", "lt", "le"]), "val": pick_value(rng, W, a)}
    if kind == "ineq_rev":
        a = rng.choice(nonworld)
        return {"k": kind, "att": a, "op": rng.choice(list(OPS)), "val": pick_value(rng, W, a)}
    if kind == "ineq2":
        a, b = rng.choice(nonworld), rng.choice(nonworld)
        return {"k": kind, "att": a, "op": rng.choice(["gt", "ge", "lt", "le"]), "att2": b}
    if kind == "ineq_link":
        a, b = rng.choice(["v", "w", "i", "der"]), rng.choice(["w", "i", "px0"])
        ar = rng.choice(["add", "mul", "sub"])
        return {"k": kind, "att": a, "att2": b, "arith": ar, "op": rng.choice(["gt", "le"]),
                "val": pick_value(rng, W, a)}
    if kind == "ineq_cat":
        return {"k": kind, "att": rng.choice(["c", "c2"]), "op": rng.choice(["eq", "ne"]), "val": rng.choice(CATS)}
    if kind == "range":
        a = rng.choice(num)
        lo, hi = pick_interval(rng, W, a)
        return {"k": kind, "att": a, "lo": lo, "hi": hi}
    if kind == "multirange":
        a = rng.choice(nonworld)
        return {"k": kind, "att": a, "pairs": [list(pick_interval(rng, W, a)) for _ in range(rng.randint(1, 3))]}
    if kind in ("roi2d", "roind"):
        a, b = rng.choice(nonworld), rng.choice(nonworld)
        out = {"k": kind, "atts": [a, b], "roi": rand_roi(rng, W, a, b)}
        if kind == "roind":
            out["pre"] = rng.choice(["none", "none", "swap", "scale"])
        return out
    if kind == "roi2d_pix":
        if len(pix) >= 2:
            a, b = rng.sample(pix, 2)
        else:
            a, b = pix[0], rng.choice([pix[0], "w"])
        return {"k": kind, "atts": [a, b], "roi": rand_roi(rng, W, a, b)}
    if kind == "roi2d_world":
        if len(wld) >= 2:
            a, b = rng.sample(wld, 2)
        else:
            a, b = wld[0], rng.choice([wld[0], "w", "px0"])
        return {"k": kind, "atts": [a, b], "roi": rand_roi(rng, W, a, b)}
    if kind == "roi3d":
        if len(pix) >= 3 and rng.random() < 0.5:
            atts = rng.sample(pix, 3)
        else:
            atts = [rng.choice(nonworld) for _ in range(3)]
        m = np.eye(4)
        m[0, 2] = rng.choice([0.0, 0.5, -0.25])
        m[1, 0] = rng.choice([0.0, 0.25])
        return {"k": kind, "atts": atts, "roi": rand_roi(rng, W, atts[0], atts[1]), "matrix": m.tolist()}
    if kind == "catroi":
        return {"k": kind, "att": rng.choice(["c", "c2"]), "cats": rng.sample(CATS, rng.randint(1, 3))}
    if kind == "category":
        return {"k": kind, "att": rng.choice(["c", "c2"]), "codes": rng.sample(range(4), rng.randint(1, 3))}
    if kind == "cat2d":
        sel = {}
        for c in rng.sample(CATS, rng.randint(1, 3)):
            sel[c] = sorted(rng.sample(CATS, rng.randint(1, 3)))
        return {"k": kind, "att1": "c", "att2": "c2", "sel": sel}
    if kind == "catmulti":
        a = rng.choice(["v", "w", "i", "der"])
        sel = {}
        for c in rng.sample(CATS, rng.randint(1, 3)):
            sel[c] = [list(pick_interval(rng, W, a)) for _ in range(rng.randint(1, 2))]
        return {"k": kind, "cat": rng.choice(["c", "c2"]), "num": a, "ranges": sel}
    if kind == "mask":
        n = int(np.prod(W.shape))
        p = rng.choice([0.2, 0.5, 0.8])
        return {"k": kind, "mask": np.array([rng.random() < p for _ in range(n)]).reshape(W.shape).tolist()}
    if kind == "mask_attr":
        # a mask defined over other attributes than this dataset's pixel grid: looked up by attribute value
        if W.nd >= 2 and rng.random() < 0.5:
            cids = list(reversed(pix))
            shape = [W.shape[int(n[2:])] for n in cids]
        else:
            cids = ["i"]
            shape = [12]
        n = int(np.prod(shape))
        return {"k": kind, "cids": cids, "mask": np.array([rng.random() < 0.5 for _ in range(n)]).reshape(shape).tolist()}
    if kind in ("slice", "pixslice"):
        if kind == "slice" and rng.random() < 0.12:
            # slices defined in the space of another, unaligned dataset: selects nothing here
            return {"k": kind, "slices": [rand_slice_triple(rng, 3)], "ref": "g"}
        k = W.nd if rng.random() < 0.7 else rng.randint(1, W.nd)
        slices = [rand_slice_triple(rng, W.shape[i]) for i in range(k)]
        if rng.random() < 0.12 and 0 not in W.shape:
            # a backward slice along one axis (legal; selects the same kind of element set)
            i = rng.randrange(k)
            n = W.shape[i]
            a, b = rng.randrange(0, n), rng.randrange(0, n)
            slices[i] = rng.choice([[None, None, -1], [None, None, -2], [max(a, b), None, -1], [max(a, b), min(a, b), -1],
                                    [None, min(a, b), -2]])
        return {"k": kind, "slices": slices}
    if kind == "element":
        n = int(np.prod(W.shape))
        return {"k": kind, "indices": sorted(set(rng.randrange(n) for _ in range(rng.randint(1, max(1, n // 2))))),
                "with_data": rng.random() < 0.7}
    if kind == "floodfill":
        return {"k": kind, "att": rng.choice(["w", "i"]), "start": [rng.randrange(s) for s in W.shape],
                "thr": rng.choice([1.0, 1.2, 1.5, 1.9])}
    if kind == "empty":
        return {"k": kind}
    if kind == "parsed":
        a, b = rng.choice(["v", "w", "i", "der"]), rng.choice(["w", "i", "px0"])
        return {"k": kind, "a": a, "b": b, "va": pick_value(rng, W, a), "vb": pick_value(rng, W, b),
                "join": rng.choice(["&", "|", "^"])}
    if kind == "incompat":
        return {"k": kind, "val": rng.choice([0.5, 1.5, 2.5]), "form": rng.choice(["ineq", "range", "mask"])}
    raise ValueError(kind)


def leaf_attr_names(W, desc):
    """Names of the attributes a leaf description reads values of."""
    names = []
    for key in ("att", "att2", "att1", "cat", "num", "a", "b"):
        if key in desc and isinstance(desc[key], str) and desc[key] in W.kinds:
            names.append(desc[key])
    names += [n for n in desc.get("atts", [])]
    names += [n for n in desc.get("cids", [])]
    return sorted(set(names))


def leaf_attr_kinds(W, desc):
    """Kinds of the attributes a leaf description refers to."""
    names = []
    for key in ("att", "att2", "att1", "cat", "num", "a", "b"):
        if key in desc and isinstance(desc[key], str) and desc[key] in W.kinds:
            names.append(desc[key])
    names += [n for n in desc.get("atts", [])]
    if desc["k"] in ("mask", "slice", "pixslice", "element", "floodfill"):
        names += W.names("pixel")[:1]
    return sorted(set(W.kinds[n] for n in names))


def build_leaf(W, desc):
    k = desc["k"]
    A = W.atts
    if k in ("ineq", "ineq_world"):
        return InequalitySubsetState(A[desc["att"]], _num(desc, "val"), OPS[desc["op"]])
    if k == "ineq_rev":
        return InequalitySubsetState(_num(desc, "val"), A[desc["att"]], OPS[desc["op"]])
    if k == "join_ineq":
        return InequalitySubsetState(W.t.id["tv"], desc["val"], OPS[desc["op"]])
    if k == "join_range":
        return RangeSubsetState(desc["lo"], desc["hi"], W.t.id["tv"])
    if k == "join_cat":
        return CategoricalROISubsetState(att=W.t.id["tc"], roi=CategoricalROI(list(desc["cats"])))
    if k == "ineq2":
        return InequalitySubsetState(A[desc["att"]], A[desc["att2"]], OPS[desc["op"]])
    if k == "ineq_link":
        l, r = A[desc["att"]], A[desc["att2"]]
        link = {"add": l + r, "mul": l * r, "sub": l - r}[desc["arith"]]
        return InequalitySubsetState(link, desc["val"], OPS[desc["op"]])
    if k == "ineq_cat":
        return InequalitySubsetState(A[desc["att"]], desc["val"], OPS[desc["op"]])
    if k == "range":
        return RangeSubsetState(_num(desc, "lo"), _num(desc, "hi"), A[desc["att"]])
    if k == "multirange":
        return MultiRangeSubsetState([tuple(p) for p in desc["pairs"]], A[desc["att"]])
    if k in ("roi2d", "roi2d_pix", "roi2d_world"):
        return RoiSubsetState(A[desc["atts"][0]], A[desc["atts"][1]], build_roi(desc["roi"]))
    if k == "roind":
        return RoiSubsetStateNd(atts=[A[n] for n in desc["atts"]], roi=build_roi(desc["roi"]),
                                pretransform=PRETRANSFORMS[desc["pre"]])
    if k == "roi3d":
        roi = Projected3dROI(roi_2d=build_roi(desc["roi"]), projection_matrix=np.array(desc["matrix"]))
        return RoiSubsetState3d(A[desc["atts"][0]], A[desc["atts"][1]], A[desc["atts"][2]], roi)
    if k == "catroi":
        return CategoricalROISubsetState(att=A[desc["att"]], roi=CategoricalROI(list(desc["cats"])))
    if k == "category":
        return CategorySubsetState(A[desc["att"]], list(desc["codes"]))
    if k == "cat2d":
        return CategoricalROISubsetState2D({c: set(v) for c, v in desc["sel"].items()}, A[desc["att1"]],
                                           A[desc["att2"]])
    if k == "catmulti":
        return CategoricalMultiRangeSubsetState({c: [tuple(p) for p in v] for c, v in desc["ranges"].items()},
                                                A[desc["cat"]], A[desc["num"]])
    if k == "mask":
        m = np.array(desc["mask"], dtype=bool).reshape(W.shape)
        how = desc.get("mask_as")
        if how in ("uint8", "int64", "float64"):
            m = m.astype(how)
        elif how == "nested_list":
            m = m.tolist()
        elif how == "fortran":
            m = np.asfortranarray(m)
        return MaskSubsetState(m, W.d.pixel_component_ids)
    if k == "mask_attr":
        return MaskSubsetState(np.array(desc["mask"], dtype=bool), [A[n] for n in desc["cids"]])
    if k == "slice":
        return SliceSubsetState(W.g if desc.get("ref") == "g" else W.d, [slice(*s) for s in desc["slices"]])
    if k == "pixslice":
        return PixelSubsetState(W.d, [slice(*s) for s in desc["slices"]])
    if k == "element":
        ind = desc["indices"]
        if ind is not None:
            ind = np.array(ind, dtype=np.int64) if desc.get("indices_as") == "ndarray" else list(ind)
        return ElementSubsetState(ind, W.d if desc["with_data"] else None)
    if k == "floodfill":
        return FloodFillSubsetState(W.d, A[desc["att"]], tuple(desc["start"]), desc["thr"])
    if k == "empty":
        return SubsetState()
    if k == "parsed":
        if desc.get("form") == "reduction_inside":
            # element-wise result whose operands contain reductions over whole attributes
            cmd = "({a} > np.nanmean({a})) %s ({b} <= 0.5 * ({b}.max() + %r))" % (desc["join"], desc["vb"])
        elif desc.get("form") == "scalar_result":
            cmd = "np.nanmax({a}) > %r" % (desc["va"],)
        else:
            cmd = "({a} > %r) %s ({b} <= %r)" % (desc["va"], desc["join"], desc["vb"])
        return ParsedSubsetState(ParsedCommand(cmd, {"a": A[desc["a"]], "b": A[desc["b"]]}))
    if k == "incompat":
        q = W.u.id["q"]
        if desc["form"] == "ineq":
            return InequalitySubsetState(q, desc["val"], operator.gt)
        if desc["form"] == "range":
            return RangeSubsetState(0, desc["val"], q)
        return MaskSubsetState(np.array([True, False, True, True]), W.u.pixel_component_ids)
    raise ValueError(k)


# ------------------------------------------------------------------ more views
EXT_VIEW_KINDS = ["np_int_mix", "neg_int_mix", "backward_slices", "neg_index_arrays", "index_arrays_2d", "bool_mask_fortran",
                  "bool_mask_all_false", "np_all_int", "index_arrays_same_ndim"]


def make_view_ext(rng, shape, kind):
    """Views beyond vf.common's: numpy integer scalars, negative integers, backward slices, index arrays with negative
    entries / of 2-d shape, boolean masks with a non-C layout or selecting nothing."""
    nd = len(shape)
    if kind in ("np_int_mix", "np_all_int"):
        base = common.make_view(rng, shape, "int_slice_mix" if (kind == "np_int_mix" and nd > 1) else "all_int")
        typ = rng.choice([np.int64, np.int32, np.intp, np.uint8])
        return tuple(typ(v) if isinstance(v, int) else v for v in base)
    if kind == "neg_int_mix":
        v = [common.rand_slice(rng, s) if rng.random() < 0.5 else rng.randrange(s) for s in shape]
        i = rng.randrange(nd)
        v[i] = -1 - rng.randrange(shape[i])
        return tuple(v)
    if kind == "backward_slices":
        v = [common.rand_slice(rng, s) for s in shape]
        i = rng.randrange(nd)
        n = shape[i]
        a, b = rng.randrange(0, n), rng.randrange(0, n)
        v[i] = rng.choice([slice(None, None, -1), slice(None, None, -2), slice(max(a, b), None, -1),
                           slice(max(a, b), min(a, b), -1), slice(None, min(a, b), -2), slice(max(a, b), None, -3)])
        return tuple(v)
    if kind == "neg_index_arrays":
        k = rng.randint(1, 6)
        return tuple(np.array([rng.randrange(-s, s) for _ in range(k)]) for s in shape)
    if kind == "index_arrays_2d":
        return tuple(np.array([rng.randrange(s) for _ in range(6)]).reshape(2, 3) for s in shape)
    if kind == "index_arrays_same_ndim":
        # index arrays whose common shape has as many dimensions as the dataset (the result looks like a pixel grid)
        shp = (2,) * nd
        return tuple(np.array([rng.randrange(s) for _ in range(2 ** nd)]).reshape(shp) for s in shape)
    if kind == "bool_mask_fortran":
        return with_layout(common.make_view(rng, shape, "bool_mask"), rng.choice(["F", "transposed", "reversed", "strided"]))
    if kind == "bool_mask_all_false":
        return np.zeros(shape, dtype=bool)
    raise ValueError(kind)


def invalid_view(rng, shape):
    """A view that numpy itself rejects for this shape (used for fault sequences)."""
    nd = len(shape)
    kind = rng.choice(["int_out_of_range", "too_many_indices", "bool_mask_wrong_shape", "index_array_out_of_range"])
    if kind == "int_out_of_range":
        v = [slice(None)] * nd
        i = rng.randrange(nd)
        v[i] = shape[i] + rng.randint(0, 3)
        return kind, tuple(v)
    if kind == "too_many_indices":
        return kind, tuple([0] * (nd + 1))
    if kind == "bool_mask_wrong_shape":
        return kind, np.ones(tuple(s + 1 for s in shape), dtype=bool)
    return kind, tuple(np.array([0, s + 2]) for s in shape)


# ------------------------------------------------------------------ chunk limits
_CHUNK_LIMIT = [None]
_PATCHED = [False]


def set_chunk_limit(n):
    """Make the chunked code paths of glue.core.subset / glue.core.roi (iterate_chunks(..., n_max=1000000)) use chunks of
    at most n elements (None: the real constant).  Results must not depend on it: the constant is internal."""
    if not _PATCHED[0]:
        import glue.core.roi as roi_mod
        import glue.core.subset as subset_mod
        from glue.utils import iterate_chunks as real

        def small_chunks(shape, chunk_shape=None, n_max=None):
            if _CHUNK_LIMIT[0] is not None and n_max is not None:
                n_max = min(n_max, _CHUNK_LIMIT[0])
            return real(shape, chunk_shape=chunk_shape, n_max=n_max)
        for mod in (roi_mod, subset_mod):
            if getattr(mod, "iterate_chunks", None) is real:
                mod.iterate_chunks = small_chunks
        _PATCHED[0] = True
    _CHUNK_LIMIT[0] = n


# ------------------------------------------------------------------ fingerprints
def _fp(o, depth=0):
    if depth > 12:
        return "..."
    if isinstance(o, SubsetState):
        return fingerprint(o, depth + 1)
    if isinstance(o, ComponentID):
        return ("cid", o.label, id(o))
    if isinstance(o, ComponentLink):
        return ("link", type(o).__name__, id(o))
    if isinstance(o, np.ndarray):
        return ("array", str(o.dtype), o.shape, o.tobytes())
    if isinstance(o, Roi):
        return ("roi", type(o).__name__, tuple(sorted((k, _fp(v, depth + 1)) for k, v in vars(o).items())))
    if isinstance(o, Data):
        return ("data", o.label, id(o))
    if isinstance(o, dict):
        return ("dict", tuple(sorted((repr(k), _fp(v, depth + 1)) for k, v in o.items())))
    if isinstance(o, (set, frozenset)):
        return ("set", tuple(sorted(repr(x) for x in o)))
    if isinstance(o, (list, tuple)):
        return (type(o).__name__, tuple(_fp(v, depth + 1) for v in o))
    if isinstance(o, slice):
        return ("slice", o.start, o.stop, o.step)
    if isinstance(o, float) and o != o:
        return "nan"
    if isinstance(o, (int, float, str, bool)) or o is None:
        return o
    if callable(o):
        return ("callable", getattr(o, "__qualname__", repr(o)))
    if isinstance(o, ParsedCommand):
        return ("parsed", o._cmd, tuple(sorted((k, id(v)) for k, v in o._references.items())))
    return ("obj", type(o).__name__, id(o))


IGNORED_INSTANCE_ATTRIBUTES = ("parent",)   # set by the edit modes on the incoming state; not a defining attribute


def fingerprint(state, depth=0):
    """Class + instance attributes of a state, recursively (children of composites included)."""
    items = []
    for k, v in sorted(vars(state).items()):
        if k in IGNORED_INSTANCE_ATTRIBUTES:
            continue
        items.append((k, _fp(v, depth + 1)))
    return (type(state).__name__, tuple(items))


def clear_memo_caches():
    """Bound memory between cases: drop every memoised to_mask entry (same walk glue itself uses)."""
    from glue.core.decorators import clear_cache
    classes = [SubsetState]
    seen = 0
    while classes:
        cls = classes.pop()
        f = cls.__dict__.get("to_mask")
        if f is not None:
            clear_cache(f)
            seen += 1
        classes.extend(cls.__subclasses__())
    return seen


def memo_entries():
    """Total number of memoised to_mask entries (evidence only)."""
    classes = [SubsetState]
    n = 0
    while classes:
        cls = classes.pop()
        f = cls.__dict__.get("to_mask")
        memo = getattr(f, "__memoize_cache", None) if f is not None else None
        if memo is None and f is not None:
            memo = f.__dict__.get("__memoize_cache")
        if isinstance(memo, dict):
            n += len(memo)
        classes.extend(cls.__subclasses__())
    return n
