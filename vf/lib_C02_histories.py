"""Histories applied to a built session BEFORE it is saved (adversarial widening
round, themes 5, 7, 9, 12): the collection is changed through its public API -
datasets removed from the middle / re-appended, groups removed from the middle,
undo / redo through the real CommandStack, merge, values / labels / styles
changed after the groups exist, links replaced atomically or re-added, joins
made twice, a component removed while a selection still refers to it,
everything removed at once - and the descriptor is kept in step, so that the
usual observe / save / load / observe comparison of C02 and C12 applies to the
collection *as it is when saved*.

`apply_history(rng, ses, name)` -> tag (str) or None when the session does not
meet the history's preconditions (tallied by the driver).
"""
from vf import common
from vf import lib_C02_sessions as L

HISTORIES = ["remove_middle", "readd", "remove_group_middle", "undo_redo", "merge", "change_values", "change_labels_styles",
             "set_links_atomic", "relink_stepwise", "join_twice", "remove_referred_component", "clear_all",
             "empty_collection", "group_in_the_middle"]


# session options under which a history's preconditions are (nearly) always met
HISTORY_OPTS = {
    "remove_middle": {"n_data": 3}, "readd": {"n_data": 3}, "remove_group_middle": {"min_groups": 3},
    "undo_redo": {}, "merge": {"n_data": 3, "same_shapes": True, "links": False, "joins": False,
                               "order_mode": "plain", "label_collisions": False},
    "change_values": {}, "change_labels_styles": {}, "set_links_atomic": {"n_data": 2, "want_link": "LinkSame"},
    "relink_stepwise": {"n_data": 2, "want_link": "LinkTwoWay"}, "join_twice": {"n_data": 2, "want_join": "n-n"},
    "remove_referred_component": {}, "clear_all": {}, "empty_collection": {}, "group_in_the_middle": {"min_groups": 2},
}


def reorder(ses, order, removed=()):
    """Datasets now stand in `order` (old indices; the removed ones last): renumber the descriptor."""
    desc = ses.desc
    order = list(order) + [i for i in removed]
    new = {old: k for k, old in enumerate(order)}
    desc["data"] = [desc["data"][i] for i in order]
    ses.ds = [ses.ds[i] for i in order]
    for l in desc["links"]:
        l["between"] = [new[i] for i in l["between"]]
    for j in desc["joins"]:
        j["between"] = [new[i] for i in j["between"]]
    for g in desc["groups"]:
        g["on"] = new[g["on"]]
    if removed:
        desc["removed"] = len(order) - len(removed)


def simple_sig(op="gt"):
    return {"state": "InequalitySubsetState", "op": op, "form": "cid_const", "att": "value", "leaf_kind": "inequality",
            "nested": False}


def apply_history(rng, ses, name):
    dc, desc = ses.dc, ses.desc
    n = len(dc)
    if name == "remove_middle":
        # a dataset that is not the last one leaves; links to it go with it, selections over its attributes stay
        if n < 2:
            return None
        r = rng.randrange(0, n - 1)
        if any(r in l["between"] for l in desc["links"]) or any(r in j["between"] for j in desc["joins"]):
            # keep the leaving dataset free of links / joins (see the note on stale link access in lib_C02_sessions)
            cand = [i for i in range(n - 1) if not any(i in l["between"] for l in desc["links"])
                    and not any(i in j["between"] for j in desc["joins"])]
            if not cand:
                return None
            r = rng.choice(cand)
        dc.remove(ses.ds[r].data)
        reorder(ses, [i for i in range(n) if i != r], removed=[r])
        return "remove_middle:%s" % ("first" if r == 0 else "inner")
    if name == "readd":
        # do - remove - re-add: the dataset comes back at the end and gets fresh subsets of every group
        if n < 2:
            return None
        cand = [i for i in range(n) if not any(i in l["between"] for l in desc["links"])]
        if not cand:
            return None
        r = rng.choice(cand)
        d = ses.ds[r].data
        dc.remove(d)
        dc.append(d)
        reorder(ses, [i for i in range(n) if i != r] + [r])
        return "readd"
    if name == "remove_group_middle":
        if len(dc.subset_groups) < 3:
            return None
        j = rng.randrange(1, len(dc.subset_groups) - 1)
        dc.remove_subset_group(dc.subset_groups[j])
        del desc["groups"][j]
        return "remove_group_middle"
    if name == "group_in_the_middle":
        # a group whose label / state is replaced after later groups exist, and a group added after a removal
        if len(dc.subset_groups) < 2:
            return None
        g = dc.subset_groups[0]
        k = desc["groups"][0]["on"]
        g.subset_state = ses.ds[k].data.id["w"] < 0
        g.label = "relabelled"
        desc["groups"][0].update(sig=simple_sig("lt"), label="relabelled")
        dc.remove_subset_group(dc.subset_groups[-1])
        del desc["groups"][-1]
        k2 = rng.randrange(n)
        dc.new_subset_group(subset_state=ses.ds[k2].data.id["v"] >= 0, label="after_removal")
        desc["groups"].append({"on": k2, "sig": simple_sig("ge"), "label": "after_removal", "styled": False})
        return "group_in_the_middle"
    if name == "undo_redo":
        from glue.core import Session
        from glue.core.command import ApplySubsetState, CommandStack, RemoveData
        stack = CommandStack()
        session = Session(data_collection=dc, command_stack=stack)
        stack.session = session
        k = rng.randrange(n)
        dk = ses.ds[k].data
        which = rng.choice(["apply_undo_redo", "apply_apply_undo", "remove_undo"])
        if which == "remove_undo" and (n < 2 or any(k in l["between"] for l in desc["links"])):
            which = "apply_undo_redo"
        if which == "apply_undo_redo":
            stack.do(ApplySubsetState(data_collection=dc, subset_state=dk.id["w"] > 0))
            stack.undo()
            stack.redo()
        elif which == "apply_apply_undo":
            stack.do(ApplySubsetState(data_collection=dc, subset_state=dk.id["w"] > 0))
            stack.do(ApplySubsetState(data_collection=dc, subset_state=dk.id["v"] > 1))
            stack.undo()
        else:
            stack.do(RemoveData(data=dk))
            stack.undo()
            reorder(ses, [i for i in range(n) if i != k] + [k])
        kpos = [p for p, h in enumerate(ses.ds) if h.data is dk][0]
        # the descriptor's group list follows whatever the commands left behind
        while len(desc["groups"]) > len(dc.subset_groups):
            desc["groups"].pop()
        while len(desc["groups"]) < len(dc.subset_groups):
            desc["groups"].append({"on": kpos, "sig": simple_sig(), "label": None, "styled": False})
        desc["undo_redo"] = which
        return "undo_redo:" + which
    if name == "merge":
        # two datasets of equal shape are merged into a new one (components move, the inputs leave the collection)
        pairs = [(i, j) for i in range(n) for j in range(i + 1, n) if dc[i].shape == dc[j].shape
                 and not desc["data"][i].get("file") and not desc["data"][j].get("file")]
        if not pairs or desc["links"] or desc["joins"]:
            return None
        i, j = rng.choice(pairs)
        di, dj = dc[i], dc[j]
        dc.merge(di, dj, label="merged")
        rest = [k for k in range(n) if k not in (i, j)]
        info = describe(dc[len(dc) - 1])
        # merged dataset stands last; the two inputs are no members any more
        ses.ds = [ses.ds[k] for k in rest] + [L.DS(dc[len(dc) - 1], info)]
        new = {old: p for p, old in enumerate(rest)}
        desc["data"] = [desc["data"][k] for k in rest] + [info]
        for g in desc["groups"]:
            g["on"] = new.get(g["on"], len(rest))
        return "merge"
    if name == "change_values":
        # change - then - save: values replaced after the groups (and their cached masks) exist
        k = rng.randrange(n)
        d = ses.ds[k].data
        if desc["data"][k].get("file"):
            return None
        for s in d.subsets:
            try:
                s.to_mask()
            except Exception:
                pass
        d.update_components({d.id["w"]: common.injective_floats(rng, d.shape), d.id["i"]: common.rand_ints(rng, d.shape, 0, 4)})
        return "change_values"
    if name == "change_labels_styles":
        k = rng.randrange(n)
        d = ses.ds[k].data
        d.label = rng.choice(["renamed", "d0", "", "label with space"])
        desc["data"][k]["label"] = d.label
        if not desc["data"][k].get("file"):
            d.id["v"].label = rng.choice(["v2", "w", "renamed col"])
        st, tags = L.rand_style(rng)
        L.apply_style(d.style, st)
        desc["data"][k]["style_extremes"] = tags
        for g, gd in zip(dc.subset_groups, desc["groups"]):
            if rng.random() < 0.5:
                g.label = rng.choice(["g renamed", "", "d0"])
                gd["label"] = g.label
                st, tags = L.rand_style(rng)
                L.apply_style(g.style, st)
                gd["style_extremes"] = tags
        return "change_labels_styles"
    if name == "set_links_atomic":
        if not desc["links"]:
            return None
        links = list(dc.external_links)
        dc.set_links(links)              # atomic replacement by the same links
        dc.set_links(links)              # ... twice
        return "set_links_atomic"
    if name == "relink_stepwise":
        if not desc["links"]:
            return None
        links = list(dc.external_links)
        for l in links:
            dc.remove_link(l)
        for l in links:
            dc.add_link(l)
        return "relink_stepwise"
    if name == "join_twice":
        if not desc["joins"]:
            return None
        j = desc["joins"][0]
        a, b = ses.ds[j["between"][0]], ses.ds[j["between"][1]]
        a.data.join_on_key(b.data, "i", "i")      # same operation again / replaced by a 1-1 join
        j["shape"] = "1-1"
        return "join_twice"
    if name == "remove_referred_component":
        # an object removed while something else still refers to it: a stored column, and a selection over it
        k = rng.randrange(n)
        d = ses.ds[k].data
        if desc["data"][k].get("file"):
            return None
        cid = d.add_component(common.injective_floats(rng, d.shape), "doomed")
        dc.new_subset_group(subset_state=cid > 0, label="over_doomed")
        desc["groups"].append({"on": k, "sig": simple_sig(), "label": "over_doomed", "styled": False})
        d.remove_component(cid)
        return "remove_referred_component"
    if name == "clear_all":
        # remove everything at once; the groups survive without subsets
        dc.clear()
        desc["removed"] = 0
        desc["all_removed"] = True
        return "clear_all"
    if name == "empty_collection":
        return "empty_collection"
    raise ValueError(name)


def describe(d):
    """Descriptor entry of a dataset that no recipe built (merge result)."""
    info = {"label": d.label, "shape": list(d.shape), "coords": "merged", "numeric": [c.label for c in d.main_components],
            "cat": [], "datetime": [], "derived": {}, "units": {}, "meta": [], "order_mode": None, "variants": ["merged"]}
    return info


def empty_session():
    from glue.core import DataCollection
    ses = L.Session()
    ses.dc = DataCollection()
    ses.desc = {"data": [], "links": [], "joins": [], "groups": [], "include_data": True, "collide": False,
                "history": "empty_collection"}
    return ses
