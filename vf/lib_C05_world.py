"""C05 helpers: world models (pure data), builders (model -> live glue objects),
snapshots (live subset state -> descriptor, through public getters only),
generators of states / reads / mutations.

The *twin* of a long-lived world is `build_world(model, [snapshot(s) for s in live.states])`:
fresh Data objects holding the values the harness itself put there, fresh links,
and subset states constructed from scratch by the class constructors (never by
glue's `copy()`), so nothing in it has ever been evaluated.
"""
import operator

import numpy as np

from glue.core import Data, DataCollection
from glue.core.component_id import ComponentID
from glue.core.coordinates import AffineCoordinates
from glue.core.link_helpers import LinkSame, LinkTwoWay
from glue.core.roi import (CategoricalROI, CircularROI, PolygonalROI, RangeROI, RectangularROI, XRangeROI, YRangeROI)
from glue.core.subset import (AndState, CategoricalMultiRangeSubsetState, CategoricalROISubsetState,
                              CategoricalROISubsetState2D, CategorySubsetState, ElementSubsetState,
                              FloodFillSubsetState, InequalitySubsetState, InvertState, MaskSubsetState, MultiOrState,
                              MultiRangeSubsetState, OrState, RangeSubsetState, RoiSubsetState, SliceSubsetState,
                              SubsetState, XorState)

from glue.core.decorators import clear_cache

from glue.viewers.image.pixel_selection_subset_state import PixelSubsetState

from vf.common import SPECIAL, affine_matrix, same_array

OPS = {"gt": operator.gt, "ge": operator.ge, "lt": operator.lt, "le": operator.le, "eq": operator.eq, "ne": operator.ne}
OPNAME = {v: k for k, v in OPS.items()}
BINOPS = {"and": AndState, "or": OrState, "xor": XorState}
BINNAME = {v: k for k, v in BINOPS.items()}

# static classification (from reading glue/core/subset.py): who carries @memoize on to_mask
FAMILY = {
    "AndState": "composite", "OrState": "composite", "XorState": "composite", "InvertState": "composite",
    "MultiOrState": "composite",
    "InequalitySubsetState": "memoized_leaf", "CategorySubsetState": "memoized_leaf",
    "ElementSubsetState": "memoized_leaf", "CategoricalROISubsetState": "memoized_leaf",
    "CategoricalROISubsetState2D": "memoized_leaf", "CategoricalMultiRangeSubsetState": "memoized_leaf",
    "RangeSubsetState": "plain_leaf", "MultiRangeSubsetState": "plain_leaf", "RoiSubsetState": "plain_leaf",
    "MaskSubsetState": "plain_leaf", "SliceSubsetState": "plain_leaf", "PixelSubsetState": "plain_leaf",
    "FloodFillSubsetState": "floodfill",
}


def family(obj_or_name):
    name = obj_or_name if isinstance(obj_or_name, str) else type(obj_or_name).__name__
    return FAMILY.get(name, name)


# ================================================================ data models
class DataModel:
    """What the harness knows a dataset to contain (values it supplied itself)."""

    def __init__(self, label, shape, comps, coords=None, derived=False):
        self.restrict = None          # optional list of component names states may refer to
        self.label = label
        self.shape = tuple(shape)
        self.comps = comps            # list of [name, kind, ndarray]; kind in float|int|cat|pos
        self.coords = coords          # affine matrix (nested list) or None
        self.derived = derived        # 'der' = w * 2 + v

    def names(self, *kinds):
        return [n for n, k, _ in self.comps if k in kinds]

    def get(self, name):
        for n, k, a in self.comps:
            if n == name:
                return a
        raise KeyError(name)

    def set(self, name, arr):
        for c in self.comps:
            if c[0] == name:
                c[2] = arr
                return
        raise KeyError(name)

    def kind(self, name):
        for n, k, a in self.comps:
            if n == name:
                return k
        raise KeyError(name)

    @property
    def ndim(self):
        return len(self.shape)

    @property
    def size(self):
        return int(np.prod(self.shape))

    def describe(self):
        return {"label": self.label, "shape": list(self.shape), "coords": self.coords, "derived": self.derived,
                "comps": {n: [k, a.tolist()] for n, k, a in self.comps}}


def build_data(m, layout_rng=None):
    """layout_rng: hand glue arrays in assorted memory layouts (live world); None: contiguous copies (twin)."""
    kw = {}
    if m.coords is not None:
        kw["coords"] = AffineCoordinates(np.array(m.coords, dtype=float))
    d = Data(label=m.label, **kw)
    for name, kind, arr in m.comps:
        if layout_rng is not None:
            d.add_component(layout_variant(layout_rng, arr)[0], name)
        else:
            d.add_component(np.array(arr), name)
    if m.derived:
        a, k, b = derived_spec(m)
        d.add_component_link(d.id[a] * k + d.id[b], "der")
    return d


def derived_spec(m):
    """'der' = a * k + b."""
    return ("w", 2, "v") if m.derived is True else tuple(m.derived)


SCALE = 1.0          # magnitude of the float columns, thresholds and regions of the current history (set by the driver)
CATS = ["a", "ab", "abc", "dd"]     # labels sharing prefixes, different widths


def gen_values(rng, kind, shape):
    n = int(np.prod(shape))
    if kind == "bcast":       # rows repeated along axis 0: handed to glue as a stride-0 broadcast array
        row = gen_values(rng, "float", shape[1:])
        return np.array(np.broadcast_to(row, shape))
    if kind == "float":
        vals = [rng.choice(SPECIAL) if rng.random() < 0.15 else round(rng.uniform(-3, 3), 2) for _ in range(n)]
        if n > 1 and len(set(v for v in vals if v == v and abs(v) != float("inf"))) < 2:
            vals[0], vals[1] = 0.37, -1.21    # never constant (see below)
        return np.array(vals, dtype=float).reshape(shape) * SCALE
    if kind == "inj":
        vals = np.linspace(-5, 5, n) + np.array([rng.uniform(-0.01, 0.01) for _ in range(n)])
        perm = list(range(n))
        rng.shuffle(perm)
        return np.round(vals[perm], 3).reshape(shape) * SCALE
    # int / pos columns are never constant: a histogram viewer derives its range from the column, and
    # Data.compute_histogram over a degenerate range (0, 0) - or (1, 1) in log space - crashes the process inside
    # fast_histogram (segmentation fault), which no monitor can survive
    if kind == "int":
        vals = [rng.randint(-3, 6) for _ in range(n)]
        if n > 1 and len(set(vals)) == 1:
            vals[0] += 1
        return np.array(vals, dtype=int).reshape(shape)
    if kind == "pos":
        vals = [rng.choice([1.0, 1.0, 2.0, 2.0, 5.0, 9.0]) for _ in range(n)]
        if n > 1 and len(set(vals)) == 1:
            vals[0] = 2.0 if vals[0] != 2.0 else 5.0
        return np.array(vals, dtype=float).reshape(shape)
    if kind == "cat":
        return np.array([rng.choice(CATS) for _ in range(n)]).reshape(shape)
    raise ValueError(kind)


FLOAT_DTYPES = ["<f8", "<f8", "<f4", ">f8", ">f4"]
INT_DTYPES = ["<i8", "<i8", "<i4", "<i2", "i1", ">i4", "u1", "<f8"]


def cast_variant(rng, kind, arr):
    """The same column in another dtype (values rounded by the cast are the column's values from then on)."""
    if kind in ("float", "pos"):
        return arr.astype(rng.choice(FLOAT_DTYPES))
    if kind == "int":
        dt = rng.choice(INT_DTYPES)
        if dt.startswith("u") and arr.min() < 0:
            dt = "<i8"
        return arr.astype(dt)
    if kind == "cat":
        return arr.astype(rng.choice([arr.dtype, object, "<U7"]))
    return arr


def layout_variant(rng, arr):
    """Equal values and dtype, different memory layout (what glue is handed; the twin gets a contiguous copy)."""
    arr = np.asarray(arr)
    if arr.dtype == object or arr.size == 0:
        return np.array(arr), "contiguous"
    how = rng.choice(["contiguous", "fortran", "fortran", "strided", "reversed", "readonly", "offset"])
    if how == "fortran" and arr.ndim > 1:
        return np.asfortranarray(arr), how
    if how == "strided":
        big = np.zeros(arr.shape[:-1] + (arr.shape[-1] * 2,), dtype=arr.dtype)
        big[..., ::2] = arr
        return big[..., ::2], how
    if how == "reversed":
        return np.array(arr[::-1])[::-1], how
    if how == "readonly":
        out = np.array(arr)
        out.setflags(write=False)
        return out, how
    if how == "offset":
        big = np.zeros((arr.shape[0] + 2,) + arr.shape[1:], dtype=arr.dtype)
        big[1:-1] = arr
        return big[1:-1], how
    if arr.ndim > 1 and arr.shape[0] > 1 and bool(np.all(arr == arr[:1])):
        return np.broadcast_to(arr[0], arr.shape), "broadcast"       # stride 0
    return np.array(arr), "contiguous"


COMP_KINDS = {"v": "float", "w": "inj", "i": "int", "c": "cat", "c2": "cat", "f": "pos", "g": "pos", "p": "inj",
              "q": "float", "k": "int", "b": "bcast"}
MODEL_KIND = {"float": "float", "inj": "float", "int": "int", "cat": "cat", "pos": "pos", "bcast": "float"}


def gen_data_model(rng, label, shape, names, coords=None, derived=False, dtypes=False):
    comps = [[n, MODEL_KIND[COMP_KINDS[n]], gen_values(rng, COMP_KINDS[n], shape)] for n in names]
    if dtypes:
        for c in comps:
            c[2] = cast_variant(rng, c[1], c[2])
    return DataModel(label, shape, comps, coords=coords, derived=derived)


def gen_coords(rng, nd):
    kind = rng.choice(["diagonal", "coupled_symmetric", "full", "coupled_triangular"])
    return affine_matrix(rng, nd, kind).tolist()


# ================================================================ component references
def resolve(ref, datas):
    tag, di, key = ref
    d = datas[di]
    if tag == "c":
        cid = d.find_component_id(key)
        if cid is None:
            raise KeyError("no component %r in data %d" % (key, di))
        return cid
    if tag == "p":
        return d.pixel_component_ids[key]
    if tag == "w":
        return d.world_component_ids[key]
    raise ValueError(ref)


class RefMap:
    """Reverse lookup ComponentID -> reference, by identity."""

    def __init__(self, datas):
        self.by_id = {}
        self.data_by_id = {}
        self.data_by_uuid = {}
        for di, d in enumerate(datas):
            self.data_by_id[id(d)] = di
            self.data_by_uuid[d.uuid] = di
            pix = list(d.pixel_component_ids)
            wor = list(d.world_component_ids)
            for cid in d.components:
                if any(cid is p for p in pix):
                    self.by_id[id(cid)] = ["p", di, cid.axis]
                elif any(cid is w for w in wor):
                    self.by_id[id(cid)] = ["w", di, [k for k, w in enumerate(wor) if w is cid][0]]
                else:
                    self.by_id[id(cid)] = ["c", di, cid.label]

    def ref(self, cid):
        return self.by_id[id(cid)]


# ================================================================ ROI <-> descriptor
def build_roi(desc):
    k = desc[0]
    if k == "rect":
        return RectangularROI(xmin=desc[1], xmax=desc[2], ymin=desc[3], ymax=desc[4], theta=desc[5])
    if k == "circ":
        return CircularROI(xc=desc[1], yc=desc[2], radius=desc[3])
    if k == "poly":
        return PolygonalROI(vx=list(desc[1]), vy=list(desc[2]))
    if k == "range":
        return XRangeROI(min=desc[2], max=desc[3]) if desc[1] == "x" else YRangeROI(min=desc[2], max=desc[3])
    raise ValueError(desc)


def snapshot_roi(roi):
    if type(roi) is RectangularROI:
        return ["rect", roi.xmin, roi.xmax, roi.ymin, roi.ymax, roi.theta]
    if type(roi) is CircularROI:
        return ["circ", roi.xc, roi.yc, roi.radius]
    if type(roi) is PolygonalROI:
        return ["poly", list(roi.vx), list(roi.vy)]
    if isinstance(roi, RangeROI):
        return ["range", roi.ori, roi.min, roi.max]
    raise TypeError("unsupported roi %r" % (roi,))


# ================================================================ state <-> descriptor
def _operand(x, datas):
    return x[1] if x[0] == "num" else resolve(x, datas)


def _to_slice(s):
    return slice(*s) if isinstance(s, (list, tuple)) else s


def build_state(desc, datas):
    k = desc[0]
    if k == "ineq":
        return InequalitySubsetState(_operand(desc[1], datas), _operand(desc[3], datas), OPS[desc[2]])
    if k == "range":
        return RangeSubsetState(desc[1], desc[2], att=resolve(desc[3], datas))
    if k == "multirange":
        return MultiRangeSubsetState([tuple(p) for p in desc[1]], att=resolve(desc[2], datas))
    if k == "roi":
        return RoiSubsetState(xatt=resolve(desc[1], datas), yatt=resolve(desc[2], datas), roi=build_roi(desc[3]))
    if k == "catroi":
        return CategoricalROISubsetState(att=resolve(desc[1], datas), roi=CategoricalROI(list(desc[2])))
    if k == "catroi2d":
        return CategoricalROISubsetState2D({a: set(b) for a, b in desc[1].items()}, resolve(desc[2], datas),
                                           resolve(desc[3], datas))
    if k == "catmr":
        return CategoricalMultiRangeSubsetState({a: [tuple(p) for p in b] for a, b in desc[1].items()},
                                                resolve(desc[2], datas), resolve(desc[3], datas))
    if k == "category":
        return CategorySubsetState(resolve(desc[1], datas), np.array(desc[2], dtype=int))
    if k == "element":
        return ElementSubsetState(indices=list(desc[1]), data=None if desc[2] is None else datas[desc[2]])
    if k == "mask":
        return MaskSubsetState(np.array(desc[1], dtype=bool).reshape(desc[2]), datas[desc[3]].pixel_component_ids)
    if k == "slice":
        return SliceSubsetState(datas[desc[1]], [_to_slice(s) for s in desc[2]])
    if k == "pixslice":
        return PixelSubsetState(datas[desc[1]], [_to_slice(s) for s in desc[2]])
    if k == "flood":
        return FloodFillSubsetState(datas[desc[1]], resolve(desc[2], datas), tuple(desc[3]), desc[4])
    if k in BINOPS:
        return BINOPS[k](build_state(desc[1], datas), build_state(desc[2], datas))
    if k == "not":
        return InvertState(build_state(desc[1], datas))
    if k == "multior":
        return MultiOrState([build_state(c, datas) for c in desc[1]])
    if k == "multior_shared":      # the same child OBJECT several times: an edit through one slot is an edit of all
        child = build_state(desc[1], datas)
        return MultiOrState([child] * desc[2])
    if k == "empty":
        return SubsetState()
    raise ValueError(desc)


def _snap_operand(x, rm):
    if isinstance(x, (int, float, np.integer, np.floating)) and not isinstance(x, bool):
        return ["num", x]      # the scalar object itself: its type (Python / numpy, width) decides numpy's promotion
    return rm.ref(x)


def _snap_slice(s):
    return [s.start, s.stop, s.step] if isinstance(s, slice) else int(s)


def snapshot(state, rm):
    """Descriptor of the state as its public attributes currently present it."""
    t = type(state)
    if t is InequalitySubsetState:
        return ["ineq", _snap_operand(state.left, rm), OPNAME[state.operator], _snap_operand(state.right, rm)]
    if t is RangeSubsetState:
        return ["range", state.lo, state.hi, rm.ref(state.att)]
    if t is MultiRangeSubsetState:
        return ["multirange", [[a, b] for a, b in state.pairs], rm.ref(state.att)]
    if t is RoiSubsetState:
        return ["roi", rm.ref(state.xatt), rm.ref(state.yatt), snapshot_roi(state.roi)]
    if t is CategoricalROISubsetState:
        cats = state.roi.categories
        return ["catroi", rm.ref(state.att), [] if cats is None else [str(c) for c in cats]]
    if t is CategoricalROISubsetState2D:
        return ["catroi2d", {str(a): sorted(str(x) for x in b) for a, b in state.categories.items()},
                rm.ref(state.att1), rm.ref(state.att2)]
    if t is CategoricalMultiRangeSubsetState:
        return ["catmr", {str(a): [[x, y] for x, y in b] for a, b in state.ranges.items()},
                rm.ref(state.cat_att), rm.ref(state.num_att)]
    if t is CategorySubsetState:
        return ["category", rm.ref(state.att), [int(c) for c in np.asarray(state.categories).ravel()]]
    if t is ElementSubsetState:
        uuid = state.data
        return ["element", [int(i) for i in state.indices], None if uuid is None else rm.data_by_uuid[uuid]]
    if t is FloodFillSubsetState:
        return ["flood", rm.data_by_id[id(state.data)], rm.ref(state.att), [int(c) for c in state.start_coords],
                state.threshold]
    if t is MaskSubsetState:
        m = np.asarray(state.mask)
        owner = rm.ref(state.cids[0])[1]
        return ["mask", m.ravel().tolist(), list(m.shape), owner]
    if t is SliceSubsetState:
        return ["slice", rm.data_by_id[id(state.reference_data)], [_snap_slice(s) for s in state.slices]]
    if t is PixelSubsetState:
        return ["pixslice", rm.data_by_id[id(state.reference_data)], [_snap_slice(s) for s in state.slices]]
    if t in BINNAME:
        return [BINNAME[t], snapshot(state.state1, rm), snapshot(state.state2, rm)]
    if t is InvertState:
        return ["not", snapshot(state.state1, rm)]
    if t is MultiOrState:
        kids = list(state.states)
        if len(kids) > 1 and all(k is kids[0] for k in kids):
            return ["multior_shared", snapshot(kids[0], rm), len(kids)]
        return ["multior", [snapshot(s, rm) for s in kids]]
    if t is SubsetState:
        return ["empty"]
    raise TypeError("unsupported state %r" % (state,))


def children(node):
    if isinstance(node, MultiOrState):
        return list(node.states)
    if isinstance(node, (AndState, OrState, XorState)):
        return [node.state1, node.state2]
    if isinstance(node, InvertState):
        return [node.state1]
    return []


def walk(node, path=()):
    yield path, node
    for k, c in enumerate(children(node)):
        yield from walk(c, path + (k,))


def node_at(state, path):
    for k in path:
        state = children(state)[k]
    return state


def shape_sig(desc):
    """Class structure of a descriptor (for fingerprints)."""
    k = desc[0]
    if k in BINOPS:
        return [k, shape_sig(desc[1]), shape_sig(desc[2])]
    if k == "not":
        return [k, shape_sig(desc[1])]
    if k == "multior":
        return [k] + [shape_sig(c) for c in desc[1]]
    if k == "multior_shared":
        return [k, shape_sig(desc[1]), desc[2]]
    if k == "roi":
        return [k, desc[3][0], desc[1][0], desc[2][0]]
    if k == "ineq":
        return [k, desc[1][0], desc[3][0]]
    return [k]


# ================================================================ worlds
class World:
    pass


def build_world(models, state_descs, links_pool=(), links_active=(), with_dc=True, registered=(), layout_rng=None,
                joins=()):
    w = World()
    w.datas = [build_data(m, layout_rng) for m in models]
    w.dc = DataCollection(w.datas) if with_dc else None
    w.links = {}
    if with_dc:
        for k in links_active:
            w.links[k] = make_link(links_pool[k], w.datas)
            w.dc.add_link(w.links[k])
    for (da, na, db, nb) in joins:
        w.datas[da].join_on_key(w.datas[db], na, nb)
    w.states = [build_state(sd, w.datas) for sd in state_descs]
    w.groups = {}
    w.subsets = {}     # (state idx, data idx) -> Subset
    w.groups2 = {}     # a second group holding the SAME state object (sharing must survive)
    w.subsets2 = {}
    for k in registered:
        second = k in w.groups or (k, 0) in w.subsets
        groups, subsets = (w.groups2, w.subsets2) if second else (w.groups, w.subsets)
        if with_dc:
            groups[k] = w.dc.new_subset_group(label="g%d%s" % (k, "b" if second else ""), subset_state=w.states[k])
            for s in groups[k].subsets:
                subsets[(k, [i for i, d in enumerate(w.datas) if d is s.data][0])] = s
        else:
            s = w.datas[0].new_subset(label="g%d%s" % (k, "b" if second else ""))
            s.subset_state = w.states[k]
            subsets[(k, 0)] = s
    return w


def _double(x):
    return x * 2


def _half(x):
    return x / 2


def make_link(spec, datas):
    """spec = ((data a, name a), (data b, name b), func); func None = identity (LinkSame), "x2" = b is 2 * a."""
    func = spec[2] if len(spec) > 2 else None
    a, b = _end_cid(spec[0], datas), _end_cid(spec[1], datas)
    if func is None:
        return LinkSame(a, b)
    return LinkTwoWay(a, b, forwards=_double, backwards=_half)


def _end_cid(end, datas):
    """(data index, component name) or (data index, pixel axis)."""
    di, key = end
    return datas[di].pixel_component_ids[key] if isinstance(key, int) else datas[di].id[key]


def link_ends(spec):
    return {tuple(spec[0]), tuple(spec[1])}


# ================================================================ generators: states
def _thr(rng, kind):
    if kind == "pix":
        return rng.choice([0.5, 1.5, 2.5, 0.0, 1.0, 3.5])
    if kind == "int":
        return rng.choice([-2, -1, 0, 1, 2, 3, 4, 5, 0.5, 2.5])
    return rng.choice([-2.5, -1.0, -0.5, 0.0, 0.5, 1.0, 2.0, 3.5, -4.0, 4.0, 0, -0.0]) * SCALE


def _wd(rng, choices):
    """A width / size at the scale of the history."""
    return rng.choice(choices) * SCALE


def numeric_refs(rng, model, di, allow_coord=True):
    if model.restrict is not None:   # names, or ints meaning pixel axes
        return [["p", di, n] if isinstance(n, int) else ["c", di, n] for n in model.restrict]
    refs = [["c", di, n] for n in model.names("float", "int", "pos")]
    if model.derived:
        refs.append(["c", di, "der"])
    if allow_coord and model.ndim >= 1:
        refs += [["p", di, a] for a in range(model.ndim)]
        if model.coords is not None:
            refs += [["w", di, a] for a in range(model.ndim)]
    return refs


def gen_roi(rng, scale=None):
    """scale None: the history's magnitude (x 3); a number: that extent (pixel axes)."""
    k = rng.choice(["rect", "rect", "circ", "poly", "range"])
    if scale is None:
        c = lambda: round(rng.uniform(-3.0, 3.0), 2) * SCALE
        wd = lambda ch: rng.choice(ch) * SCALE
    else:
        c = lambda: round(rng.uniform(-scale, scale), 2)
        wd = lambda ch: rng.choice(ch)
    if k == "rect":
        x0, y0 = c(), c()
        return ["rect", x0, x0 + wd([1.0, 2.5, 4.0]), y0, y0 + wd([1.0, 2.5, 4.0]), 0]
    if k == "circ":
        return ["circ", c(), c(), wd([1.0, 2.0, 3.5])]
    if k == "poly":
        x0, y0 = c(), c()
        s = wd([1.5, 3.0, 5.0])
        return ["poly", [x0, x0 + s, x0 + s / 3], [y0, y0 + s / 4, y0 + s]]
    lo = c()
    return ["range", rng.choice(["x", "y"]), lo, lo + wd([1.0, 2.5, 4.0])]


def gen_leaf(rng, models, di, kinds=None):
    m = models[di]
    table = m.ndim == 1 and bool(m.names("cat"))
    avail = ["ineq", "ineq", "range", "multirange", "roi", "roi", "element", "mask", "slice"]
    if table:
        avail += ["catroi", "category", "catmr"]
        if len(m.names("cat")) >= 2:
            avail.append("catroi2d")
    if m.names("pos") and m.ndim >= 2:
        avail += ["flood", "flood"]
    if kinds:
        avail = [a for a in list(avail) + ["pixslice"] if a in kinds] or avail
    k = rng.choice(avail)
    nrefs = numeric_refs(rng, m, di)
    if k == "ineq":
        a = rng.choice(nrefs)
        b = rng.choice(nrefs) if rng.random() < 0.25 else ["num", _thr(rng, "float")]
        if rng.random() < 0.15 and b[0] == "num":
            a, b = b, a
        return ["ineq", a, rng.choice(list(OPS)), b]
    if k == "range":
        lo = _thr(rng, "float")
        return ["range", lo, lo + _wd(rng, [0.5, 2.0, 4.0]), rng.choice(nrefs)]
    if k == "multirange":
        pairs = []
        for _ in range(rng.randint(1, 3)):
            lo = _thr(rng, "float")
            pairs.append([lo, lo + _wd(rng, [0.5, 1.0, 2.0])])
        return ["multirange", pairs, rng.choice(nrefs)]
    if k == "roi":
        r = rng.random()
        if m.ndim >= 2 and r < 0.35:
            a, b = rng.sample(range(m.ndim), 2)
            return ["roi", ["p", di, a], ["p", di, b], gen_roi(rng, 2.0)]
        return ["roi", rng.choice(nrefs), rng.choice(nrefs), gen_roi(rng)]
    if k == "element":
        n = m.size
        return ["element", sorted(rng.sample(range(n), rng.randint(0, min(n, 4)))), rng.choice([None, di])]
    if k == "mask":
        return ["mask", [rng.random() < 0.5 for _ in range(m.size)], list(m.shape), di]
    if k == "slice":
        sl = []
        for s in m.shape:
            a = rng.randrange(0, s)
            sl.append([a, rng.randrange(a, s + 1), rng.choice([None, 1, 2])])
        return ["slice", di, sl]
    if k == "pixslice":    # what the image viewer creates: one pixel fixed on some axes, everything on the others
        sl = [[None, None, None] for _ in m.shape]
        for a in rng.sample(range(m.ndim), rng.randint(1, m.ndim)):
            x = rng.randrange(m.shape[a])
            sl[a] = [x, x + 1, None]
        return ["pixslice", di, sl]
    if k == "flood":
        return ["flood", di, ["c", di, rng.choice(m.names("pos"))], [rng.randrange(s) for s in m.shape],
                rng.choice([1.0, 1.2, 1.6, 2.5, 6.0])]
    cats = list(CATS)
    catrefs = [["c", di, n] for n in m.names("cat")]
    if k == "catroi":
        return ["catroi", rng.choice(catrefs), sorted(rng.sample(cats, rng.randint(1, 3)))]
    if k == "category":
        return ["category", rng.choice(catrefs), sorted(rng.sample(range(4), rng.randint(1, 3)))]
    if k == "catroi2d":
        return ["catroi2d", gen_cat2d(rng), catrefs[0], catrefs[1]]
    if k == "catmr":
        return ["catmr", gen_catranges(rng), rng.choice(catrefs),
                rng.choice([["c", di, n] for n in m.names("float", "int")])]
    raise ValueError(k)


def gen_cat2d(rng):
    cats = list(CATS)
    return {a: sorted(rng.sample(cats, rng.randint(1, 3))) for a in rng.sample(cats, rng.randint(1, 3))}


def gen_catranges(rng):
    out = {}
    for a in rng.sample(CATS, rng.randint(1, 3)):
        lo = _thr(rng, "float")
        out[a] = [[lo, lo + _wd(rng, [1.0, 2.5, 5.0])]]
    return out


def gen_state(rng, models, di, depth, kinds=None):
    if depth == 0:
        return gen_leaf(rng, models, di, kinds)
    r = rng.random()
    if r < 0.6:
        return [rng.choice(["and", "or", "xor"]), gen_state(rng, models, di, rng.randint(0, depth - 1), kinds),
                gen_state(rng, models, di, depth - 1, kinds)]
    if r < 0.8:
        return ["not", gen_state(rng, models, di, depth - 1, kinds)]
    if r < 0.85:
        return ["multior_shared", gen_state(rng, models, di, rng.randint(0, depth - 1), kinds), rng.randint(2, 3)]
    return ["multior", [gen_state(rng, models, di, rng.randint(0, depth - 1), kinds) for _ in range(rng.randint(1, 3))]]


# ================================================================ generators: state mutations
def gen_state_mutation(rng, state, models, di, prefer=None):
    """Choose a node and a mutation applicable to it.  Returns a JSON-able spec."""
    nodes = list(walk(state))
    if prefer:
        good = [(p, n) for p, n in nodes if prefer in applicable(n)]
        if good:
            nodes = good
        else:
            prefer = None
    for _ in range(20):
        path, node = rng.choice(nodes)
        kinds = applicable(node)
        if not kinds:
            continue
        kind = prefer if prefer else rng.choice(kinds)
        spec = gen_node_mutation(rng, node, kind, models, di)
        if spec is not None:
            for sp in [spec] + ([spec["then"]] if "then" in spec else []):
                sp["path"] = list(path)
                sp["depth"] = len(path)
                sp["node"] = type(node).__name__
            return spec
    return None


def applicable(node):
    t = type(node)
    if t is SubsetState:
        return []
    out = ["setter", "setter"]
    if t in (RangeSubsetState, RoiSubsetState, AndState, OrState, XorState, InvertState):
        out.append("move_to")
    if t in (RoiSubsetState, CategoricalROISubsetState):
        out.append("roi_edit")
    return out


def gen_node_mutation(rng, node, kind, models, di):
    m = models[di]
    t = type(node)
    nrefs = numeric_refs(rng, m, di)
    catrefs = [["c", di, n] for n in m.names("cat")]
    if kind == "move_to":
        try:
            cen = node.center()
        except Exception:
            return None
        if cen is None:
            return None
        if np.ndim(cen) == 0:
            return {"op": "move_to", "args": [_thr(rng, "float")]}
        return {"op": "move_to", "args": [_thr(rng, "float"), _thr(rng, "float")]}
    if kind == "roi_edit":
        if t is CategoricalROISubsetState:
            return {"op": "roi_edit", "how": "update_categories",
                    "args": [sorted(rng.sample(CATS, rng.randint(1, 3)))]}
        roi = node.roi
        if type(roi) is RectangularROI:
            if rng.random() < 0.5:
                return {"op": "roi_edit", "how": "move_to", "args": [_thr(rng, "float"), _thr(rng, "float")]}
            x0, y0 = _thr(rng, "float"), _thr(rng, "float")
            return {"op": "roi_edit", "how": "update_limits", "args": [x0, y0, x0 + _wd(rng, [1.0, 3.0, 6.0]),
                                                                     y0 + _wd(rng, [1.0, 3.0, 6.0])]}
        if type(roi) is CircularROI:
            if rng.random() < 0.5:
                return {"op": "roi_edit", "how": "move_to", "args": [_thr(rng, "float"), _thr(rng, "float")]}
            return {"op": "roi_edit", "how": "set_radius", "args": [_wd(rng, [0.5, 1.5, 3.0, 6.0])]}
        if type(roi) is PolygonalROI:
            if rng.random() < 0.5:
                return {"op": "roi_edit", "how": "move_to", "args": [_thr(rng, "float"), _thr(rng, "float")]}
            return {"op": "roi_edit", "how": "add_point", "args": [_thr(rng, "float"), _thr(rng, "float")]}
        if isinstance(roi, RangeROI):
            if rng.random() < 0.5:
                return {"op": "roi_edit", "how": "move_to", "args": [_thr(rng, "float")]}
            lo = _thr(rng, "float")
            return {"op": "roi_edit", "how": "set_range", "args": [lo, lo + _wd(rng, [1.0, 3.0, 6.0])]}
        return None
    # ---- setters
    S = lambda attr, vk, v: {"op": "setter", "attr": attr, "vkind": vk, "value": v}
    falsy = rng.random() < 0.12      # empty / zero legal values
    if t in (InequalitySubsetState, RangeSubsetState) and rng.random() < 0.2:
        nd = gen_nudge(rng, node, m)
        if nd is not None:
            return nd
    if t is InequalitySubsetState:
        attr = rng.choice(["left", "right", "right", "operator"])
        if attr == "operator":
            return S("operator", "op", rng.choice([o for o in OPS if OPS[o] is not node.operator]))
        other = node.right if attr == "left" else node.left
        other_is_num = isinstance(other, (int, float, np.number))
        if other_is_num or rng.random() < 0.3:
            return S(attr, "ref", rng.choice(nrefs))
        return S(attr, "num", _scalar(rng, _thr(rng, "float")))
    if t is RangeSubsetState:
        attr = rng.choice(["lo", "hi", "att"])
        if attr == "att":
            return S("att", "ref", rng.choice(nrefs))
        return S(attr, "num", _scalar(rng, _thr(rng, "float")))
    if t is MultiRangeSubsetState:
        if rng.random() < 0.3:
            return S("att", "ref", rng.choice(nrefs))
        pairs = []
        for _ in range(0 if falsy else rng.randint(1, 3)):
            lo = _thr(rng, "float")
            pairs.append([lo, lo + _wd(rng, [0.5, 1.0, 3.0])])
        return S("pairs", "pairs", pairs)
    if t is RoiSubsetState:
        attr = rng.choice(["roi", "roi", "xatt", "yatt"])
        if attr == "roi":
            return S("roi", "roi", gen_roi(rng))
        return S(attr, "ref", rng.choice(nrefs))
    if t is CategoricalROISubsetState:
        if rng.random() < 0.3 and len(catrefs) > 1:
            return S("att", "ref", rng.choice(catrefs))
        return S("roi", "catroi", [] if falsy else sorted(rng.sample(CATS, rng.randint(1, 3))))
    if t is CategoricalROISubsetState2D:
        attr = rng.choice(["categories", "categories", "swap"])
        if attr == "swap":
            return S("att1+att2", "swap", None)
        return S("categories", "cat2d", {} if falsy else gen_cat2d(rng))
    if t is CategoricalMultiRangeSubsetState:
        attr = rng.choice(["ranges", "ranges", "cat_att", "num_att"])
        if attr == "ranges":
            return S("ranges", "catranges", {} if falsy else gen_catranges(rng))
        if attr == "cat_att":
            return S("cat_att", "ref", rng.choice(catrefs))
        return S("num_att", "ref", rng.choice([["c", di, n] for n in m.names("float", "int")]))
    if t is CategorySubsetState:
        if rng.random() < 0.3 and len(catrefs) > 1:
            return S("att", "ref", rng.choice(catrefs))
        return S("categories", "codes", [] if falsy else sorted(rng.sample(range(4), rng.randint(1, 3))))
    if t is ElementSubsetState:
        n = m.size
        return S("indices", "list", [] if falsy else sorted(rng.sample(range(n), rng.randint(0, min(n, 4)))))
    if t is FloodFillSubsetState:
        attr = rng.choice(["threshold", "threshold", "start_coords", "att"])
        if attr == "threshold":
            return S("threshold", "num", rng.choice([x for x in [1.0, 1.2, 1.6, 2.5, 6.0] if x != node.threshold]))
        if attr == "start_coords":
            return S("start_coords", "tuple", [rng.randrange(s) for s in m.shape])
        return S("att", "ref", ["c", di, rng.choice(m.names("pos"))])
    if t is MaskSubsetState:
        return S("mask", "mask", [[(not falsy) and rng.random() < 0.5 for _ in range(m.size)], list(m.shape)])
    if t is PixelSubsetState:
        return S("slices", "slices", gen_leaf(rng, models, di, ("pixslice",))[2])
    if t is SliceSubsetState:
        sl = []
        for s in m.shape:
            a = rng.randrange(0, s)
            sl.append([a, a if falsy else rng.randrange(a, s + 1), rng.choice([None, 1, 2])])
        return S("slices", "slices", sl)
    if t in (AndState, OrState, XorState, InvertState):
        attr = "state1" if (t is InvertState or rng.random() < 0.5) else "state2"
        return S(attr, "state", gen_leaf(rng, models, di))
    if t is MultiOrState:
        return S("states", "states", [gen_leaf(rng, models, di) for _ in range(rng.randint(1, 3))])
    return None


def _scalar(rng, x):
    """The same number as a Python or a numpy scalar."""
    r = rng.random()
    if r < 0.7:
        return x
    if r < 0.85:
        return np.float64(x)
    if r < 0.93 and float(x) == int(x):
        return np.int64(int(x))
    return np.float32(x)


def gen_nudge(rng, node, m):
    """Two consecutive assignments of a bound that agree to a relative 1e-9 but lie on either side of a value of the
    column, so they select different elements (a parameter cache that compares with a tolerance would not notice)."""
    if type(node) is InequalitySubsetState:
        num_l = isinstance(node.left, (int, float, np.number))
        num_r = isinstance(node.right, (int, float, np.number))
        if num_l == num_r:
            return None
        attr, cid = ("left", node.right) if num_l else ("right", node.left)
    else:
        attr, cid = rng.choice(["lo", "hi"]), node.att
    try:
        col = m.get(cid.label)
    except (KeyError, AttributeError):
        return None
    if col.dtype.kind not in "fiu":
        return None
    vals = [float(x) for x in np.asarray(col, dtype=float).ravel() if np.isfinite(x) and x != 0]
    if not vals:
        return None
    x = rng.choice(vals)
    a, b = x * (1 - 1e-9), x * (1 + 1e-9)
    if rng.random() < 0.5:
        a, b = b, a
    first = {"op": "setter", "attr": attr, "vkind": "num", "value": a, "nudge": True}
    first["then"] = {"op": "setter", "attr": attr, "vkind": "num", "value": b, "nudge": True}
    return first


def capture_undo(state, spec, rm):
    """The setter that restores what the attribute holds now (numbers, component ids, operators only)."""
    if spec["op"] != "setter" or spec["vkind"] not in ("num", "ref", "op"):
        return None
    node = node_at(state, spec["path"])
    old = getattr(node, spec["attr"])
    out = {k: spec[k] for k in ("op", "attr", "path", "depth", "node", "s", "kind") if k in spec}
    if isinstance(old, (int, float, np.number)) and not isinstance(old, bool):
        out.update(vkind="num", value=old)
    elif old in list(OPS.values()) if callable(old) else False:
        out.update(vkind="op", value=OPNAME[old])
    else:
        try:
            out.update(vkind="ref", value=rm.ref(old))
        except (KeyError, TypeError):
            return None
    out["revert"] = True
    return out


def apply_state_mutation(state, spec, datas):
    """Perform the mutation on the live object through glue's public API."""
    node = node_at(state, spec["path"])
    op = spec["op"]
    if op == "move_to":
        node.move_to(*spec["args"])
        return
    if op == "roi_edit":
        getattr(node.roi, spec["how"])(*spec["args"])
        return
    vk, v, attr = spec["vkind"], spec["value"], spec["attr"]
    if vk == "swap":
        a, b = node.att1, node.att2
        node.att1 = b
        node.att2 = a
        return
    if vk == "ref":
        val = resolve(v, datas)
    elif vk == "num":
        val = v
    elif vk == "op":
        val = OPS[v]
    elif vk == "pairs":
        val = [tuple(p) for p in v]
    elif vk == "roi":
        val = build_roi(v)
    elif vk == "catroi":
        val = CategoricalROI(list(v))
    elif vk == "cat2d":
        val = {a: set(b) for a, b in v.items()}
    elif vk == "catranges":
        val = {a: [tuple(p) for p in b] for a, b in v.items()}
    elif vk == "codes":
        val = np.array(v, dtype=int)
    elif vk == "list":
        val = list(v)
    elif vk == "tuple":
        val = tuple(v)
    elif vk == "mask":
        val = np.array(v[0], dtype=bool).reshape(v[1])
    elif vk == "slices":
        val = [_to_slice(s) for s in v]
    elif vk == "state":
        val = build_state(v, datas)
    elif vk == "states":
        val = [build_state(s, datas) for s in v]
    else:
        raise ValueError(vk)
    setattr(node, attr, val)


# ================================================================ outcomes of monitored reads
def outcome(fn):
    try:
        res = fn()
    except Exception as e:   # exceptions raised by glue inside a monitored read are outcomes
        return ("exc", type(e).__name__)
    if isinstance(res, tuple):
        return ("ok", tuple(np.array(x) for x in res))
    return ("ok", np.array(res))


def same_outcome(a, b):
    if a is None or b is None:
        return a is b
    if a[0] != b[0]:
        return False
    if a[0] == "exc":
        return a[1] == b[1]
    if isinstance(a[1], tuple) or isinstance(b[1], tuple):
        if not (isinstance(a[1], tuple) and isinstance(b[1], tuple)) or len(a[1]) != len(b[1]):
            return False
        return all(same_array(x, y) for x, y in zip(a[1], b[1]))
    return same_array(a[1], b[1])


def brief(o):
    if o is None:
        return None
    if o[0] == "exc":
        return {"raised": o[1]}
    if isinstance(o[1], tuple):
        return {"value": [x for x in o[1]]}
    return {"value": o[1]}


def okind(o):
    return "value" if o[0] == "ok" else o[1]


def clear_all_memo():
    stack = [SubsetState]
    while stack:
        cls = stack.pop()
        clear_cache(cls.__dict__.get("to_mask"))
        stack.extend(cls.__subclasses__())


