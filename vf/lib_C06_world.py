"""Shared pieces of the C06 and C13 drivers: dataset pool, subset-state recipes,
the literal structural invariant of C06 and the behavioural session snapshot
used by C13.  Everything here only *reads* glue through public attributes
(DataCollection iteration / subset_groups, Data.subsets, SubsetGroup.subsets,
Subset.to_mask, EditSubsetMode.edit_subset / mode)."""
import numpy as np

from glue.core import Data
from glue.core.exceptions import IncompatibleAttribute
from glue.core.roi import RectangularROI
from glue.core.subset import ElementSubsetState, MultiOrState, RangeSubsetState, SubsetState, roi_to_subset_state
from glue.core.subset_group import GroupedSubset
from glue.core.visual import VisualAttributes
from glue.core import edit_subset_mode as esm

# ---------------------------------------------------------------- datasets
# d0 and d1 have the same shape (mergeable); d2 is 2-d.  Component labels are globally unique.
RECIPES = {
    "d0": ((4,), {"d0_x": [1.0, 2.0, 3.0, 4.0], "d0_w": [0.5, 2.5, 1.5, 3.5]}),
    "d1": ((4,), {"d1_x": [4.0, 1.0, 3.0, 2.0], "d1_w": [3.5, 0.5, 2.5, 1.5]}),
    "d2": ((2, 3), {"d2_x": [[0.0, 5.0, 2.0], [3.0, 1.0, 4.0]], "d2_w": [[1.0, 1.0, 3.0], [3.0, 2.0, 2.0]]}),
}
BASE = ["d0", "d1", "d2"]


def fresh_data(name):
    """A new Data object named `name`; extra datasets e<k> are 1-d with 4 elements."""
    if name in RECIPES:
        shape, comps = RECIPES[name]
    else:
        k = int(name[1:]) if name[1:].isdigit() else 0
        shape = (4,)
        comps = {name + "_x": [float((i * 3 + k) % 5) for i in range(4)], name + "_w": [float(i) for i in range(4)]}
    d = Data(label=name)
    for lbl, vals in comps.items():
        d.add_component(np.array(vals, dtype=float).reshape(shape), lbl)
    return d


# ---------------------------------------------------------------- subset states
# descriptors are JSON lists; component labels are resolved when the step executes
STATE_VARIANTS = [
    ["ineq", "d0_x", ">", 1.5],
    ["elem", [0, 2]],
    ["range", "d1_x", 1.5, 3.5],
    ["or", ["ineq", "d0_x", ">", 2.5], ["ineq", "d1_x", "<", 2.5]],
    ["roi", "d0_x", "d0_w", [1.5, 4.5, 1.0, 4.0]],
    ["not", ["elem", [1]]],
    ["empty"],
    ["ineq", "d2_x", ">", 2.0],
    ["and", ["elem", [0, 1, 3]], ["ineq", "d1_w", "<", 3.0]],
    ["elem", [3]],
    # states that hold their operands by reference in a list (MultiOrState.copy() shares that list)
    ["multi_or", [["ineq", "d0_x", ">", 3.5], ["elem", [0]], ["ineq", "d1_x", "<", 1.5]]],
    ["multi_or", [["elem", [1]], ["elem", [2]]]],
]
MULTI_VARIANTS = [10, 11]


def build_state(desc, cid):
    """desc -> a new SubsetState; `cid(label)` returns the ComponentID for a component label."""
    k = desc[0]
    if k == "ineq":
        c = cid(desc[1])
        return (c > desc[3]) if desc[2] == ">" else (c < desc[3])
    if k == "elem":
        return ElementSubsetState(indices=list(desc[1]))
    if k == "range":
        return RangeSubsetState(desc[2], desc[3], cid(desc[1]))
    if k == "roi":
        xmin, xmax, ymin, ymax = desc[3]
        return roi_to_subset_state(RectangularROI(xmin=xmin, xmax=xmax, ymin=ymin, ymax=ymax),
                                   x_att=cid(desc[1]), y_att=cid(desc[2]))
    if k == "empty":
        return SubsetState()
    if k == "multi_or":
        return MultiOrState([build_state(x, cid) for x in desc[1]])
    if k == "not":
        return ~build_state(desc[1], cid)
    if k == "or":
        return build_state(desc[1], cid) | build_state(desc[2], cid)
    if k == "and":
        return build_state(desc[1], cid) & build_state(desc[2], cid)
    if k == "xor":
        return build_state(desc[1], cid) ^ build_state(desc[2], cid)
    raise ValueError(desc)


def rect_roi(desc):
    xmin, xmax, ymin, ymax = desc
    return RectangularROI(xmin=xmin, xmax=xmax, ymin=ymin, ymax=ymax)


MODES = {"replace": esm.ReplaceMode, "and": esm.AndMode, "or": esm.OrMode, "xor": esm.XorMode,
         "andnot": esm.AndNotMode, "new": esm.NewMode}
MODE_NAMES = {v: k for k, v in MODES.items()}

STYLE_VARIANTS = [("attr", "color", "#aa0000"), ("attr", "alpha", 0.25), ("attr", "markersize", 11),
                  ("object", "#00aa00", 0.75), ("attr", "linewidth", 4.0), ("object", "#0000aa", 0.125)]


def apply_style(group, variant):
    if variant[0] == "attr":
        setattr(group.style, variant[1], variant[2])
    else:
        group.style = VisualAttributes(color=variant[1], alpha=variant[2])


def style_tuple(style):
    out = []
    for a in ("color", "alpha", "linewidth", "linestyle", "marker", "markersize"):
        v = getattr(style, a, None)
        out.append(v if isinstance(v, (str, int, float, type(None))) else repr(v))
    return out


# ---------------------------------------------------------------- naming
class Names:
    """Identity-based names for datasets (objects are kept alive so ids are not recycled)."""

    def __init__(self):
        self._by_id = {}
        self._keep = []

    def add(self, obj, name):
        self._by_id[id(obj)] = name
        self._keep.append(obj)

    def drop(self, obj):
        """Forget obj (the harness deliberately lets it be garbage-collected)."""
        self._by_id.pop(id(obj), None)
        self._keep = [o for o in self._keep if o is not obj]

    def of(self, obj):
        if obj is None:
            return "<None>"
        n = self._by_id.get(id(obj))
        if n is None:
            return "<unknown:%s>" % (getattr(obj, "label", "?"),)
        return n


def is_in(obj, seq):
    return any(o is obj for o in seq)


def raised_below_harness(exc):
    """True when the innermost frame of the traceback is not harness code (the exception comes from glue or
    from what glue called); an exception raised by the driver itself is a harness error and must escape."""
    tb = exc.__traceback__
    last = None
    while tb is not None:
        last = tb
        tb = tb.tb_next
    if last is None:
        return False
    fn = last.tb_frame.f_code.co_filename.replace("\\", "/")
    return "/vf/props/" not in fn and "/vf/lib_" not in fn


# ---------------------------------------------------------------- C06: the invariant, literally
def check_structure(dc, names, removed_data=(), removed_groups=()):
    """Evaluate the statement of C06 on the collection as it stands (a quiescent point).

    Returns a list of (kind, keys, detail) for everything that refutes it; [] when it holds.
    removed_data: datasets taken out of the collection earlier (objects);
    removed_groups: (group, number of listed subsets when it was removed)."""
    bad = []
    datasets = list(dc)
    groups = list(dc.subset_groups)
    dead = [g for g, _ in removed_groups]
    for d in datasets:
        dn = names.of(d)
        per_group = [0] * len(groups)
        for s in getattr(d, "subsets", ()):
            g = getattr(s, "group", None)
            if not isinstance(s, GroupedSubset) or g is None:
                bad.append(("ungrouped_subset_on_dataset", {}, {"dataset": dn, "subset": repr(s)}))
                continue
            idx = [i for i, x in enumerate(groups) if x is g]
            if not idx:
                bad.append(("subset_of_no_live_group", {"group_was_removed": is_in(g, dead)},
                            {"dataset": dn, "group_label": g.label}))
                continue
            per_group[idx[0]] += 1
            if s.data is not d:
                bad.append(("member_subset_points_at_other_dataset", {}, {"dataset": dn, "points_at": names.of(s.data)}))
        for i, n in enumerate(per_group):
            if n == 0:
                bad.append(("missing_subset_of_group", {"_dataset": d, "_group": groups[i]},
                            {"dataset": dn, "group_index": i, "group_label": groups[i].label}))
            elif n > 1:
                bad.append(("duplicate_subset_of_group", {"_dataset": d, "_group": groups[i]},
                            {"dataset": dn, "group_index": i, "count": n, "group_label": groups[i].label}))
    for i, g in enumerate(groups):
        members = list(g.subsets)
        for d in datasets:
            n = sum(1 for s in members if s.data is d)
            if n != 1:
                bad.append(("group_lists_wrong_number_of_subsets_for_dataset", {"listed": min(n, 2), "_dataset": d, "_group": g},
                            {"group_index": i, "dataset": names.of(d), "listed": n}))
        for s in members:
            if not is_in(s.data, datasets):
                bad.append(("group_lists_subset_of_absent_dataset", {"dataset_was_removed": is_in(s.data, removed_data), "_group": g},
                            {"group_index": i, "dataset": names.of(s.data)}))
            elif not is_in(s, s.data.subsets):
                bad.append(("group_lists_detached_subset", {"_dataset": s.data, "_group": g},
                            {"group_index": i, "dataset": names.of(s.data)}))
            if getattr(s, "group", None) is not g:
                bad.append(("group_lists_subset_of_other_group", {}, {"group_index": i}))
        # every subset that claims membership shares selection, label and style with the group
        claimed = [s for d in datasets for s in getattr(d, "subsets", ()) if getattr(s, "group", None) is g]
        for s in claimed + [m for m in members if not is_in(m, claimed)]:
            if s.subset_state is not g.subset_state:
                bad.append(("member_selection_differs_from_group", {}, {"group_index": i, "dataset": names.of(s.data)}))
            if s.label != g.label:
                bad.append(("member_label_differs_from_group", {}, {"group_index": i, "member": s.label, "group": g.label}))
            if s.style is not g.style and style_tuple(s.style) != style_tuple(g.style):
                bad.append(("member_style_differs_from_group", {}, {"group_index": i, "dataset": names.of(s.data)}))
    for d in removed_data:
        if is_in(d, datasets):
            continue
        for s in getattr(d, "subsets", ()):
            g = getattr(s, "group", None)
            if g is not None and is_in(g, groups):
                bad.append(("removed_dataset_keeps_member_subset", {"listed_by_group": is_in(s, g.subsets)},
                            {"dataset": names.of(d), "group_label": g.label}))
    for g, n_at_removal in removed_groups:
        if is_in(g, groups):
            continue
        if len(g.subsets) > n_at_removal:
            bad.append(("removed_group_still_grows", {}, {"group_label": g.label, "was": n_at_removal, "now": len(g.subsets)}))
    return bad


# ---------------------------------------------------------------- C13: behavioural snapshot
def mask_of(subset):
    try:
        m = subset.to_mask()
    except IncompatibleAttribute:
        return "incompatible"
    m = np.asarray(m)
    return [list(m.shape), m.astype(int).ravel().tolist()]


def _simple(v):
    if isinstance(v, (int, float, str, bool)) or v is None:
        return v
    if hasattr(v, "label") and not isinstance(v, SubsetState):
        return "cid:%s" % (v.label,)
    if callable(v):
        return getattr(v, "__name__", "callable")
    if isinstance(v, (list, tuple)) and len(v) <= 16 and all(isinstance(x, (int, float)) for x in v):
        return list(v)
    return type(v).__name__


def state_fingerprint(state, depth=0):
    """Structure of a subset-state tree through public attributes: class names, operands (state1 / state2), the members
    of a MultiOrState (their number and their own structure) and the simple parameters of leaves.  Defeats glue's mask
    memo: a state object that was changed in place keeps returning its old mask, but not its old structure."""
    if depth > 200:
        return "..."
    name = type(state).__name__
    members = getattr(state, "states", None)
    if isinstance(members, (list, tuple)):
        return [name, len(members), [state_fingerprint(m, depth + 1) for m in members]]
    out = [name]
    for a in ("state1", "state2"):
        sub = getattr(state, a, None)
        if isinstance(sub, SubsetState):
            out.append(state_fingerprint(sub, depth + 1))
    for a in ("lo", "hi", "att", "left", "right", "operator", "indices", "xatt", "yatt"):
        if hasattr(state, a):
            try:
                out.append([a, _simple(getattr(state, a))])
            except Exception:
                out.append([a, "<unreadable>"])
    return out


def multi_member_count(fp):
    """Total number of MultiOrState members in a fingerprint."""
    if not isinstance(fp, list):
        return 0
    n = 0
    if len(fp) == 3 and isinstance(fp[1], int) and isinstance(fp[2], list) and isinstance(fp[0], str):
        n += fp[1]
    for x in fp:
        if isinstance(x, list):
            n += multi_member_count(x)
    return n


def snapshot(dc, names, edit_mode):
    """(strict, cosmetic) description of the session state named in C13: datasets, groups in
    order with the selection of every member as a mask, the subset -> group map of every
    dataset, the edit-subset choice and the mode.  Object identity is not part of `strict`."""
    datasets = list(dc)
    groups = list(dc.subset_groups)
    dn = [names.of(d) for d in datasets]
    gl = []
    for g in groups:
        members = {}
        for d in datasets:
            members[names.of(d)] = [mask_of(s) for s in getattr(d, "subsets", ()) if getattr(s, "group", None) is g]
        listed = sorted([names.of(s.data) if is_in(s.data, datasets) else "<absent>", bool(is_in(s.data, datasets) and is_in(s, s.data.subsets))]
                        for s in g.subsets)
        # subsets the group lists but that are attached to nothing are not session state a user can see
        listed = [x for x in listed if x[1]]
        gl.append({"members": members, "listed": listed, "state_tree": state_fingerprint(g.subset_state)})
    foreign = {}
    for d in datasets:
        n = sum(1 for s in getattr(d, "subsets", ()) if not is_in(getattr(s, "group", None), groups))
        if n:
            foreign[names.of(d)] = n
    edit = []
    for g in (edit_mode.edit_subset or []):
        idx = [i for i, x in enumerate(groups) if x is g]
        edit.append(idx[0] if idx else "<group not in collection>")
    strict = {"datasets_sorted": sorted(dn), "groups": gl, "foreign": foreign, "edit": edit,
              "mode": MODE_NAMES.get(edit_mode.mode, repr(edit_mode.mode))}
    cosmetic = {"dataset_order": dn, "labels": [g.label for g in groups], "styles": [style_tuple(g.style) for g in groups],
                "group_objs": list(groups)}     # strong references: identity is compared through these, never through id()
    return strict, cosmetic


def diff_fields(a, b, ignore=()):
    """Names of the strict-snapshot fields in which a (observed) and b (expected) differ (structural, sorted).
    Groups are compared pairwise over the common prefix even when their number differs."""
    out = []
    if a["datasets_sorted"] != b["datasets_sorted"]:
        out.append("datasets")
    if len(a["groups"]) != len(b["groups"]):
        out.append("group_count")
    if any(x["members"] != y["members"] for x, y in zip(a["groups"], b["groups"])):
        out.append("member_masks")
    if any(x["listed"] != y["listed"] for x, y in zip(a["groups"], b["groups"])):
        out.append("group_listing")
    if any(x.get("state_tree") != y.get("state_tree") for x, y in zip(a["groups"], b["groups"])):
        out.append("state_tree")
    if a["foreign"] != b["foreign"]:
        out.append("subsets_of_no_live_group")
    if a["edit"] != b["edit"]:
        out.append("edit_subset")
    if a["mode"] != b["mode"]:
        out.append("mode")
    return [f for f in out if f not in ignore]


def mask_changes(a, b):
    """Structural classification of member differences between observed a and expected b (common prefix, common datasets):
    list of (kind, dataset name, group index)."""
    out = []
    for gi, (x, y) in enumerate(zip(a["groups"], b["groups"])):
        for dn in sorted(set(x["members"]) & set(y["members"])):
            mx, my = x["members"][dn], y["members"][dn]
            if mx == my:
                continue
            if len(mx) < len(my):
                out.append(("member_missing", dn, gi))
            elif len(mx) > len(my):
                out.append(("member_extra", dn, gi))
            elif any((p == "incompatible") != (q == "incompatible") for p, q in zip(mx, my)):
                out.append(("compatibility", dn, gi))
            else:
                out.append(("mask_values", dn, gi))
    return out
