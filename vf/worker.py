"""Shard executor: runs the cases of one property assigned to this shard and
dumps what the monitors observed as JSON."""
import argparse
import importlib
import json
import os
import sys
import time
import warnings


def main(argv=None):
    ap = argparse.ArgumentParser()
    ap.add_argument("prop")
    ap.add_argument("--tier", default="quick")
    ap.add_argument("--seed", type=int, default=0)
    ap.add_argument("--shard", type=int, default=0)
    ap.add_argument("--nshards", type=int, default=1)
    ap.add_argument("--budget-s", type=float, default=60.0)
    ap.add_argument("--out", required=True)
    ap.add_argument("--case", default=None, help="JSON case id: run only this case (replay)")
    args = ap.parse_args(argv)

    import vf
    if not os.environ.get(vf.GUARD):
        print("refusing to install monitors: %s is not set" % vf.GUARD)
        return 3
    vf.add_deps()
    warnings.filterwarnings("ignore")
    import logging
    logging.disable(logging.WARNING)
    os.environ.setdefault("MPLBACKEND", "Agg")
    import numpy as np
    np.seterr(all="ignore")
    import glue
    gpath = os.path.realpath(os.path.dirname(glue.__file__))
    if not gpath.startswith(os.path.realpath(vf.REPO) + os.sep):
        out = {"fatal": "glue imported from %s, not from %s" % (gpath, vf.REPO)}
        json.dump(out, open(args.out, "w"))
        return 2

    from vf.ctx import Ctx
    from vf.reach import Reach
    mod = importlib.import_module("vf.props." + args.prop)
    ctx = Ctx(args.prop, args.tier, args.seed, args.shard, args.nshards)
    reach = Reach(getattr(mod, "ANCHORS", []))
    reach.start()
    t0 = time.time()
    truncated = False
    ncases = 0
    if hasattr(mod, "setup"):
        mod.setup(ctx)
    if args.case is not None:
        todo = [json.loads(args.case)]
    else:
        todo = (c for i, c in enumerate(mod.cases(args.tier, args.seed)) if i % args.nshards == args.shard)
    for case in todo:
        if time.time() - t0 > args.budget_s:
            truncated = True
            break
        ctx.begin_case(case)
        try:
            mod.run_case(ctx, case)
        except Exception as exc:  # harness error: inconclusive, never a verdict
            ctx.harness_error(exc)
        ncases += 1
    if hasattr(mod, "finish"):
        try:
            mod.finish(ctx)
        except Exception as exc:
            ctx.begin_case("finish")
            ctx.harness_error(exc)
    out = ctx.dump()
    out["reach"] = reach.stop()
    out["cases_run"] = ncases
    out["truncated"] = truncated
    out["wall_s"] = round(time.time() - t0, 2)
    out["glue_path"] = gpath
    with open(args.out, "w") as f:
        json.dump(out, f)
    return 0


if __name__ == "__main__":
    sys.exit(main())
