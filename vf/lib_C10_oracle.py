"""Reference ("textbook") statistics and histograms for C10.

Deliberately naive: plain Python on the selected values of one output cell at
a time.  Nothing here imports glue.
"""
import math

import numpy as np

STATS = ["minimum", "maximum", "mean", "median", "sum", "percentile"]


def reduce1(stat, values, pct=None):
    """Statistic of a flat sequence of finite floats; NaN when it is empty."""
    vals = sorted(float(v) for v in values)
    n = len(vals)
    if n == 0:
        return float("nan")
    if stat == "minimum":
        return vals[0]
    if stat == "maximum":
        return vals[-1]
    if stat == "sum":
        return math.fsum(vals)
    if stat == "mean":
        return math.fsum(vals) / n
    if stat == "median":
        return vals[n // 2] if n % 2 else 0.5 * (vals[n // 2 - 1] + vals[n // 2])
    if stat == "percentile":
        # linear interpolation between closest ranks (the numpy/textbook default)
        r = (n - 1) * (float(pct) / 100.0)
        lo = int(math.floor(r))
        hi = min(lo + 1, n - 1)
        return vals[lo] + (vals[hi] - vals[lo]) * (r - lo)
    raise ValueError(stat)


def norm_axis(axis):
    if axis is None:
        return None
    if isinstance(axis, (int, np.integer)):
        return (int(axis),)
    return tuple(int(a) for a in axis)


def ref_statistic(stat, arr, keep, axis, pct=None):
    """arr: viewed values (float ndarray, any ndim incl. 0); keep: bool mask of the same shape;
    axis: None | int | tuple of non-negative ints valid for arr.ndim.  Returns a float ndarray of the
    textbook shape (arr.shape without the reduced axes; () when axis is None)."""
    arr = np.asarray(arr, dtype=float)
    keep = np.asarray(keep, dtype=bool)
    assert arr.shape == keep.shape
    axes = norm_axis(axis)
    if axes is None:
        return np.asarray(reduce1(stat, arr[keep].tolist(), pct))
    rest = [i for i in range(arr.ndim) if i not in axes]
    out_shape = tuple(arr.shape[i] for i in rest)
    out = np.full(out_shape, np.nan)
    for idx in np.ndindex(*out_shape):
        full = [slice(None)] * arr.ndim
        for pos, i in enumerate(rest):
            full[i] = idx[pos]
        full = tuple(full)
        cell = np.asarray(arr[full])
        kc = np.asarray(keep[full])
        out[idx] = reduce1(stat, cell[kc].tolist(), pct)
    return out


def close(got, exp, rtol=1e-9, vscale=0.0):
    """Element-wise agreement, NaN == NaN; shapes must already agree.  The tolerance is relative to the compared
    quantity: rtol times the largest expected magnitude or - for results that cancel to (nearly) nothing - the largest
    magnitude among the values that went in (`vscale`).  No absolute floor: statistics of 1e-10-sized data are held
    to 1e-19."""
    got = np.asarray(got, dtype=float)
    exp = np.asarray(exp, dtype=float)
    fin = np.isfinite(exp)
    scale = float(np.max(np.abs(exp[fin]))) if exp.size and np.any(fin) else 0.0
    return bool(np.allclose(got, exp, rtol=rtol, atol=rtol * max(scale, float(vscale)), equal_nan=True))


# ---------------------------------------------------------------- histogram
EDGE_TOL = 1e-7     # in units of one bin width


def hist_positions(x, lo, hi, nbins, log):
    """Fractional bin coordinate t in [0, nbins] of every value (values must lie in the closed range)."""
    x = np.asarray(x, dtype=float)
    if log:
        x, lo, hi = np.log10(x), math.log10(lo), math.log10(hi)
    return (x - lo) / (hi - lo) * nbins


def ref_histogram(x, w, lo, hi, nbins, log):
    """x: the selected, non-NaN values inside the closed range [lo, hi]; w: weights or None.
    Returns (definite, ambiguous, total):
      definite[b]  weight that the definition puts into bin b whatever the edge convention,
      ambiguous    list of (k, weight): values within EDGE_TOL of interior edge k (between bins k-1 and k),
      total        total weight."""
    t = hist_positions(x, lo, hi, nbins, log)
    wt = np.ones(len(t)) if w is None else np.asarray(w, dtype=float)
    definite = [0.0] * nbins
    ambiguous = []
    for ti, wi in zip(t.tolist(), wt.tolist()):
        k = round(ti)
        if abs(ti - k) <= EDGE_TOL and 0 < k < nbins:
            ambiguous.append((int(k), wi))
            continue
        b = int(math.floor(ti))
        if abs(ti - k) <= EDGE_TOL:     # the two ends of the closed range
            b = 0 if k <= 0 else nbins - 1
        b = min(max(b, 0), nbins - 1)
        definite[b] += wi
    return definite, ambiguous, float(math.fsum(wt.tolist()))


def hist_consistent(got, definite, ambiguous, weighted):
    """Is `got` reachable from `definite` by putting every ambiguous value into one of its two neighbours?"""
    n = len(definite)
    got = [float(g) for g in got]
    if len(got) != n:
        return False
    scale = max([1.0] + [abs(g) for g in got] + [abs(d) for d in definite])
    tol = 1e-9 * scale

    if not ambiguous:
        return all(abs(g - d) <= tol for g, d in zip(got, definite))
    if not weighted:
        # unit weights: a[k] values sit on edge k, x[k] of them go down into bin k-1
        a = [0] * (n + 1)
        for k, _ in ambiguous:
            a[k] += 1
        x = 0.0      # x[0] = 0
        for b in range(n):
            # got[b] = definite[b] + (a[b] - x[b]) + x[b+1]
            xn = got[b] - definite[b] - (a[b] - x)
            if xn < -tol or xn > a[b + 1] + tol:
                return False
            x = xn
        return abs(x) <= tol       # a[n] = 0: nothing sits on the upper end
    # weighted: few ambiguous values -> enumerate; many -> try the two uniform conventions and give up otherwise
    if len(ambiguous) <= 12:
        for choice in range(1 << len(ambiguous)):
            cand = list(definite)
            for j, (k, wi) in enumerate(ambiguous):
                cand[k - 1 if (choice >> j) & 1 else k] += wi
            if all(abs(g - c) <= tol for g, c in zip(got, cand)):
                return True
        return False
    for down in (True, False):
        cand = list(definite)
        for k, wi in ambiguous:
            cand[k - 1 if down else k] += wi
        if all(abs(g - c) <= tol for g, c in zip(got, cand)):
            return True
    return None     # undecided
