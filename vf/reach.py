"""Line reach of anchored functions via sys.monitoring (evidence only, never deciding)."""
import importlib
import sys


class Reach:
    def __init__(self, anchors):
        self.anchors = anchors
        self.codes = {}     # code -> name
        self.hit = {}       # code -> set(lines)
        self.missing = []
        self.active = False

    def _resolve(self, spec):
        modname, _, qual = spec.partition(":")
        obj = importlib.import_module(modname)
        for part in qual.split("."):
            obj = getattr(obj, part)
        seen = 0
        while not hasattr(obj, "__code__") and seen < 6:
            seen += 1
            if isinstance(obj, property):
                obj = obj.fget
            elif hasattr(obj, "__wrapped__"):
                obj = obj.__wrapped__
            elif hasattr(obj, "__func__"):
                obj = obj.__func__
            else:
                break
        # unwrap decorators that keep the original in a closure (memoize, contract)
        while hasattr(obj, "__wrapped__"):
            obj = obj.__wrapped__
        return obj.__code__

    def start(self):
        if not hasattr(sys, "monitoring") or not self.anchors:
            return
        mon = sys.monitoring
        self.tool = mon.PROFILER_ID
        try:
            mon.use_tool_id(self.tool, "vf-reach")
        except ValueError:
            return
        for spec in self.anchors:
            try:
                code = self._resolve(spec)
            except Exception:
                self.missing.append(spec)
                continue
            self.codes[code] = spec
            self.hit[code] = set()

        def on_line(code, line):
            h = self.hit.get(code)
            if h is not None:
                h.add(line)
            return mon.DISABLE
        mon.register_callback(self.tool, mon.events.LINE, on_line)
        for code in self.codes:
            mon.set_local_events(self.tool, code, mon.events.LINE)
        self.active = True

    def stop(self):
        out = {}
        for code, spec in self.codes.items():
            lines = set()
            for (_, _, ln) in code.co_lines():
                if ln is not None and ln != code.co_firstlineno:
                    lines.add(ln)
            hit = self.hit[code] & lines if lines else self.hit[code]
            out[spec] = {"lines_hit": len(hit), "lines_total": len(lines)}
        for spec in self.missing:
            out[spec] = "anchor not found"
        if self.active:
            mon = sys.monitoring
            for code in self.codes:
                mon.set_local_events(self.tool, code, 0)
            mon.register_callback(self.tool, mon.events.LINE, None)
            mon.free_tool_id(self.tool)
            self.active = False
        return out
