import numpy as np, operator, random, traceback, collections
from glue.core import Data, DataCollection
from glue.core.subset import *
from glue.core import subset as S
from glue.core.roi import *
from glue.core.coordinates import AffineCoordinates, IdentityCoordinates
from glue.core.exceptions import IncompatibleAttribute

rng = random.Random(1)
def mkdata(shape, coords):
    n = int(np.prod(shape))
    vals = np.array([rng.choice([-2.,-1.,0.,1.,2.,3.,np.nan]) for _ in range(n)]).reshape(shape)
    vals2 = np.arange(n, dtype=float).reshape(shape)
    cat = np.array([rng.choice(['a','b','c']) for _ in range(n)]).reshape(shape)
    kw = {}
    if coords == 'affine':
        nd = len(shape); m = np.eye(nd+1); 
        for i in range(nd): m[i,i] = 2+i; m[i,-1] = i
        if nd>1: m[0,1] = 0.5
        kw['coords'] = AffineCoordinates(m)
    elif coords == 'identity':
        kw['coords'] = IdentityCoordinates(n_dim=len(shape))
    d = Data(label='d', v=vals, w=vals2, **kw)
    if len(shape)==1: d.add_component(cat, 'c')
    d.add_component_link(d.id['v']*2 + d.id['w'], 'der')
    return d

def views(shape):
    nd = len(shape)
    out = [None, Ellipsis]
    def rs(n):
        a = rng.randrange(0, n+1); b = rng.randrange(0, n+1); st = rng.choice([None,1,2,3])
        return rng.choice([slice(None), slice(a,b,st), slice(a,None,st), slice(None,b,st)])
    for _ in range(6):
        k = rng.randrange(1, nd+1)
        out.append(tuple(rs(shape[i]) for i in range(k)))
    for _ in range(4):
        v = []
        for i in range(nd):
            v.append(rng.randrange(shape[i]) if rng.random()<0.5 else rs(shape[i]))
        out.append(tuple(v))
    out.append(tuple(np.array([rng.randrange(s) for _ in range(5)]) for s in shape))
    out.append(np.array([rng.random()<0.5 for _ in range(int(np.prod(shape)))]).reshape(shape))
    if nd==1: out.append(slice(0,2))
    return out

def states(d):
    v,w = d.id['v'], d.id['w']
    px = d.pixel_component_ids
    out = {
      'ineq': v > 0, 'ineq2': v <= w, 'range': RangeSubsetState(0, 2, v),
      'multirange': MultiRangeSubsetState([(-2,-1),(2,3)], v),
      'and': (v>0)&(w>2), 'or': (v>0)|(w<2), 'xor': (v>0)^(w>2), 'inv': ~(v>0),
      'multior': MultiOrState([v>1, w<1, v<-1]),
      'mask': MaskSubsetState(np.array([rng.random()<0.5 for _ in range(d.size)]).reshape(d.shape), px),
      'slice': SliceSubsetState(d, [slice(rng.randrange(0,2), rng.randrange(1,s+1), rng.choice([None,1,2])) for s in d.shape]),
      'element': ElementSubsetState([0, d.size-1], d),
      'der': d.id['der'] > 1,
      'pixrange': RangeSubsetState(0.5, 1.5, px[0]),
      'empty': SubsetState(),
    }
    if d.ndim >= 2:
        out['roi_pix'] = RoiSubsetState(px[-1], px[-2], RectangularROI(-0.5,1.5,0.5,2.5))
        out['roi_pix_circ'] = RoiSubsetState(px[0], px[-1], CircularROI(1,1,1.2))
        out['roi_vw'] = RoiSubsetState(v, w, PolygonalROI([-3,4,4,-3],[-1,-1,6,6]))
    if d.coords is not None:
        wc = d.world_component_ids
        out['world'] = wc[0] > 1.5
        if d.ndim>=2: out['roi_world'] = RoiSubsetState(wc[-1], wc[-2], RectangularROI(-0.5,3.5,0.5,6.5))
    if d.ndim == 1:
        c = d.id['c']
        out['catroi'] = CategoricalROISubsetState(att=c, roi=CategoricalROI(['a','c']))
        out['cat2d'] = CategoricalROISubsetState2D({'a': {'a'}, 'b': {'b'}}, c, c)
        out['catmulti'] = CategoricalMultiRangeSubsetState({'a': [(0,3)], 'b': [(-3,-0.5)]}, c, v)
        out['category'] = CategorySubsetState(c, [0,2])
    return out

fails = collections.Counter(); examples = {}; n=0
for shape in [(4,), (3,4), (2,3,4), (1,3), (5,1)]:
  for coords in [None, 'affine', 'identity']:
    d = mkdata(shape, coords)
    for name, st in states(d).items():
        try:
            full = np.array(d.get_mask(st))
        except Exception as e:
            fails[(name,'FULL-EXC',type(e).__name__)] += 1; examples.setdefault((name,'FULL-EXC',type(e).__name__), (shape, coords, repr(e)[:80])); continue
        if full.shape != d.shape:
            fails[(name,'FULLSHAPE')] += 1; examples.setdefault((name,'FULLSHAPE'), (shape, coords, full.shape)); continue
        for vw in views(shape):
            n+=1
            exp = full[vw] if vw is not None else full
            try:
                got = np.array(d.get_mask(st, view=vw))
            except Exception as e:
                key=(name,'EXC',type(e).__name__, type(vw).__name__); fails[key]+=1; examples.setdefault(key,(shape,coords,str(vw)[:80],repr(e)[:80])); continue
            if got.shape != exp.shape: key=(name,'SHAPE'); fails[key]+=1; examples.setdefault(key,(shape,coords,str(vw)[:80],got.shape,exp.shape))
            elif not np.array_equal(got, exp): key=(name,'VALUE'); fails[key]+=1; examples.setdefault(key,(shape,coords,str(vw)[:80]))
    # values
    for cid in d.components:
        full = d[cid]
        for vw in views(shape):
            n+=1
            if vw is None: continue
            try: got = d[cid, vw]
            except Exception as e:
                key=('DATA:'+type(d.get_component(cid)).__name__,'EXC',type(e).__name__); fails[key]+=1; examples.setdefault(key,(shape,coords,str(vw)[:80],repr(e)[:80])); continue
            exp = np.asarray(full)[vw]
            if np.shape(got)!=exp.shape: key=('DATA:'+type(d.get_component(cid)).__name__,'SHAPE'); fails[key]+=1; examples.setdefault(key,(shape,coords,str(vw)[:80],np.shape(got),exp.shape))
            elif not np.array_equal(np.asarray(got), exp, equal_nan=True) if np.asarray(got).dtype.kind=='f' else not np.array_equal(np.asarray(got), exp):
                key=('DATA:'+type(d.get_component(cid)).__name__,'VALUE'); fails[key]+=1; examples.setdefault(key,(shape,coords,str(vw)[:80]))
print("cases", n)
for k,v in sorted(fails.items(), key=str): print(v, k, examples[k])
