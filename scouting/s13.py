import numpy as np, random, collections, warnings, itertools
warnings.simplefilter('ignore')
from glue.core import Data, DataCollection
from glue.core.coordinates import AffineCoordinates, IdentityCoordinates
from glue.core.component_link import ComponentLink
from glue.core.fixed_resolution_buffer import compute_fixed_resolution_buffer as frb
rng = random.Random(5)
fails = collections.Counter(); ex={}
# C15
n=0
for t in range(300):
    nd = rng.choice([1,2,3]); shape = tuple(rng.randrange(1,5) for _ in range(nd))
    m = np.eye(nd+1)
    kind = rng.choice(['diag','coupled','perm','full'])
    for i in range(nd): m[i,i]=rng.choice([1.,2.,-1.5,0.5]); m[i,-1]=rng.choice([0.,1.,-2.5])
    if kind=='coupled' and nd>1:
        i,j = rng.sample(range(nd),2); m[i,j]=rng.choice([0.5,-1.])
    if kind=='perm' and nd>1:
        p = list(range(nd)); rng.shuffle(p); m[:nd,:nd] = m[:nd,:nd][p]
    if kind=='full':
        m[:nd,:nd] = np.array([[rng.choice([1.,2.,-1.,.5,3.]) for _ in range(nd)] for _ in range(nd)])
    if abs(np.linalg.det(m))<1e-6: continue
    coords = AffineCoordinates(m) if rng.random()<0.85 else IdentityCoordinates(n_dim=nd)
    d = Data(v=np.arange(int(np.prod(shape)),dtype=float).reshape(shape), coords=coords, label='d')
    grids = np.meshgrid(*[np.arange(s, dtype=float) for s in shape], indexing='ij')
    w = coords.pixel_to_world_values(*grids[::-1])
    if nd==1: w=[w]
    w = [np.broadcast_to(np.asarray(a, float), shape) for a in w][::-1]   # numpy order
    for i, wc in enumerate(d.world_component_ids):
        n+=1
        got = np.array(d[wc])
        if got.shape!=tuple(shape) or not np.allclose(got, w[i]):
            key=('WORLD', kind, nd); fails[key]+=1; ex.setdefault(key,(shape, m.tolist(), i, got.tolist(), w[i].tolist()))
        # views
        for _ in range(3):
            view = tuple(rng.choice([slice(None), slice(rng.randrange(0,s), None, rng.choice([1,2])), rng.randrange(s)]) for s in shape[:rng.randrange(1,nd+1)])
            try:
                gv = np.array(d[wc, view])
                if gv.shape != w[i][view].shape or not np.allclose(gv, w[i][view]): key=('WORLDVIEW',kind,nd); fails[key]+=1; ex.setdefault(key,(shape,m.tolist(),i,str(view)))
            except Exception as e:
                key=('WORLDVIEW-EXC',type(e).__name__); fails[key]+=1; ex.setdefault(key,(shape,str(view),repr(e)[:80]))
    # links
    for link in d.coordinate_links:
        n+=1
        try:
            got = np.array(link.compute(d))
        except Exception as e:
            key=('LINK-EXC', type(e).__name__, link.pixel2world); fails[key]+=1; ex.setdefault(key,(shape,m.tolist(),repr(e)[:80])); continue
        if link.pixel2world: exp = w[link.index]
        else: exp = grids[link.index]
        if got.shape!=tuple(shape) or not np.allclose(got, exp, atol=1e-8):
            key=('LINK', kind, nd, link.pixel2world); fails[key]+=1; ex.setdefault(key,(shape,m.tolist(),link.index,got.tolist(),np.asarray(exp).tolist()))
print("C15 cases", n)
for k,c in sorted(fails.items(), key=str): print(c,k,str(ex[k])[:400])
