import numpy as np, random, collections, warnings
warnings.simplefilter('ignore')
from glue.core import Data, DataCollection
from glue.core.state_objects import State
from glue.core.data_combo_helper import ComponentIDComboHelper, DataCollectionComboHelper, ManualDataComboHelper
from echo import SelectionCallbackProperty, ChoiceSeparator
from glue.core.coordinates import IdentityCoordinates
rng=random.Random(37); fails=collections.Counter(); ex={}; n=0
class S(State):
    att = SelectionCallbackProperty()
    data = SelectionCallbackProperty()
def expected(h):
    out=[]
    if h.none: out.append(None)
    for d in h._data:
        for c in d.main_components:
            k=d.get_kind(c)
            if (k=='numerical' and h.numeric) or (k=='datetime' and h.datetime) or (k=='categorical' and h.categorical): out.append(c)
        if h.numeric and h.derived:
            out += [c for c in d.derived_components if c.parent is d]
        if h.pixel_coord: out += list(d.pixel_component_ids)
        if h.world_coord: out += list(d.world_component_ids)
    return out
for trial in range(300):
    datas=[Data(label='d%d'%i, x=np.arange(3.), c=np.array(['a','b','a']), t=np.array(['2020-01-01','2020-01-02','2020-01-03'],dtype='datetime64[D]'), coords=IdentityCoordinates(n_dim=1) if i%2 else None) for i in range(3)]
    for d in datas: d.add_component_link(d.id['x']*2,'der')
    dc=DataCollection(datas[:2]); s=S()
    h=ComponentIDComboHelper(s,'att',data_collection=dc)
    dh=DataCollectionComboHelper(s,'data',dc)
    hist=[]
    for step in range(rng.randrange(3,12)):
        op=rng.choice(['append_h','remove_h','flag','addcomp','rmcomp','rmdata','adddata','select','reorder','rename','delay_rmcomp','rmselected'])
        hist.append(op)
        try:
            if op=='append_h': d=rng.choice(list(dc)); h.append_data(d)
            elif op=='remove_h' and h._data: h.remove_data(rng.choice(h._data))
            elif op=='flag': setattr(h, rng.choice(['numeric','categorical','datetime','pixel_coord','world_coord','derived','none']), rng.random()<0.5)
            elif op=='addcomp': d=rng.choice(list(dc)); d.add_component(np.arange(3.)+step,'n%d'%step)
            elif op=='rmcomp':
                d=rng.choice(list(dc)); mc=d.main_components
                if len(mc)>1: d.remove_component(rng.choice(mc))
            elif op=='rmselected' and s.att is not None and s.att.parent is not None and s.att in s.att.parent.main_components and len(s.att.parent.main_components)>1:
                s.att.parent.remove_component(s.att)
            elif op=='delay_rmcomp':
                d=rng.choice(list(dc)); mc=d.main_components
                with dc.hub.delay_callbacks():
                    if len(mc)>1: d.remove_component(rng.choice(mc))
                    d.add_component(np.arange(3.),'m%d'%step)
            elif op=='rmdata' and len(dc)>1: dc.remove(rng.choice(list(dc)))
            elif op=='adddata': dc.append(rng.choice(datas))
            elif op=='select' and [c for c in h.choices if not isinstance(c,ChoiceSeparator)]: s.att=rng.choice([c for c in h.choices if not isinstance(c,ChoiceSeparator)])
            elif op=='reorder': d=rng.choice(list(dc)); c=list(d.components); rng.shuffle(c); d.reorder_components(c)
            elif op=='rename': d=rng.choice(list(dc)); rng.choice(d.main_components).label='r%d'%step
        except Exception as e:
            key=('OP-EXC',op,type(e).__name__); fails[key]+=1; ex.setdefault(key,(hist[:],repr(e)[:120])); continue
        n+=1
        got=[c for c in h.choices if not isinstance(c,ChoiceSeparator)]; exp=expected(h)
        if [id(c) for c in got]!=[id(c) for c in exp]: key=('CHOICES',op); fails[key]+=1; ex.setdefault(key,(hist[:],[str(c) for c in got],[str(c) for c in exp]))
        if got and not any(s.att is c for c in got): key=('SELECTION-NOT-IN-CHOICES',op); fails[key]+=1; ex.setdefault(key,(hist[:],str(s.att)))
        if not got and s.att is not None: key=('SELECTION-WHEN-EMPTY',op); fails[key]+=1; ex.setdefault(key,(hist[:],str(s.att)))
        if any(d not in dc for d in h._data): key=('HELPER-HOLDS-REMOVED-DATA',op); fails[key]+=1; ex.setdefault(key,hist[:])
        if [id(d) for d in dh.choices]!=[id(d) for d in dc]: key=('DCHELPER',op); fails[key]+=1; ex.setdefault(key,hist[:])
        if len(dc)>0 and not any(s.data is d for d in dc): key=('DCSEL',op); fails[key]+=1; ex.setdefault(key,hist[:])
print("combo", n)
for k_,c_ in sorted(fails.items(), key=str): print(c_,k_,str(ex.get(k_))[:300])
