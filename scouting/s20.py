import numpy as np, warnings, json
warnings.simplefilter('ignore')
from glue.core import Data, DataCollection
from glue.core.state import GlueSerializer, GlueUnSerializer
from glue.core.link_helpers import LinkAligned, LinkSame, JoinLink
from glue.core.component_link import ComponentLink

def clone(o):
    return GlueUnSerializer.loads(GlueSerializer(o, include_data=True).dumps()).object('__main__')
# LinkAligned
d1 = Data(x=np.zeros((2,3)), label='d1'); d2 = Data(y=np.ones((2,3)), label='d2')
dc = DataCollection([d1,d2]); dc.add_link(LinkAligned(d1,d2))
print("aligned before:", d2[d1.pixel_component_ids[0]].tolist())
try:
    dc2 = clone(dc); print("LinkAligned restored; links", len(dc2.external_links)); print(dc2[1][dc2[0].pixel_component_ids[0]].tolist())
except Exception as e: print("LinkAligned restore FAIL", type(e).__name__, str(e)[:120])
# JoinLink
d1 = Data(k=[1,2,3], v=[1.,2.,3.], label='d1'); d2 = Data(j=[3,2,9], label='d2')
dc = DataCollection([d1,d2]); dc.add_link(JoinLink(cids1=[d1.id['k']], cids2=[d2.id['j']], data1=d1, data2=d2))
print("join before", d2.get_mask(d1.id['v']>1.5).astype(int))
try:
    dc2 = clone(dc); print("JoinLink restored", dc2[1].get_mask(dc2[0].id['v']>1.5).astype(int), len(dc2.external_links))
except Exception as e: print("JoinLink restore FAIL", type(e).__name__, str(e)[:150])

# C11 string widths n-n
d1 = Data(a=np.array(['x','yy','zzzz','w']), b=np.array(['k','k','l','l']), v=[10.,20.,30.,40.], label='d1')
d2 = Data(p=np.array(['yy','zz','q']), q=np.array(['k','l','k']), label='d2')
print("dtypes", d1['a'].dtype, d2['p'].dtype)
d2.join_on_key(d1, ('p','q'), ('a','b'))
try: print("n-n str widths differ: got", d2.get_mask(d1.id['v']>15).astype(int), "expect [1 0 0]")
except Exception as e: print("n-n str err", repr(e)[:100])
d1 = Data(a=np.array(['x','yy','zzzz','w']), v=[10.,20.,30.,40.], label='d1'); d2 = Data(p=np.array(['yy','zz','q']), label='d2')
d2.join_on_key(d1,'p','a'); print("1-1 str widths differ:", d2.get_mask(d1.id['v']>15).astype(int), "expect [1 0 0]")
# float -0.0
d1 = Data(a=np.array([0.0, 1.0]), b=np.array([1.,1.]), v=[10.,20.], label='d1'); d2 = Data(p=np.array([-0.0, 5.0]), q=np.array([1.,1.]), label='d2')
d2.join_on_key(d1,('p','q'),('a','b')); print("n-n -0.0:", d2.get_mask(d1.id['v']>5).astype(int), "expect [1 0]")
