import numpy as np, warnings
warnings.simplefilter('ignore')
from glue.core import Data, DataCollection
from glue.core.state import GlueSerializer, GlueUnSerializer
from glue.core.component_link import ComponentLink
from glue.core.component_id import ComponentID
def dbl(x): return x*2
import __main__
class VS(GlueSerializer):
    def __init__(self, obj, force, **kw):
        self.force = force; super().__init__(obj, **kw)
    def _dispatch(self, obj):
        if not hasattr(obj, '__gluestate__'):
            for typ in type(obj).mro():
                if typ in self.force:
                    return self.dispatch.get_version(typ, self.force[typ]), self.force[typ]
        return super()._dispatch(obj)
import glue.core.link_helpers as lh
for kind in ['binary', 'function']:
  for cv in [1,2,3,4]:
    d1 = Data(x=[1.,2.,3.], label='d1')
    if kind=='binary': d1.add_component_link(d1.id['x']*2, 'dbl')
    else: d1.add_component_link(ComponentLink([d1.id['x']], ComponentID('dbl'), using=lh.identity), 'dbl')
    dc = DataCollection([d1])
    try:
        s = VS(dc, {DataCollection: cv}, include_data=True).dumps()
        dc2 = GlueUnSerializer.loads(s).object('__main__')
        print(kind, 'DC v%d'%cv, [c.label for c in dc2[0].components], end=' ')
        try: print(dc2[0]['dbl'].tolist())
        except Exception as e: print("READ FAIL", type(e).__name__)
    except Exception as e: print(kind, cv, "FAIL", type(e).__name__, str(e)[:150])
