import numpy as np, warnings
warnings.simplefilter('ignore')
import matplotlib; matplotlib.use('Agg')
from glue.core import Data, DataCollection
from glue.core.application_base import Application
from glue.core.state import GlueSerializer, GlueUnSerializer
from glue.viewers.histogram.viewer import SimpleHistogramViewer
from glue.viewers.scatter.viewer import SimpleScatterViewer
from glue.viewers.image.viewer import SimpleImageViewer
from glue.viewers.profile.viewer import SimpleProfileViewer

for V in [SimpleHistogramViewer, SimpleScatterViewer, SimpleImageViewer, SimpleProfileViewer]:
    d = Data(x=np.arange(24.).reshape(2,3,4), y=np.arange(24.).reshape(2,3,4)**2, label='d')
    d1 = Data(a=[1.,2.,3.], b=[2.,3.,4.], label='d1')
    dc = DataCollection([d, d1])
    app = Application(dc)
    v = app.new_data_viewer(V, data=d)
    dc.new_subset_group(subset_state=d.id['x']>5, label='s')
    print(V.__name__, "layers", [str(l.layer.label) for l in v.layers], "state.layers", len(v.state.layers))
    try:
        s = GlueSerializer(v, include_data=True).dumps()
        v2 = GlueUnSerializer.loads(s).object('__main__')
        print("   restored layers", [str(l.layer.label) for l in v2.layers], len(v2.state.layers))
    except Exception as e:
        print("   RESTORE FAIL", type(e).__name__, str(e)[:150])
    dc.remove(d)
    print("   after remove data: layers", len(v.layers), len(v.state.layers))
