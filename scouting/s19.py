import numpy as np, random, collections, warnings, operator
warnings.simplefilter('ignore')
from glue.core import Data, DataCollection
from glue.core.subset import *
from glue.core.roi import *
from glue.core.session import Session
from glue.core.edit_subset_mode import *
rng = random.Random(23)
fails = collections.Counter(); ex={}; n=0
def leaf_recipes(d):
    v,w = d.id['v'], d.id['w']; px=d.pixel_component_ids
    R = [lambda: v>0, lambda: w<=3, lambda: RangeSubsetState(0,2,v), lambda: MultiRangeSubsetState([(-2,-1),(2,3)],v),
         lambda: MaskSubsetState((np.arange(d.size).reshape(d.shape)%3==0), px), lambda: SliceSubsetState(d,[slice(0,2)]*d.ndim),
         lambda: ElementSubsetState([0,d.size-1],d), lambda: SubsetState(), lambda: RangeSubsetState(0.5,1.5,px[0]),
         lambda: RoiSubsetState(v,w,RectangularROI(-1.5,1.5,-0.5,4.5)), lambda: d.id['der']>1]
    if d.ndim>=2: R.append(lambda: RoiSubsetState(px[-1],px[-2],CircularROI(1,1,1.3)))
    if d.ndim==1:
        c=d.id['c']; R += [lambda: CategoricalROISubsetState(att=c,roi=CategoricalROI(['a'])), lambda: CategorySubsetState(c,[1]), lambda: CategoricalMultiRangeSubsetState({'a':[(0,3)]},c,v)]
    return R
def gen(depth, nleaf):
    if depth==0 or rng.random()<0.25: return ('leaf', rng.randrange(nleaf))
    k = rng.choice(['and','or','xor','not','multior'])
    if k=='not': return ('not', gen(depth-1,nleaf))
    if k=='multior': return ('multior', [gen(depth-1,nleaf) for _ in range(rng.randrange(1,4))])
    return (k, gen(depth-1,nleaf), gen(depth-1,nleaf))
def build(t, leaves):
    if t[0]=='leaf': return leaves[t[1]]
    if t[0]=='not': return ~build(t[1],leaves)
    if t[0]=='multior': return MultiOrState([build(x,leaves) for x in t[1]])
    a,b=build(t[1],leaves),build(t[2],leaves)
    return {'and':operator.and_,'or':operator.or_,'xor':operator.xor}[t[0]](a,b)
def ev(t, M):
    if t[0]=='leaf': return M[t[1]]
    if t[0]=='not': return ~ev(t[1],M)
    if t[0]=='multior':
        r=np.zeros_like(M[0])
        for x in t[1]: r = r|ev(x,M)
        return r
    a,b=ev(t[1],M),ev(t[2],M)
    return {'and':operator.and_,'or':operator.or_,'xor':operator.xor}[t[0]](a,b)
for trial in range(400):
    shape = rng.choice([(5,),(3,4),(2,3,2)])
    size=int(np.prod(shape))
    d = Data(label='d', v=np.array([rng.choice([-2.,-1.,0.,1.,2.,3.,np.nan]) for _ in range(size)]).reshape(shape), w=np.arange(size,dtype=float).reshape(shape))
    if len(shape)==1: d.add_component(np.array([rng.choice('abc') for _ in range(size)]),'c')
    d.add_component_link(d.id['v']*2+d.id['w'],'der')
    R = leaf_recipes(d)
    M = [np.array(d.get_mask(r())) for r in R]
    leaves = [r() for r in R]
    t = gen(rng.randrange(1,5), len(R))
    n+=1
    try:
        st = build(t, leaves)
        order = rng.random()
        if order<0.3:
            for l in leaves: d.get_mask(l)
        got = np.array(d.get_mask(st))
        got2 = np.array(d.get_mask(st)); got3=np.array(d.get_mask(st.copy()))
    except Exception as e:
        key=('EXC',type(e).__name__); fails[key]+=1; ex.setdefault(key,(t,repr(e)[:100])); continue
    exp = ev(t,M)
    if got.shape!=d.shape or not np.array_equal(got,exp) or not np.array_equal(got2,exp) or not np.array_equal(got3,exp):
        key=('VALUE',t[0]); fails[key]+=1; ex.setdefault(key,(shape,t))
    for i,l in enumerate(leaves):
        if not np.array_equal(np.array(d.get_mask(l)), M[i]): key=('OPERAND',type(l).__name__); fails[key]+=1; ex.setdefault(key,(shape,t,i))
print("C01", n)
for k,c in sorted(fails.items(), key=str): print(c,k,str(ex[k])[:300])
