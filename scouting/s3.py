import numpy as np, operator
from glue.core import Data, DataCollection
from glue.core.session import Session
from glue.core.command import *
from glue.core.edit_subset_mode import *

d1 = Data(x=[1.,2.,3.], label='d1'); d2 = Data(y=[1.,2.], label='d2')
dc = DataCollection([d1, d2])
g = dc.new_subset_group(subset_state=d1.id['x']>1, label='g')
print("init", [len(d.subsets) for d in (d1,d2)], len(g.subsets))
dc.remove(d2)
print("after remove d2: d2.subsets", len(d2.subsets), "group subsets", len(g.subsets), 'd2 hub', d2.hub is not None)
dc.append(d2)
print("after re-append d2: d2.subsets", len(d2.subsets), [s.label for s in d2.subsets], "group subsets", len(g.subsets))
# remove group, check
dc.remove_subset_group(g)
print("after remove group: d1.subsets", len(d1.subsets), "d2.subsets", len(d2.subsets), "g.subsets", len(g.subsets))
# after removal, does removed group still react to new data?
d3 = Data(z=[1.], label='d3'); dc.append(d3)
print("d3 subsets after removed group", len(d3.subsets), "g.subsets", len(g.subsets))

# merge
d1 = Data(x=[1.,2.,3.], label='a1'); d2 = Data(y=[1.,2.,3.], label='a2')
dc = DataCollection([d1, d2]); g = dc.new_subset_group(subset_state=d1.id['x']>1)
m = dc.merge(d1, d2)
print("merge: datasets", [d.label for d in dc], "m.subsets", len(m.subsets), "g.subsets", len(g.subsets), [s.data.label for s in g.subsets])

# C13
d1 = Data(x=[1.,2.,3.], label='d1')
dc = DataCollection([d1]); s = Session(data_collection=dc)
def snap():
    return dict(groups=len(dc.subset_groups), subsets=[len(d.subsets) for d in dc], masks=[[s_.to_mask().tolist() for s_ in d.subsets] for d in dc], edit=len(s.edit_subset_mode.edit_subset))
print("C13 start", snap())
s.command_stack.do(ApplySubsetState(data_collection=dc, subset_state=d1.id['x']>1))
print("after do", snap())
s.command_stack.undo()
print("after undo", snap())
s.command_stack.redo()
print("after redo", snap())
