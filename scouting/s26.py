import numpy as np, random, collections, warnings, os
warnings.simplefilter('ignore')
from glue.core import Data, DataCollection
from glue.core.data_factories import load_data
from glue.config import data_exporter
from glue.core.data_exporters import astropy_table, hdf5, gridded_fits
from glue.core.state import GlueSerializer, GlueUnSerializer
exps={e.label:e for e in data_exporter.members}
rng=random.Random(43); fails=collections.Counter(); ex={}; n=0
for t in range(40):
    nd=rng.choice([2,3]); shape=tuple(rng.randrange(1,4) for _ in range(nd)); size=int(np.prod(shape))
    cols={'fa':np.array([rng.choice([1.5,-2.,np.nan,0.]) for _ in range(size)]).reshape(shape), 'ib':np.arange(size).reshape(shape)-2}
    d=Data(label='img',**cols); dc=DataCollection([d])
    sel=rng.choice(['none','some','empty','all'])
    if sel!='none':
        dc.new_subset_group(subset_state=d.id['ib']>={'some':0,'empty':99,'all':-99}[sel]); obj=d.subsets[0]; mask=obj.to_mask()
    else: obj=d; mask=np.ones(shape,bool)
    for label,ext in [('FITS (1 component/HDU)','fits'),('HDF5','hdf5')]:
        n+=1; path='w/g%d.%s'%(t,ext)
        try: exps[label].function(path,obj)
        except Exception as e: key=('WRITE',label,sel,type(e).__name__); fails[key]+=1; ex.setdefault(key,repr(e)[:120]); continue
        try:
            back=load_data(path)
            if not isinstance(back,list): back=[back]
        except Exception as e: key=('READ',label,sel,type(e).__name__); fails[key]+=1; ex.setdefault(key,repr(e)[:120]); continue
        comps={c.label:(b,c) for b in back for c in b.main_components}
        for nm in ['fa','ib']:
            hit=[k for k in comps if k.lower().startswith(nm)]
            if not hit: key=('MISSING',label,sel,nm); fails[key]+=1; ex.setdefault(key,list(comps)); continue
            b,c=comps[hit[0]]; g=np.asarray(b[c],float); o=cols[nm].astype(float).copy()
            if nm=='fa': o[~mask]=np.nan
            else:
                pass
            if g.shape!=o.shape: key=('SHAPE',label,sel,nm); fails[key]+=1; ex.setdefault(key,(g.shape,o.shape)); continue
            if nm=='fa' and not np.allclose(g,o,equal_nan=True): key=('VALUE',label,sel,nm); fails[key]+=1; ex.setdefault(key,(g.tolist(),o.tolist()))
            if nm=='ib' and not np.allclose(g[mask],o[mask]): key=('VALUE',label,sel,nm); fails[key]+=1; ex.setdefault(key,(g.tolist(),o.tolist(),mask.tolist()))
            if nm=='ib' and sel in('some','empty') and (~mask).any(): 
                key=('INFO-masked-int-repr',label, str(np.unique(g[~mask]).tolist())); fails[key]+=1
print("gridded", n)
for k_,c_ in sorted(fails.items(), key=str): print(c_,k_,str(ex.get(k_))[:300])
# by-reference session
import astropy.table as at
tab=at.Table({'x':[1.,2.,np.nan],'y':[3,4,5],'s':['a','bb','c']}); tab.write('w/ref.csv',format='ascii.csv',overwrite=True)
d=load_data('w/ref.csv'); dc=DataCollection([d]); dc.new_subset_group(subset_state=d.id['y']>3)
s=GlueSerializer(dc, include_data=False).dumps()
dc2=GlueUnSerializer.loads(s).object('__main__')
print("byref:", [c.label for c in dc2[0].main_components], dc2[0]['x'].tolist(), dc2[0].subsets[0].to_mask().tolist(), 'data' in s and len(s))
