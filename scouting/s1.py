import time; t=time.time()
import numpy as np
from glue.core import Data, DataCollection, Hub, HubListener
from glue.core.message import Message
print("import", time.time()-t)

# C07: nested delay
hub = Hub()
class L(HubListener):
    def __init__(self): self.log=[]
    def notify(self, m): self.log.append(m.tag)
l = L(); hub.subscribe(l, Message)
with hub.delay_callbacks():
    hub.broadcast(Message(None, tag='a'))
    with hub.delay_callbacks():
        hub.broadcast(Message(None, tag='b'))
    print("after inner exit, outer open:", l.log)
    hub.broadcast(Message(None, tag='c'))
    print("before outer exit:", l.log)
print("final", l.log)

# handler opening delay block during flush
hub = Hub()
class L2(HubListener):
    def __init__(self): self.log=[]; self.n=0
    def notify(self, m):
        self.log.append(m.tag)
        if m.tag=='a' and self.n<3:
            self.n+=1
            with hub.delay_callbacks():
                pass
l2=L2(); hub.subscribe(l2, Message)
with hub.delay_callbacks():
    hub.broadcast(Message(None, tag='a'))
    hub.broadcast(Message(None, tag='b'))
print("flush-reentrant:", l2.log)

# exception in delay block
hub = Hub(); l=L(); hub.subscribe(l, Message)
try:
    with hub.delay_callbacks():
        hub.broadcast(Message(None, tag='x'))
        raise RuntimeError
except RuntimeError: pass
print("exc:", l.log, hub._paused, hub._queue)
