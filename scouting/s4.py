import numpy as np, operator, inspect, traceback
from glue.core import Data, DataCollection
from glue.core import subset as S, roi as R
from glue.core.state import GlueSerializer, GlueUnSerializer
from glue.core.subset import *
from glue.core.roi import *

def clone(o, include_data=True):
    gs = GlueSerializer(o, include_data=include_data)
    s = gs.dumps()
    return GlueUnSerializer.loads(s).object('__main__')

d = Data(x=[1.,2.,3.,4.], y=[4.,3.,2.,1.], c=['a','b','a','c'], label='d')
x, y, c = d.id['x'], d.id['y'], d.id['c']
states = {
 'Inequality': x > 2,
 'Range': RangeSubsetState(1.5, 3.5, x),
 'MultiRange': MultiRangeSubsetState([(0.5,1.5),(3.5,4.5)], x),
 'MultiOr': MultiOrState([x > 3, y > 3]),
 'Roi': RoiSubsetState(x, y, RectangularROI(0.5,2.5,2.5,4.5)),
 'RoiNd': S.RoiSubsetStateNd([x, y], RectangularROI(0.5,2.5,2.5,4.5)),
 'CatROI': CategoricalROISubsetState(att=c, roi=CategoricalROI(['a'])),
 'Cat2D': CategoricalROISubsetState2D({'a': {'a'}}, c, c),
 'CatMulti': CategoricalMultiRangeSubsetState({'a': [(0.5, 1.5)]}, c, x),
 'Mask': MaskSubsetState(np.array([True,False,True,False]), d.pixel_component_ids),
 'Slice': SliceSubsetState(d, [slice(1,3)]),
 'Category': CategorySubsetState(c, [0, 2]),
 'Element': ElementSubsetState([0, 3], d),
 'Invert': ~(x > 2),
 'Xor': (x > 2) ^ (y > 2),
 'FloodFill': S.FloodFillSubsetState(d, x, (1,), 1.5),
 'Roi3d': S.RoiSubsetState3d(x, y, x, R.Projected3dROI(RectangularROI(0.5,2.5,2.5,4.5), np.eye(4))),
}
for name, st in states.items():
    dc = DataCollection([Data(x=[1.,2.,3.,4.], y=[4.,3.,2.,1.], c=['a','b','a','c'], label='d')])
    dd = dc[0]
    # rebuild state on dd: simple approach: reuse via cid mapping is hard; instead put state in original d
dc = DataCollection([d])
for name, st in states.items():
    g = dc.new_subset_group(subset_state=st, label=name)
    try:
        m0 = d.subsets[-1].to_mask()
    except Exception as e:
        print(name, "cannot eval orig", repr(e)); dc.remove_subset_group(g); continue
    try:
        dc2 = clone(dc)
    except Exception as e:
        print(name, "SAVE/LOAD FAIL", type(e).__name__, str(e)[:100]); dc.remove_subset_group(g); continue
    d2 = dc2[0]
    try:
        m1 = d2.subsets[-1].to_mask()
        print(name, "OK" if np.array_equal(m0, m1) else "MISMATCH", type(d2.subsets[-1].subset_state).__name__, m0.astype(int), m1.astype(int))
    except Exception as e:
        print(name, "restored eval fail", repr(e))
    dc.remove_subset_group(g)
