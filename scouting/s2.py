import numpy as np, operator
from glue.core import Data, DataCollection
from glue.core.subset import *
from glue.core.roi import *

# C05 a: nested inequality after update_components
d = Data(x=[1.,2.,3.,4.], y=[4.,3.,2.,1.], label='d')
dc = DataCollection([d])
st = (d.id['x'] > 2) & (d.id['y'] > 0)
sg = dc.new_subset_group(subset_state=st)
print("before", d.subsets[0].to_mask())
d.update_components({d.id['x']: np.array([4.,3.,2.,1.])})
print("after update (expect T T F F):", d.subsets[0].to_mask())
fresh = (d.id['x'] > 2) & (d.id['y'] > 0)
print("fresh:", d.get_mask(fresh))

# C05 b: setter on inequality
d = Data(x=[1.,2.,3.,4.], label='d2')
s = InequalitySubsetState(d.id['x'], 2, operator.gt)
print(d.get_mask(s)); s.right = 3; print("after right=3 (expect FFFT):", d.get_mask(s))

# C05 c: top-level inequality after update_components (the tested case)
d = Data(x=[1.,2.,3.,4.], label='d3'); dc=DataCollection([d])
sg = dc.new_subset_group(subset_state=d.id['x']>2)
print(d.subsets[0].to_mask()); d.update_components({d.id['x']: np.array([4.,3.,2.,1.])}); print("top-level after update", d.subsets[0].to_mask())

# C05 d: roi moved inside composite
d = Data(x=[1.,2.,3.,4.], y=[1.,2.,3.,4.], label='d4')
r = RoiSubsetState(d.id['x'], d.id['y'], RectangularROI(0.5,2.5,0.5,2.5))
comp = r | (d.id['x'] > 100)
print(d.get_mask(comp)); comp.move_to(3.5, 3.5); print("after move (expect FFTT)", d.get_mask(comp))

# categorical roi state setter
d = Data(c=['a','b','c','a'], label='d5')
cs = CategoricalROISubsetState(att=d.id['c'], roi=CategoricalROI(['a']))
print(d.get_mask(cs)); cs.roi = CategoricalROI(['b']); print("after roi set (expect FTFF)", d.get_mask(cs))
