import numpy as np, random, collections, warnings, math, copy
warnings.simplefilter('ignore')
from glue.core.roi import *
from glue.core import roi as R
from glue.core.state import GlueSerializer, GlueUnSerializer
rng = random.Random(29)
fails = collections.Counter(); ex={}; n=0
def clone(o): return GlueUnSerializer.loads(GlueSerializer(o).dumps()).object('__main__')
def ref_contains(desc, x, y):
    k=desc['k']
    if k=='rect':
        cx=(desc['xmin']+desc['xmax'])/2; cy=(desc['ymin']+desc['ymax'])/2; t=desc['theta']
        dx,dy=x-cx,y-cy; c,s=math.cos(-t),math.sin(-t); u=c*dx-s*dy; v=s*dx+c*dy
        return (np.abs(u)<(desc['xmax']-desc['xmin'])/2)&(np.abs(v)<(desc['ymax']-desc['ymin'])/2)
    if k=='ell':
        t=desc['theta']; dx,dy=x-desc['xc'],y-desc['yc']; c,s=math.cos(-t),math.sin(-t); u=c*dx-s*dy; v=s*dx+c*dy
        return (u/desc['rx'])**2+(v/desc['ry'])**2<1
    if k=='circ': return (x-desc['xc'])**2+(y-desc['yc'])**2<desc['r']**2
    if k=='ann':
        r=np.hypot(x-desc['xc'],y-desc['yc']); return (r>=desc['ri'])&(r<desc['ro'])
def mk(desc):
    k=desc['k']
    if k=='rect': return RectangularROI(desc['xmin'],desc['xmax'],desc['ymin'],desc['ymax'],desc['theta'])
    if k=='ell': return EllipticalROI(desc['xc'],desc['yc'],desc['rx'],desc['ry'],desc['theta'])
    if k=='circ': return CircularROI(desc['xc'],desc['yc'],desc['r'])
    if k=='ann': return CircularAnnulusROI(desc['xc'],desc['yc'],desc['ri'],desc['ro'])
def theta():
    k=rng.randrange(-4,9); base=k*math.pi/2
    return rng.choice([0., base, base+rng.choice([1e-12,-1e-12,1e-10,-1e-10,1e-8,-1e-8,1e-6,-1e-6]), rng.uniform(-7,7)])
TOL=1e-6
def band(desc,x,y,e):
    b=np.zeros(x.shape,bool)
    for dx,dy in [(TOL,0),(-TOL,0),(0,TOL),(0,-TOL),(TOL,TOL),(-TOL,-TOL),(TOL,-TOL),(-TOL,TOL)]:
        b|= ref_contains(desc,x+dx,y+dy)!=e
    return b
for t in range(3000):
    k=rng.choice(['rect','ell','circ','ann']); c=lambda: rng.uniform(-3,3)
    if k=='rect': a,b=sorted([c(),c()]); e,f=sorted([c(),c()]); desc=dict(k=k,xmin=a,xmax=b+0.1,ymin=e,ymax=f+0.1,theta=theta())
    elif k=='ell': desc=dict(k=k,xc=c(),yc=c(),rx=rng.uniform(0.1,3),ry=rng.uniform(0.1,3),theta=theta())
    elif k=='circ': desc=dict(k=k,xc=c(),yc=c(),r=rng.uniform(0.1,3))
    else: ri=rng.uniform(0.1,2); desc=dict(k=k,xc=c(),yc=c(),ri=ri,ro=ri+rng.uniform(0.1,2))
    roi=mk(desc)
    shape=rng.choice([(50,),(7,8),(3,4,5)])
    x=np.random.RandomState(t).uniform(-5,5,shape); y=np.random.RandomState(t+99999).uniform(-5,5,shape)
    if rng.random()<0.3 and len(shape)==2:
        x=np.broadcast_to(x[:1,:],shape); y=np.broadcast_to(y[:,:1],shape)
    n+=1
    e=ref_contains(desc,x,y); bd=band(desc,x,y,e)
    try: g=roi.contains(x,y)
    except Exception as ex_: key=('EXC',k,type(ex_).__name__); fails[key]+=1; ex.setdefault(key,(desc,repr(ex_)[:100])); continue
    if g.shape!=x.shape or ((g!=e)&~bd).any(): key=('CONTAINS',k); fails[key]+=1; ex.setdefault(key,desc)
    # move
    nx,ny=c(),c(); cx0,cy0=roi.center(); r2=copy.deepcopy(roi); r2.move_to(nx,ny)
    cc=r2.center()
    if not np.allclose(cc,(nx,ny)): key=('CENTER',k); fails[key]+=1; ex.setdefault(key,(desc,cc,(nx,ny)))
    g2=r2.contains(x+(nx-cx0),y+(ny-cy0))
    if ((g2!=e)&~bd).any(): key=('MOVE',k); fails[key]+=1; ex.setdefault(key,desc)
    # clone/copy
    try:
        r3=clone(roi); g3=r3.contains(x,y)
        if (g3!=g).any(): key=('CLONE',k); fails[key]+=1; ex.setdefault(key,desc)
    except Exception as ex_: key=('CLONE-EXC',k,type(ex_).__name__); fails[key]+=1; ex.setdefault(key,(desc,repr(ex_)[:100]))
    if (roi.copy().contains(x,y)!=g).any(): key=('COPY',k); fails[key]+=1
    # to_polygon
    if k!='ann':
        vx,vy=roi.to_polygon(); gp=PolygonalROI(vx,vy).contains(x,y)
        scale=max(desc.get('rx',0),desc.get('ry',0),desc.get('r',0),1)
        bd2=np.zeros(x.shape,bool)
        for dx,dy in [(d*s1,d*s2) for d in [2e-3*scale] for s1 in (-1,0,1) for s2 in (-1,0,1)]:
            bd2|=ref_contains(desc,x+dx,y+dy)!=e
        if ((gp!=e)&~bd2).any(): key=('TOPOLY',k); fails[key]+=1; ex.setdefault(key,desc)
print("C08", n)
for k_,c_ in sorted(fails.items(), key=str): print(c_,k_,str(ex.get(k_))[:300])
