import numpy as np, random, collections, warnings
warnings.simplefilter('ignore')
from glue.core import Data
from glue.core.subset import roi_to_subset_state
from glue.core.roi import *
rng = random.Random(3)
fails = collections.Counter(); ex={}; n=0
TOL=1e-6
def mkroi():
    k = rng.choice(['xr','yr','rect','circ','ell','poly','cat'])
    c = lambda: rng.uniform(-1.5, 4.5)
    if k=='xr': a,b=sorted([c(),c()]); return XRangeROI(a,b)
    if k=='yr': a,b=sorted([c(),c()]); return YRangeROI(a,b)
    if k=='rect': a,b=sorted([c(),c()]); e,f=sorted([c(),c()]); return RectangularROI(a,b,e,f)
    if k=='circ': return CircularROI(c(),c(),rng.uniform(0.2,3))
    if k=='ell': return EllipticalROI(c(),c(),rng.uniform(0.2,3),rng.uniform(0.2,3), rng.choice([0,0,rng.uniform(0,3.14)]))
    if k=='poly':
        m=rng.randrange(3,7); return PolygonalROI([c() for _ in range(m)],[c() for _ in range(m)])
    if k=='cat': return None
for t in range(3000):
    n+=1
    N=rng.randrange(1,12)
    ncat = rng.randrange(1,5)
    cats = rng.sample(['a','b','c','dd','e'], ncat)
    xk = rng.choice(['num','cat']); yk = rng.choice(['num','cat'])
    xs = np.array([rng.choice(cats) for _ in range(N)]) if xk=='cat' else np.array([rng.choice([rng.uniform(-2,5), float(rng.randrange(-1,5)), np.nan]) for _ in range(N)])
    ys = np.array([rng.choice(cats) for _ in range(N)]) if yk=='cat' else np.array([rng.choice([rng.uniform(-2,5), float(rng.randrange(-1,5)), np.nan]) for _ in range(N)])
    d = Data(x=xs, y=ys, label='d')
    xa, ya = d.id['x'], d.id['y']
    xc = d.get_component(xa).categories if xk=='cat' else None
    yc = d.get_component(ya).categories if yk=='cat' else None
    roi = mkroi()
    if roi is None:
        if xk!='cat': continue
        roi = CategoricalROI(rng.sample(list(xc), rng.randrange(0,len(xc)+1)))
        px = d[xa]; exp = np.isin(np.asarray(px), roi.categories) if len(roi.categories) else np.zeros(N,bool); band = np.zeros(N,bool)
    else:
        px = d[xa].codes if xk=='cat' else d[xa]; py = d[ya].codes if yk=='cat' else d[ya]
        exp = roi.contains(px, py)
        # boundary band: perturb
        band = np.zeros(N,bool)
        for dx,dy in [(TOL,0),(-TOL,0),(0,TOL),(0,-TOL),(TOL,TOL),(-TOL,-TOL),(TOL,-TOL),(-TOL,TOL)]:
            band |= roi.contains(px+dx, py+dy) != exp
    try:
        st = roi_to_subset_state(roi, x_att=xa, y_att=ya, x_categories=xc, y_categories=yc)
        got = np.array(d.get_mask(st))
    except Exception as e:
        key=('EXC',type(e).__name__,type(roi).__name__,xk,yk); fails[key]+=1; ex.setdefault(key,(repr(e)[:100],)); continue
    bad = (got!=exp)&~band
    if bad.any():
        key=('VALUE',type(roi).__name__,xk,yk,type(st).__name__); fails[key]+=1; ex.setdefault(key,(vars(roi), xs.tolist(), ys.tolist(), got.astype(int).tolist(), exp.astype(int).tolist()))
print("cases", n)
for k,c in sorted(fails.items(), key=str): print(c,k,ex[k])
