import numpy as np, random, collections, warnings, itertools
warnings.simplefilter('ignore')
from glue.core import Data, DataCollection
from glue.core.component_link import ComponentLink
from glue.core.link_helpers import LinkSame, LinkTwoWay
from glue.core.fixed_resolution_buffer import compute_fixed_resolution_buffer as frb, ARRAY_CACHE, PIXEL_CACHE
rng = random.Random(7)
fails = collections.Counter(); ex={}; n=0
class Lin:
    def __init__(s,a,b): s.a=a; s.b=b
    def __call__(s,x): return s.a*x+s.b
for t in range(150):
    ndt = rng.choice([1,2,3]); nds = rng.randrange(1, ndt+1)
    tshape = tuple(rng.randrange(1,5) for _ in range(ndt)); sshape = tuple(rng.randrange(1,5) for _ in range(nds))
    tgt = Data(t=np.arange(int(np.prod(tshape)),dtype=float).reshape(tshape), label='tgt')
    src = Data(s=np.arange(int(np.prod(sshape)),dtype=float).reshape(sshape)+100, s2=-np.arange(int(np.prod(sshape)),dtype=float).reshape(sshape), label='src')
    dc = DataCollection([tgt, src])
    # map each src pixel axis j to a distinct target axis perm[j] with affine a*x+b
    perm = rng.sample(range(ndt), nds); maps=[]
    for j in range(nds):
        a = rng.choice([1.,1.,2.,0.5,-1.]); b = rng.choice([0.,0.,1.,-1.,0.25])
        maps.append((perm[j],a,b))
        f = Lin(a,b); g = Lin(1/a, -b/a)
        dc.add_link(LinkTwoWay(tgt.pixel_component_ids[perm[j]], src.pixel_component_ids[j], f, g))
    cid = 'cache%d'%t
    for req in range(6):
        n+=1
        bounds=[]
        for i in range(ndt):
            if rng.random()<0.4: bounds.append(rng.choice([0, 1, tshape[i]-1, float(rng.randrange(tshape[i]))]))
            else:
                lo = rng.choice([-1.,0.,0.,1.]); hi = lo + rng.randrange(0,5); bounds.append((lo,hi,int(hi-lo)+1 if rng.random()<0.7 else rng.randrange(1,6)))
        which = rng.choice(['s','s2','mask'])
        st = src.id['s'] > 100+rng.randrange(0,int(np.prod(sshape)))
        kw = dict(target_data=tgt)
        if which=='mask': kw['subset_state']=st
        else: kw['target_cid']=src.id[which]
        # reference
        axes_vals = [np.linspace(*b) if isinstance(b,tuple) else np.array([float(b)]) for b in bounds]
        grid = np.meshgrid(*axes_vals, indexing='ij')
        idx=[]; invalid=np.zeros(grid[0].shape,bool); tie=np.zeros(grid[0].shape,bool)
        for j,(pi,a,b) in enumerate(maps):
            pos = a*grid[pi]+b
            tie |= np.isclose(np.abs(pos-np.floor(pos)),0.5)
            r = np.round(pos).astype(int); inv = (r<0)|(r>=sshape[j]); invalid|=inv; r[inv]=0; idx.append(r)
        full = np.array(src.get_mask(st)) if which=='mask' else np.array(src[which])
        exp = full[tuple(idx)].astype(float); exp[invalid] = 0 if which=='mask' else np.nan
        exp = exp[tuple(slice(None) if isinstance(b,tuple) else 0 for b in bounds)]
        tie = tie[tuple(slice(None) if isinstance(b,tuple) else 0 for b in bounds)]
        for use_cache in [False, True]:
            try:
                got = np.array(frb(src, bounds, cache_id=cid if use_cache else None, **kw), dtype=float)
            except Exception as e:
                key=('EXC',type(e).__name__,use_cache); fails[key]+=1; ex.setdefault(key,(tshape,sshape,maps,bounds,repr(e)[:100])); continue
            if got.shape!=exp.shape: key=('SHAPE',use_cache); fails[key]+=1; ex.setdefault(key,(tshape,sshape,maps,bounds,got.shape,exp.shape)); continue
            ok = np.isclose(got,exp,equal_nan=True)|tie
            if not ok.all(): key=('VALUE',use_cache,which); fails[key]+=1; ex.setdefault(key,(tshape,sshape,maps,bounds,got.tolist(),exp.tolist(), req))
print("C16 cases", n)
for k,c in sorted(fails.items(), key=str): print(c,k,str(ex[k])[:500])
