import numpy as np, random, collections, warnings, itertools, time
warnings.simplefilter('ignore')
import matplotlib; matplotlib.use('Agg')
from glue.core import Data, DataCollection
from glue.core.application_base import Application
from glue.core.coordinates import IdentityCoordinates
from glue.viewers.histogram.viewer import SimpleHistogramViewer
from glue.viewers.scatter.viewer import SimpleScatterViewer
from glue.viewers.image.viewer import SimpleImageViewer
from glue.viewers.profile.viewer import SimpleProfileViewer
rng = random.Random(17)
fails = collections.Counter(); ex={}; n=0
t0=time.time()
def check(v, dc, added, hist):
    errs=[]
    exp=[]
    for d in added:
        if d in dc._data:
            exp.append(d); exp.extend(d.subsets)
    got=[l.layer for l in v.layers]
    st=[ls.layer for ls in v.state.layers]
    if sorted(map(id,got))!=sorted(map(id,st)): errs.append('layers!=state.layers')
    if sorted(map(id,got))!=sorted(map(id,exp)): errs.append('layers!=expected got%d exp%d'%(len(got),len(exp)))
    return errs
for V in [SimpleHistogramViewer, SimpleScatterViewer, SimpleImageViewer, SimpleProfileViewer]:
  for t in range(25):
    mk=lambda i: Data(label='d%d'%i, x=np.arange(24.).reshape(2,3,4)+i, y=np.arange(24.).reshape(2,3,4)**2, coords=IdentityCoordinates(n_dim=3) if i%2 else None)
    datas=[mk(i) for i in range(3)]
    dc=DataCollection(datas[:2]); app=Application(dc)
    v=app.new_data_viewer(V); added=[]; hist=[]
    for step in range(rng.randrange(3,10)):
        op=rng.choice(['vadd','vadd','newgroup','rmgroup','rmdata','append','vrmdata','setstate','addcomp','rmcomp','delaygroup'])
        hist.append(op)
        try:
            if op=='vadd':
                d=rng.choice(datas)
                if d in dc._data:
                    v.add_data(d)
                    if d not in added: added.append(d)
            elif op=='newgroup': dc.new_subset_group(subset_state=datas[0].id['x']>rng.randrange(20))
            elif op=='rmgroup' and dc.subset_groups: dc.remove_subset_group(rng.choice(dc.subset_groups))
            elif op=='rmdata' and len(dc)>1:
                d=rng.choice(list(dc)); dc.remove(d)
                if d in added: added.remove(d)
            elif op=='append':
                d=rng.choice(datas); dc.append(d)
            elif op=='vrmdata' and added:
                d=rng.choice(added); v.remove_data(d); added.remove(d)
            elif op=='setstate' and dc.subset_groups: rng.choice(dc.subset_groups).subset_state = datas[0].id['x']>rng.randrange(20)
            elif op=='addcomp': d=rng.choice(list(dc)); d.add_component(np.zeros(d.shape)+step,'n%d'%step)
            elif op=='rmcomp':
                d=rng.choice(list(dc))
                if len(d.main_components)>1: d.remove_component(d.main_components[-1])
            elif op=='delaygroup':
                with dc.hub.delay_callbacks():
                    g=dc.new_subset_group(subset_state=datas[0].id['x']>3)
                    if rng.random()<0.5: dc.remove_subset_group(g)
        except Exception as e:
            key=('OP-EXC',V.__name__,op,type(e).__name__); fails[key]+=1; ex.setdefault(key,(hist[:],repr(e)[:150])); 
        n+=1
        for e_ in check(v,dc,added,hist):
            key=('INV',V.__name__,e_.split(' ')[0],op); fails[key]+=1; ex.setdefault(key,(hist[:],e_))
        if V is SimpleImageViewer and v.state.reference_data is not None:
            s=v.state
            if s.x_att is s.y_att or s.x_att is None or s.x_att not in s.reference_data.pixel_component_ids: key=('IMG-XY',op); fails[key]+=1; ex.setdefault(key,hist[:])
print("C18 checks", n, time.time()-t0)
for k,c in sorted(fails.items(), key=str): print(c,k,str(ex[k])[:400])
