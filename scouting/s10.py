import numpy as np, json, warnings
warnings.simplefilter('ignore')
from glue.core import Data, DataCollection
from glue.core import state as st
from glue.core.state import GlueSerializer, GlueUnSerializer, PATH_PATCHES, lookup_class_with_patches
from glue.core.link_helpers import LinkSame
import glue.core.state_objects, glue.viewers.image.state

S, U = GlueSerializer.dispatch, GlueUnSerializer.dispatch
print("savers:")
for k, vs in S._data.items(): print("  ", getattr(k,'__name__',k), sorted(vs), "loader:", sorted(U._data.get(k, {})))
print("loaders w/o saver:", [getattr(k,'__name__',k) for k in U._data if k not in S._data])

class VS(GlueSerializer):
    """serializer that writes type T with version v"""
    def __init__(self, obj, force, **kw):
        self.force = force; super().__init__(obj, **kw)
    def _dispatch(self, obj):
        if not hasattr(obj, '__gluestate__'):
            for typ in type(obj).mro():
                if typ in self.force:
                    return self.dispatch.get_version(typ, self.force[typ]), self.force[typ]
        return super()._dispatch(obj)

def build():
    d1 = Data(x=[1.,2.,3.], y=[3.,2.,1.], label='d1'); d2 = Data(a=[1.,2.], label='d2')
    d1.add_component_link(d1.id['x']*2, 'dbl')
    dc = DataCollection([d1,d2]); dc.add_link(LinkSame(d1.id['x'], d2.id['a']))
    dc.new_subset_group(subset_state=d1.id['x']>1.5, label='g')
    d2.join_on_key(d1, 'a', 'y')
    return dc
for dv in [1,2,3,4,5]:
  for cv in [1,2,3,4]:
    dc = build()
    try:
        s = VS(dc, {Data: dv, DataCollection: cv}, include_data=True).dumps()
        dc2 = GlueUnSerializer.loads(s).object('__main__')
        d1b = dc2[0]
        ok = dict(labels=[d.label for d in dc2], comps=[c.label for c in d1b.components], vals=d1b['dbl'].tolist(), nsub=[len(d.subsets) for d in dc2], groups=len(dc2.subset_groups))
        try: ok['mask']=d1b.subsets[0].to_mask().astype(int).tolist()
        except Exception as e: ok['mask']=repr(e)[:50]
        try: ok['link'] = dc2[1]['x'].tolist()
        except Exception as e: ok['link']=repr(e)[:50]
        try: ok['join'] = dc2[1].get_mask(d1b.id['x']>1.5).astype(int).tolist() if dv>=3 else 'n/a'
        except Exception as e: ok['join']=repr(e)[:50]
        print(dv, cv, ok)
    except Exception as e:
        import traceback; print(dv, cv, "FAIL", type(e).__name__, str(e)[:200])
# path patches
bad=[]
for k,v in PATH_PATCHES.items():
    seen=set(); cur=k
    while cur in PATH_PATCHES and cur not in seen: seen.add(cur); cur=PATH_PATCHES[cur]
    if cur in PATH_PATCHES: bad.append(('cycle',k))
    if cur.startswith('glue.'):
        try:
            o = st.lookup_class(cur)
            if o is None: bad.append(('unresolved',k,cur))
        except Exception as e: bad.append(('exc',k,cur,repr(e)[:60]))
    # key captures existing concrete class?
    try:
        o = st.lookup_class(k)
        if o is not None and isinstance(o,type) and getattr(o,'__module__','')+'.'+o.__name__==k: bad.append(('captures-live',k))
    except Exception: pass
print(len(PATH_PATCHES), "patches; bad:", bad[:20])
