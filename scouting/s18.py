import numpy as np, random, collections, warnings, os, tempfile
warnings.simplefilter('ignore')
from glue.core import Data, DataCollection
from glue.core.data_factories import load_data
from glue.config import data_exporter
from glue.core.data_exporters import astropy_table, hdf5, gridded_fits
rng = random.Random(19)
print([ (e.label, e.extension) for e in data_exporter.members])
fails = collections.Counter(); ex={}; n=0
tmp = tempfile.mkdtemp(dir='/tmp/scout')
exps = {e.label: e for e in data_exporter.members}
def cmp(orig, got, kind):
    if kind=='str': return list(map(str,orig))==list(map(lambda s: s.decode() if isinstance(s,bytes) else str(s), got))
    return np.allclose(np.asarray(orig,float), np.asarray(got,float), equal_nan=True)
for t in range(60):
    N=rng.randrange(1,6)
    cols={'fa': np.array([rng.choice([1.5,-2.25,np.nan,0.]) for _ in range(N)]), 'ib': np.array([rng.randrange(-5,5) for _ in range(N)]), 'sc': np.array([rng.choice(['ab','c d','xyz','q']) for _ in range(N)])}
    d = Data(label='t', **cols); dc=DataCollection([d])
    sel = rng.choice(['none','all','some','empty'])
    if sel!='none':
        thr = {'all':-100,'some':0,'empty':100}[sel]
        dc.new_subset_group(subset_state=d.id['ib']>=thr); obj=d.subsets[0]; mask=obj.to_mask()
    else: obj=d; mask=np.ones(N,bool)
    for label,ext in [('Comma-separated table','csv'),('FITS Table','fits'),('VO Table','vot'),('HDF5','hdf5')]:
        n+=1
        path=os.path.join(tmp,'f%d.%s'%(t,ext))
        try:
            exps[label].function(path, obj)
        except Exception as e:
            key=('WRITE-EXC',label,sel,type(e).__name__); fails[key]+=1; ex.setdefault(key,repr(e)[:150]); continue
        try:
            back = load_data(path)
            if isinstance(back,list): back=back[0]
        except Exception as e:
            key=('READ-EXC',label,sel,type(e).__name__); fails[key]+=1; ex.setdefault(key,repr(e)[:150]); continue
        names=[c.label for c in back.main_components]
        if names!=['fa','ib','sc']: key=('NAMES',label,sel); fails[key]+=1; ex.setdefault(key,names); continue
        for nm,kind in [('fa','f'),('ib','i'),('sc','str')]:
            o=cols[nm][mask]; g=np.asarray(back[nm])
            if len(o)!=len(g) or not cmp(o,g,kind): key=('VALUE',label,sel,nm); fails[key]+=1; ex.setdefault(key,(o.tolist(),g.tolist()))
print("C19", n)
for k,c in sorted(fails.items(), key=str): print(c,k,str(ex[k])[:300])
