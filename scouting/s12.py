import numpy as np, warnings
warnings.simplefilter('ignore')
import matplotlib; matplotlib.use('Agg')
from glue.core import Data, DataCollection
from glue.core.application_base import Application
from glue.core.state import GlueSerializer, GlueUnSerializer
from glue.viewers.histogram.viewer import SimpleHistogramViewer
from glue.viewers.scatter.viewer import SimpleScatterViewer
from glue.viewers.image.viewer import SimpleImageViewer
from glue.viewers.profile.viewer import SimpleProfileViewer

class HApp(Application):
    def __init__(self, *a, **k):
        super().__init__(*a, **k); self._viewers=[]
    def add_widget(self, v): self._viewers.append(v)
    def __gluestate__(self, context):
        r = super().__gluestate__(context); r['viewers']=[context.id(v) for v in self._viewers]; return r
    @classmethod
    def __setgluestate__(cls, rec, context):
        self = super().__setgluestate__(rec, context)
        for v in rec['viewers']: self._viewers.append(context.object(v))
        return self
import __main__
for V in [SimpleHistogramViewer, SimpleScatterViewer, SimpleImageViewer, SimpleProfileViewer]:
    d = Data(x=np.arange(24.).reshape(2,3,4), y=np.arange(24.).reshape(2,3,4)**2, label='d')
    dc = DataCollection([d])
    app = HApp(dc)
    v = app.new_data_viewer(V, data=d)
    dc.new_subset_group(subset_state=d.id['x']>5, label='s')
    try:
        s = GlueSerializer(app, include_data=True).dumps()
        app2 = GlueUnSerializer.loads(s).object('__main__')
        v2 = app2._viewers[0]
        print(V.__name__, "restored layers", [str(l.layer.label) for l in v2.layers], len(v2.state.layers), type(v2.layers[0]).__name__)
    except Exception as e:
        import traceback
        print(V.__name__, "RESTORE FAIL", type(e).__name__, str(e)[:200])
