import numpy as np, operator, random, traceback, collections, warnings
warnings.simplefilter('ignore')
from glue.core import Data
from glue.core.subset import *
from glue.core.roi import *

rng = random.Random(2)
def ref_stat(stat, arr, mask, axis, finite, positive, pct):
    a = np.array(arr, dtype=float)
    keep = np.ones(a.shape, bool)
    if finite: keep &= np.isfinite(a)
    if positive: keep &= a > 0
    if mask is not None: keep &= mask
    if axis is None:
        vals = a[keep]
        if vals.size == 0: return np.nan
        f = dict(minimum=np.min, maximum=np.max, mean=np.mean, median=np.median, sum=np.sum)
        if stat=='percentile': return np.percentile(vals, pct)
        return f[stat](vals)
    axes = (axis,) if isinstance(axis,int) else tuple(axis)
    rest = [i for i in range(a.ndim) if i not in axes]
    outshape = tuple(a.shape[i] for i in rest)
    out = np.full(outshape, np.nan)
    am = np.moveaxis(a, rest, list(range(len(rest)))); km = np.moveaxis(keep, rest, list(range(len(rest))))
    for idx in np.ndindex(*outshape):
        vals = am[idx][km[idx]]
        if vals.size: out[idx] = ref_stat(stat, vals, None, None, False, False, pct)
    return out

fails = collections.Counter(); ex = {}; n=0
for trial in range(400):
    nd = rng.choice([1,2,3])
    shape = tuple(rng.randrange(1,5) for _ in range(nd))
    size = int(np.prod(shape))
    vals = np.array([rng.choice([-2.,-1.,0.,1.,2.,3.,np.nan,np.inf]) if rng.random()<0.8 else rng.uniform(-5,5) for _ in range(size)]).reshape(shape)
    d = Data(v=vals, w=np.arange(size,dtype=float).reshape(shape), label='d')
    v, w = d.id['v'], d.id['w']; px = d.pixel_component_ids
    sts = {'none': None, 'ineq': w >= rng.randrange(size+1), 'slice': SliceSubsetState(d, [slice(rng.randrange(0,2), rng.randrange(1,s+1)) for s in shape]),
           'pixr': RangeSubsetState(rng.uniform(-1,2), rng.uniform(0,4), px[rng.randrange(nd)]), 'empty': w < -1,
           'mask': MaskSubsetState(np.array([rng.random()<0.4 for _ in range(size)]).reshape(shape), px)}
    sname = rng.choice(list(sts)); st = sts[sname]
    axis_opts = [None] + [i for i in range(nd)] + ([tuple(sorted(rng.sample(range(nd), k))) for k in range(1,nd+1)])
    axis = rng.choice(axis_opts)
    stat = rng.choice(['minimum','maximum','mean','median','sum','percentile'])
    pct = rng.choice([0, 10, 50, 99.5, 100])
    finite = rng.random()<0.8; positive = rng.random()<0.3
    vk = rng.choice(['none','slices','short','ints'])
    if vk=='none': view=None
    elif vk=='slices': view = tuple(slice(rng.randrange(0,s), rng.randrange(1,s+1), rng.choice([None,1,1,2])) for s in shape)
    elif vk=='short': view = tuple(slice(rng.randrange(0,s), rng.randrange(1,s+1)) for s in shape[:rng.randrange(1,nd+1)])
    else: view = tuple(rng.randrange(s) if rng.random()<0.4 else slice(rng.randrange(0,s), rng.randrange(1,s+1)) for s in shape)
    nchunk = rng.choice([40000000, 1, 2, 3, 5])
    n+=1
    full_mask = None if st is None else np.array(d.get_mask(st))
    arr = vals if view is None else vals[view]
    m = full_mask if (full_mask is None or view is None) else full_mask[view]
    # axis must be valid for the viewed array
    nd_view = arr.ndim
    if axis is not None:
        axs = (axis,) if isinstance(axis,int) else axis
        if any(a>=nd_view for a in axs): continue
    if not finite and not positive and m is None and np.isnan(arr).any(): pass
    try:
        exp = ref_stat(stat, arr, m, axis, finite, positive, pct)
    except Exception as e:
        continue
    try:
        got = d.compute_statistic(stat, v, subset_state=st, axis=axis, finite=finite, positive=positive, percentile=pct, view=view, n_chunk_max=nchunk)
    except Exception as e:
        key=('EXC', type(e).__name__, sname, vk, 'axis' if axis is not None else 'noaxis'); fails[key]+=1; ex.setdefault(key, (shape, str(view), axis, stat, repr(e)[:100])); continue
    if not finite:  # non-finite semantic ambiguous -> skip compare unless all finite
        if not np.all(np.isfinite(arr)): continue
    got = np.asarray(got, dtype=float); exp = np.asarray(exp, dtype=float)
    if got.shape != exp.shape:
        key=('SHAPE', sname, vk, 'axis' if axis is not None else 'noaxis'); fails[key]+=1; ex.setdefault(key,(shape,str(view),axis,stat,got.shape,exp.shape)); continue
    if not np.allclose(got, exp, equal_nan=True):
        key=('VALUE', sname, vk, stat, 'axis' if axis is not None else 'noaxis', finite, positive); fails[key]+=1; ex.setdefault(key,(shape,str(view),axis,got.tolist(),exp.tolist(), nchunk))
print("cases", n)
for k,c in sorted(fails.items(), key=str): print(c, k, ex[k])
