import numpy as np, random, collections, warnings, itertools
warnings.simplefilter('ignore')
from glue.core import Data, DataCollection
from glue.core.component_link import ComponentLink
from glue.core.link_helpers import LinkSame, LinkTwoWay, MultiLink
from glue.core.exceptions import IncompatibleAttribute
rng = random.Random(11)
fails = collections.Counter(); ex={}; n=0
class F:
    def __init__(s,k,nin): s.k=k; s.nin=nin; s.__name__='f%d'%k
    def __call__(s,*a): return sum((i+1)*x for i,x in enumerate(a))*1.0 + s.k
def reach(dc, links):
    """independent fixpoint: per data, dict cid -> (depth, set of candidate value arrays as tuples)"""
    out={}
    for d in dc:
        known = {c:(0,[np.asarray(d[c],float)]) for c in d.main_components + d.coordinate_components}
        changed=True
        while changed:
            changed=False
            for (frm,to,fn) in links:
                if all(f in known for f in frm):
                    depth = max(known[f][0] for f in frm)+1
                    cands=[]
                    for combo in itertools.product(*[known[f][1] for f in frm]):
                        cands.append(np.asarray(fn(*combo),float)*np.ones(d.shape))
                    if to not in known or depth < known[to][0]:
                        known[to]=(depth,cands); changed=True
                    elif depth==known[to][0] and known[to][0]>0:
                        new=[c for c in cands if not any(np.array_equal(c,o) for o in known[to][1])]
                        if new: known[to]=(depth, known[to][1]+new); changed=True
        out[d]=known
    return out
for t in range(200):
    nd_ = rng.randrange(2,5)
    datas=[Data(label='D%d'%i, **{'c%d_%d'%(i,j): np.array([rng.randrange(1,9) for _ in range(i+2)],float) for j in range(rng.randrange(1,3))}) for i in range(nd_)]
    dc = DataCollection(datas)
    live=[]  # (glue link obj, [(frm,to,fn)...])
    allcids = lambda: [c for d in dc for c in d.main_components]
    for step in range(rng.randrange(3,10)):
        op = rng.choice(['add1','add1','addsame','add2way','addmulti','rmlink','rmcomp','rmdata','readd'])
        try:
            cs = allcids()
            if op=='add1' and len(cs)>=2:
                a,b = rng.sample(cs,2); f=F(rng.randrange(1,50),1); l=ComponentLink([a],b,f); dc.add_link(l); live.append((l,[([a],b,f)]))
            elif op=='addsame' and len(cs)>=2:
                a,b = rng.sample(cs,2); l=LinkSame(a,b); dc.add_link(l); idf=lambda x:x; live.append((l,[([a],b,idf),([b],a,idf)]))
            elif op=='add2way' and len(cs)>=2:
                a,b = rng.sample(cs,2); k=rng.randrange(1,50); f=lambda x,k=k:x+k; g=lambda x,k=k:x-k
                l=LinkTwoWay(a,b,f,g); dc.add_link(l); live.append((l,[([a],b,f),([b],a,g)]))
            elif op=='addmulti' and len(cs)>=3:
                a,b,c = rng.sample(cs,3)
                if a.parent is b.parent:
                    f=F(rng.randrange(1,50),2); l=ComponentLink([a,b],c,f); dc.add_link(l); live.append((l,[([a,b],c,f)]))
            elif op=='rmlink' and live:
                l,_ = live.pop(rng.randrange(len(live))); dc.remove_link(l)
            elif op=='rmcomp' and cs:
                c = rng.choice(cs)
                if len(c.parent.main_components)>1:
                    c.parent.remove_component(c)
                    live=[(l,m) for (l,m) in live if not any(c in fr or c is to for fr,to,_ in m)]
            elif op=='rmdata' and len(dc)>2:
                d = rng.choice(list(dc)); dc.remove(d)
                live=[(l,m) for (l,m) in live if not any(any(x.parent is d for x in fr) or to.parent is d for fr,to,_ in m)]
        except Exception as e:
            key=('OP-EXC',op,type(e).__name__); fails[key]+=1; ex.setdefault(key,repr(e)[:100]); continue
        # check
        n+=1
        if len(dc.external_links)!=len(live): key=('LINKCOUNT',op); fails[key]+=1; ex.setdefault(key,(len(dc.external_links),len(live)))
        links=[m for _,ms in live for m in ms]
        R = reach(dc, links)
        for d in dc:
            for c in [c for dd in datas for c in dd.main_components if c.parent is dd] :
                if c.parent is d and c in d.main_components: continue
                expect = c in R[d] and not (c.parent is d)
                if c.parent is d: continue  # removed own comp
                try:
                    got = np.asarray(d[c],float); can=True
                except IncompatibleAttribute: can=False
                if can != (c in R[d]): key=('REACH',op,can); fails[key]+=1; ex.setdefault(key,(d.label,c.label,[str(l) for l,_ in live])); continue
                if can and not any(np.allclose(got,cand) for cand in R[d][c][1]): key=('VALUE',op); fails[key]+=1; ex.setdefault(key,(d.label,c.label,got.tolist(),[x.tolist() for x in R[d][c][1]],[str(l) for l,_ in live]))
print("C03 checks", n)
for k,c in sorted(fails.items(), key=str): print(c,k,str(ex[k])[:400])
