import numpy as np, itertools, collections
from glue.utils.array import *
from glue.utils.array import find_chunk_shape
# combine_slices exhaustive
bad=0; n=0
for length in range(0, 9):
    rng_ = [None]+list(range(0, length+2))
    for b1,e1,s1 in itertools.product(rng_, rng_, [None,1,2,3]):
        for b2,e2,s2 in itertools.product(rng_, rng_, [None,1,2,3]):
            sl1=slice(b1,e1,s1); sl2=slice(b2,e2,s2)
            idx = np.arange(length)
            viewed = idx[sl1]; chosen = set(idx[sl2].tolist())
            exp = [i for i,v in enumerate(viewed.tolist()) if v in chosen]
            got = np.arange(len(viewed))[combine_slices(sl1, sl2, length)].tolist()
            n+=1
            if got!=exp:
                bad+=1
                if bad<5: print("combine_slices BAD", length, sl1, sl2, got, exp)
print("combine_slices", n, "bad", bad)
# iterate_chunks
bad=0;n=0
for shape in itertools.product(range(0,5), repeat=2):
    for nmax in range(1, 20):
        cnt = np.zeros(shape, int); ok=True
        for sl in iterate_chunks(shape, n_max=nmax):
            cnt[sl]+=1
            if cnt[sl].size>nmax: ok=False
        n+=1
        if not ok or not np.all(cnt==1): bad+=1; print("iterate_chunks BAD", shape, nmax, cnt.tolist()) if bad<5 else None
for shape in itertools.product(range(1,4), repeat=3):
    for cs in itertools.product(*[range(1,s+1) for s in shape]):
        cnt = np.zeros(shape, int)
        for sl in iterate_chunks(shape, chunk_shape=cs): cnt[sl]+=1
        n+=1
        if not np.all(cnt==1): bad+=1; print("iterate_chunks cs BAD", shape, cs) if bad<5 else None
    for nmax in range(1,30):
        cnt = np.zeros(shape, int); ok=True
        for sl in iterate_chunks(shape, n_max=nmax):
            cnt[sl]+=1; ok &= cnt[sl].size<=nmax
        n+=1
        if not ok or not np.all(cnt==1): bad+=1; print("iterate_chunks 3d BAD", shape, nmax) if bad<5 else None
print("iterate_chunks", n, "bad", bad)
# unbroadcast
bad=0
for shape in itertools.product(range(0,4), repeat=3):
    for mask in itertools.product([0,1], repeat=3):
        base_shape = tuple(1 if m else s for s,m in zip(shape,mask))
        base = np.arange(int(np.prod(base_shape)), dtype=float).reshape(base_shape)
        try: arr = np.broadcast_to(base, shape)
        except ValueError: continue
        u = unbroadcast(arr)
        try:
            back = np.broadcast_to(u, shape)
            if not np.array_equal(back, arr) or u.size>base.size: bad+=1; print("unbroadcast BAD", shape, mask, u.shape)
        except Exception as e: bad+=1; print("unbroadcast EXC", shape, mask, u.shape, e)
print("unbroadcast bad", bad)
# categorical
from glue.utils.array import categorical_ndarray
bad=0
for n_ in range(1,5):
    for vals in itertools.product(['a','b','cc',''], repeat=n_):
        c = categorical_ndarray(np.array(vals))
        cats, codes = c.categories, c.codes
        if list(cats)!=sorted(set(vals)) or not np.array_equal(cats[codes.astype(int)], np.array(vals)): bad+=1; print("cat BAD", vals, cats, codes)
print("categorical bad", bad)
