import numpy as np, operator
from glue.core import Data, DataCollection
from glue.core.subset import *
from glue.core.roi import *
from glue.core.exceptions import IncompatibleAttribute

# C11 n-n with dtype mismatch
d1 = Data(a=np.array([1,2,3,4]), b=np.array([1,1,2,2]), v=[10.,20.,30.,40.], label='d1')
d2 = Data(p=np.array([1.,2.,3.,9.]), q=np.array([1.,1.,2.,2.]), label='d2')
d2.join_on_key(d1, ('p','q'), ('a','b'))
st = d1.id['v'] > 15   # selects rows (2,1),(3,2),(4,2)
print("n-n int/float: got", d2.get_mask(st).astype(int), "expect [0 1 1 0]")
d1 = Data(a=np.array([1,2,3,4]), b=np.array([1,1,2,2]), v=[10.,20.,30.,40.], label='d1')
d2 = Data(p=np.array([1,2,3,9]), q=np.array([1,1,2,2]), label='d2')
d2.join_on_key(d1, ('p','q'), ('a','b'))
print("n-n int/int: got", d2.get_mask(d1.id['v']>15).astype(int), "expect [0 1 1 0]")
# strings of different widths
d1 = Data(a=np.array(['x','yy','zzz','w']), b=np.array(['k','k','l','l']), v=[10.,20.,30.,40.], label='d1')
d2 = Data(p=np.array(['yy','zzz','q']), q=np.array(['k','l','k']), label='d2')
d2.join_on_key(d1, ('p','q'), ('a','b'))
try: print("n-n str widths: got", d2.get_mask(d1.id['v']>15).astype(int), "expect [1 1 0]")
except Exception as e: print("n-n str err", repr(e))
# 1-1 str widths
d1 = Data(a=np.array(['x','yy','zzz','w']), v=[10.,20.,30.,40.], label='d1')
d2 = Data(p=np.array(['yy','zzz','q']), label='d2')
d2.join_on_key(d1, 'p', 'a')
print("1-1 str: got", d2.get_mask(d1.id['v']>15).astype(int), "expect [1 1 0]")
# cyclic incompat
d1 = Data(a=[1,2], label='d1'); d2 = Data(b=[1,2], label='d2'); d3 = Data(c=[1,2], label='d3'); d4=Data(z=[5,6],label='d4')
d1.join_on_key(d2,'a','b'); d2.join_on_key(d3,'b','c'); d3.join_on_key(d1,'c','a')
try: d1.get_mask(d4.id['z']>5); print("cyc: no raise")
except IncompatibleAttribute: print("cyc: IncompatibleAttribute OK")
# chain
d1 = Data(a=[1,2,3], v=[1.,2.,3.], label='d1'); d2 = Data(b=[3,2,1], label='d2'); d3 = Data(c=[2,2,5], label='d3')
d2.join_on_key(d1,'b','a'); d3.join_on_key(d2,'c','b')
print("chain: got", d3.get_mask(d1.id['v']>1.5).astype(int), "expect [1 1 0]")

# C08 polygon rotate by pi
p = PolygonalROI([0,2,0],[0,0,1])
pts = (np.array([0.5, -0.5+4/3]), np.array([0.2, 0.5]))
cx, cy = p.center()
print("center", cx, cy, "before", p.contains(np.array([0.3]), np.array([0.2])))
p.rotate_to(np.pi)
print("after rotate pi vx", p.vx, p.vy, "theta", p.theta)

# C01 MultiOr copy shares states
d = Data(x=[1.,2.,3.,4.], label='d')
a = d.id['x'] > 3; b = d.id['x'] < 2
m = MultiOrState([a, b]); m2 = m.copy()
print("MultiOr copy shares list:", m2.states is m.states, "children same:", m2.states[0] is m.states[0])

# C14 constant parsed command with view
from glue.core.parse import ParsedCommand, ParsedComponentLink
from glue.core.component_id import ComponentID
d = Data(x=[1.,2.,3.,4.], label='d')
pc = ParsedCommand('3.5', {})
link = ParsedComponentLink(ComponentID('k'), pc)
d.add_component_link(link)
print("parsed const full", d['k'], "view", d['k', slice(0,2)])
