import numpy as np, random, collections, warnings, itertools
warnings.simplefilter('ignore')
from glue.core import Data, DataCollection
from glue.core.data_derived import IndexedData
from glue.core.subset import *
from glue.core.coordinates import IdentityCoordinates
rng=random.Random(31); fails=collections.Counter(); ex={}; n=0
for trial in range(150):
    nd=rng.choice([2,3]); shape=tuple(rng.randrange(1,5) for _ in range(nd)); size=int(np.prod(shape))
    d=Data(v=np.array([rng.choice([-1.,0.,1.,2.,np.nan]) for _ in range(size)]).reshape(shape), w=np.arange(size,dtype=float).reshape(shape), label='p', coords=rng.choice([None, IdentityCoordinates(n_dim=nd)]))
    keep=[rng.random()<0.6 for _ in range(nd)]
    if not any(keep): keep[0]=True
    if all(keep) and nd>1: keep[-1]=False
    idx=tuple(None if k else rng.randrange(s) for k,s in zip(keep,shape))
    try: ix=IndexedData(d, idx)
    except Exception as e: key=('CTOR',type(e).__name__); fails[key]+=1; ex.setdefault(key,(shape,idx,repr(e)[:100])); continue
    for rep in range(2):
        sl=tuple(slice(None) if i is None else i for i in idx)
        st=rng.choice([d.id['w']>rng.randrange(size), SliceSubsetState(d,[slice(0,max(1,s-1)) for s in shape]), RangeSubsetState(-0.5,1.5,d.pixel_component_ids[0]), MaskSubsetState((np.arange(size).reshape(shape)%2==0), d.pixel_component_ids)])
        n+=1
        try:
            for cid_i,cid_p in zip(ix.main_components, d.main_components):
                g=ix.get_data(cid_i); e=d[cid_p][sl]
                if g.shape!=e.shape or not np.array_equal(g,e,equal_nan=True): key=('DATA',); fails[key]+=1; ex.setdefault(key,(shape,idx))
            for pi,pc in enumerate(ix.pixel_component_ids):
                g=ix.get_data(pc); 
                exp_axis=[i for i,k in enumerate(idx) if k is None][pi]
                e=d[d.pixel_component_ids[exp_axis]][sl]
                if g.shape!=e.shape or not np.array_equal(g,e): key=('PIX',); fails[key]+=1; ex.setdefault(key,(shape,idx,pi))
            g=ix.get_mask(st); e=np.array(d.get_mask(st))[sl]
            if g.shape!=e.shape or not np.array_equal(g,e): key=('MASK',type(st).__name__); fails[key]+=1; ex.setdefault(key,(shape,idx))
            view=tuple(slice(rng.randrange(0,s), None) for s in ix.shape)
            g=ix.get_mask(st,view=view); 
            if not np.array_equal(g,e[view]): key=('MASKVIEW',type(st).__name__); fails[key]+=1; ex.setdefault(key,(shape,idx,str(view)))
            for stat in ['mean','maximum','sum']:
                g=ix.compute_statistic(stat, ix.main_components[0]); a=d['v'][sl]; a=a[np.isfinite(a)]
                e_={'mean':np.mean,'maximum':np.max,'sum':np.sum}[stat](a) if a.size else np.nan
                if not np.allclose(g,e_,equal_nan=True): key=('STAT',stat); fails[key]+=1; ex.setdefault(key,(shape,idx,g,e_))
                g=ix.compute_statistic(stat, ix.main_components[0], subset_state=st); m=np.array(d.get_mask(st))[sl]; a=d['v'][sl]; a=a[m&np.isfinite(a)]
                e_={'mean':np.mean,'maximum':np.max,'sum':np.sum}[stat](a) if a.size else np.nan
                if not np.allclose(g,e_,equal_nan=True): key=('STATSUB',stat,type(st).__name__); fails[key]+=1; ex.setdefault(key,(shape,idx,g,e_))
            h=ix.compute_histogram([ix.main_components[1]], range=[(0,size)], bins=[4]); e_=np.histogram(d['w'][sl].ravel(), range=(0,size), bins=4)[0]
            if not np.array_equal(h,e_): key=('HIST',); fails[key]+=1; ex.setdefault(key,(shape,idx,h.tolist(),e_.tolist()))
            h=ix.compute_histogram([ix.main_components[1]], range=[(0,size)], bins=[4], subset_state=st); e_=np.histogram(d['w'][sl][np.array(d.get_mask(st))[sl]].ravel(), range=(0,size), bins=4)[0]
            if not np.array_equal(h,e_): key=('HISTSUB',type(st).__name__); fails[key]+=1; ex.setdefault(key,(shape,idx,h.tolist(),e_.tolist()))
        except Exception as e:
            import traceback
            key=('EXC',type(e).__name__, traceback.extract_tb(e.__traceback__)[-1].name); fails[key]+=1; ex.setdefault(key,(shape,idx,repr(e)[:100]))
        # change indices
        idx=tuple(None if i is None else rng.randrange(s) for i,s in zip(idx,shape)); ix.indices=idx
print("IndexedData", n)
for k_,c_ in sorted(fails.items(), key=str): print(c_,k_,str(ex.get(k_))[:300])
