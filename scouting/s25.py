import numpy as np, random, collections, warnings, operator, os, tempfile
warnings.simplefilter('ignore')
from glue.core import Data, DataCollection
from glue.core.coordinates import AffineCoordinates
from glue.core.component_link import ComponentLink
from glue.core.component_id import ComponentID
from glue.core.parse import ParsedCommand, ParsedComponentLink
rng=random.Random(41); fails=collections.Counter(); ex={}; n=0
OPS={'+':operator.add,'-':operator.sub,'*':operator.mul,'/':operator.truediv,'**':operator.pow}
def gen(depth, nin):
    if depth==0 or rng.random()<0.3:
        return ('c', rng.choice([2,0.5,-1,3])) if rng.random()<0.3 else ('v', rng.randrange(nin))
    return (rng.choice(list(OPS)), gen(depth-1,nin), gen(depth-1,nin))
def build(t, cids):
    if t[0]=='c': return t[1]
    if t[0]=='v': return cids[t[1]]
    return OPS[t[0]](build(t[1],cids), build(t[2],cids))
def ev(t, arrs):
    if t[0]=='c': return t[1]
    if t[0]=='v': return arrs[t[1]]
    with np.errstate(all='ignore'): return OPS[t[0]](ev(t[1],arrs), ev(t[2],arrs))
def has_v(t): return t[0]=='v' or (t[0] not in 'cv' and (has_v(t[1]) or has_v(t[2])))
def top_has_cid(t): return t[0]!='c'
for trial in range(600):
    nd=rng.choice([1,2,3]); shape=tuple(rng.randrange(1,4) for _ in range(nd)); size=int(np.prod(shape))
    m=np.eye(nd+1); 
    for i in range(nd): m[i,i]=2+i; m[i,-1]=i
    d=Data(a=np.arange(size,dtype=float).reshape(shape)+1, b=np.array([rng.choice([1.,2.,-1.,0.5]) for _ in range(size)]).reshape(shape), i=np.arange(size).reshape(shape), coords=AffineCoordinates(m), label='d')
    cids=[d.id['a'],d.id['b'],d.id['i']]+list(d.pixel_component_ids)+list(d.world_component_ids)
    arrs=[np.asarray(d[c]) for c in cids]
    t=gen(rng.randrange(1,5), len(cids))
    if not has_v(t) or t[0] in 'cv': continue
    # ensure python can build: at least one side at every op must be cid/link else python evaluates constants
    try: link=build(t,cids)
    except Exception as e: key=('BUILD',type(e).__name__); fails[key]+=1; ex.setdefault(key,(t,repr(e)[:80])); continue
    if isinstance(link,(int,float)): continue
    n+=1
    try:
        d.add_component_link(link,'der'); exp=np.broadcast_to(np.asarray(ev(t,arrs),float),shape)
        got=np.asarray(d['der'],float)
        if got.shape!=shape or not np.allclose(got,exp,equal_nan=True): key=('VALUE',); fails[key]+=1; ex.setdefault(key,(shape,t))
        for _ in range(4):
            view=tuple(rng.choice([slice(None),slice(rng.randrange(0,s),None,rng.choice([1,2])),rng.randrange(s)]) for s in shape[:rng.randrange(1,nd+1)])
            g=np.asarray(d['der',view],float)
            if g.shape!=exp[view].shape or not np.allclose(g,exp[view],equal_nan=True): key=('VIEW',); fails[key]+=1; ex.setdefault(key,(shape,t,str(view),g.shape,exp[view].shape))
        # derived of derived
        d.add_component_link(d.id['der']*2+d.pixel_component_ids[0],'der2')
        g=np.asarray(d['der2'],float); e2=exp*2+arrs[3]
        if not np.allclose(g,e2,equal_nan=True): key=('NESTED',); fails[key]+=1; ex.setdefault(key,(shape,t))
    except Exception as e:
        import traceback; key=('EXC',type(e).__name__,traceback.extract_tb(e.__traceback__)[-1].name); fails[key]+=1; ex.setdefault(key,(shape,t,repr(e)[:100]))
print("C14 trees", n)
for k_,c_ in sorted(fails.items(), key=str): print(c_,k_,str(ex.get(k_))[:300])

# removal closure
fails=collections.Counter(); ex={}
for trial in range(300):
    d=Data(a=np.arange(3.),b=np.arange(3.)+1,c=np.arange(3.)+2,label='d')
    deps={}  # label -> set of direct inputs (labels)
    names=['a','b','c']
    for k in range(rng.randrange(1,7)):
        ins=rng.sample(names, rng.randrange(1,min(3,len(names))+1)); lab='d%d'%k
        link=d.id[ins[0]]
        for x in ins[1:]: link=link+d.id[x]
        if len(ins)==1: link=link*2
        d.add_component_link(link,lab); deps[lab]=set(ins); names.append(lab)
    victim=rng.choice(names); order_before=[c.label for c in d.components]
    def closure(v):
        out={v}; ch=True
        while ch:
            ch=False
            for l,ins in deps.items():
                if l not in out and ins&out: out.add(l); ch=True
        return out
    gone=closure(victim)
    d.remove_component(d.id[victim])
    after=[c.label for c in d.components]
    exp=[l for l in order_before if l not in gone]
    if after!=exp: key=('REMOVE',); fails[key]+=1; ex.setdefault(key,(deps,victim,after,exp))
print("removal", dict(fails), list(ex.values())[:1])
