import numpy as np, random, collections, warnings, itertools
warnings.simplefilter('ignore')
from glue.core import Data, DataCollection, HubListener
from glue.core.message import *
from glue.core.component_id import ComponentID
from glue.core.component import Component
from glue.core.coordinates import IdentityCoordinates, AffineCoordinates
rng = random.Random(13)
fails = collections.Counter(); ex={}; n=0
class Log(HubListener):
    def __init__(s,hub): s.log=[]; hub.subscribe(s, Message, handler=s.log.append)
def inv(d):
    errs=[]
    cids = d.components
    if len(set(map(id,cids)))!=len(cids): errs.append('dupcid')
    for c in cids:
        try:
            shp = np.shape(d[c])
            if shp != d.shape: errs.append('shape:%s'%c.label)
        except Exception as e: errs.append('read:%s:%s'%(c.label,type(e).__name__))
    if len(d.pixel_component_ids)!=d.ndim: errs.append('npix %d!=%d'%(len(d.pixel_component_ids),d.ndim))
    if [getattr(p,'axis',None) for p in d.pixel_component_ids]!=list(range(d.ndim)): errs.append('pixaxes')
    nw = len(d.world_component_ids)
    if d.coords is not None and nw!=d.ndim: errs.append('nworld %d!=%d'%(nw,d.ndim))
    if d.coords is None and nw!=0: errs.append('nworld-nocoords %d'%nw)
    for p in list(d.pixel_component_ids)+list(d.world_component_ids):
        if not any(p is c for c in cids): errs.append('coordcid-not-in-components:%s'%p.label)
    if d.coords is not None and len(d.coordinate_links)!=2*d.ndim: errs.append('ncoordlinks %d'%len(d.coordinate_links))
    labels=[c.label for c in cids]
    for lab in set(labels):
        m=[c for c in cids if c.label==lab]
        try: r=d.find_component_id(lab)
        except Exception as e: errs.append('find-exc'); continue
        if len(m)==1 and r is not m[0]: errs.append('find-unique-miss:%s'%lab)
    return errs
for t in range(300):
    shape = tuple(rng.randrange(1,4) for _ in range(rng.choice([1,2])))
    mk = lambda shp=shape: np.array([rng.randrange(9) for _ in range(int(np.prod(shp)))],float).reshape(shp)
    d = Data(label='d', a=mk(), b=mk(), coords=rng.choice([None, IdentityCoordinates(n_dim=len(shape))]))
    incoll = rng.random()<0.7
    if incoll: dc = DataCollection([d]); log=Log(dc.hub)
    else: log=None
    hist=[]
    for step in range(rng.randrange(2,9)):
        op = rng.choice(['add','addbad','addder','rm','reorder','rename','update_id','update_comp','update_comp_bad','from_data','from_data_reshape','coords'])
        hist.append(op); before=len(log.log) if log else 0
        comps_before=list(d.components)
        try:
            mc=d.main_components
            if op=='add': d.add_component(mk(), 'n%d'%step)
            elif op=='addbad':
                try: d.add_component(np.zeros(tuple(s+1 for s in d.shape)), 'bad'); 
                except ValueError: pass
            elif op=='addder' and len(mc)>=1: d.add_component_link(rng.choice(mc)*2+1, 'der%d'%step)
            elif op=='rm' and len(mc)>1: d.remove_component(rng.choice(mc))
            elif op=='reorder': c=list(d.components); rng.shuffle(c); d.reorder_components(c)
            elif op=='rename' and mc: rng.choice(mc).label='r%d'%step
            elif op=='update_id' and mc: d.update_id(rng.choice(mc), ComponentID('u%d'%step))
            elif op=='update_comp' and mc: d.update_components({rng.choice(mc): mk(d.shape)})
            elif op=='update_comp_bad' and mc:
                try: d.update_components({rng.choice(mc): np.zeros(tuple(s+1 for s in d.shape))})
                except ValueError: pass
            elif op=='from_data': d.update_values_from_data(Data(label='d', **{c.label: mk(d.shape) for c in d.main_components[:2]}, z=mk(d.shape), coords=d.coords))
            elif op=='from_data_reshape':
                ns = tuple(rng.randrange(1,4) for _ in range(d.ndim))
                d.update_values_from_data(Data(label='d', **{c.label: mk(ns) for c in d.main_components}, coords=d.coords))
            elif op=='coords': d.coords = rng.choice([None, IdentityCoordinates(n_dim=d.ndim), AffineCoordinates(np.eye(d.ndim+1)*1.0)])
        except Exception as e:
            key=('OP-EXC',op,type(e).__name__); fails[key]+=1; ex.setdefault(key,(hist[:],repr(e)[:120]))
        n+=1
        for e_ in inv(d):
            key=('INV',e_.split(':')[0],op); fails[key]+=1; ex.setdefault(key,(hist[:],e_,d.shape))
print("C17 checks", n)
for k,c in sorted(fails.items(), key=str): print(c,k,str(ex[k])[:300])
